"""C12 - solving has no side effects on its inputs and no aliasing between positions; deep copies are disjoint and closed.

Tie: T + K.
  T  driver/translate/c12_effects.py regenerates lean/PyrollModel/Gen/C12.lean from the source on every run: the
     classifier producers as programs of a small set language (executed by the model, certified `safe` in
     lean/PyrollProps/C12.lean), the shape of the two shallow copy constructors, every write of the functions that make
     up `solve`, what `init_solve` stores and what `solve` returns (certified by `decide` against the shape the
     hand-written model assumes).
     Also read: the FORM of `Unit.init_solve`'s `if not self.out_profile: ... [else: ...]` (`Gen.C12.outReuse`): no else
     branch = a re-used out-profile is kept as it is; the else branch that deletes outdated entries / sets the incoming
     profile's non-root-hook entries / fills in missing root-hook entries = hand-over; any other shape is a broken tie.
     The model's `ensureOut` follows the value read, so the same check is green on a tree of either form.
     Also read: the velocity solvers of a pass sequence (every write with its receiver resolved through the local
     bindings, every use of `in_profile`, what `roll_passes` lists) and the two `__deepcopy__` methods as (path
     condition, statement) lists + every definition of a copy / pickle protocol method in the package - certified
     against the shape `Heap.solveVel` / `Heap.copyBody` assume.
     Also read: the construction of a roll pass - the FORM in which `SymmetricRollPass.__init__` binds `self.roll`
     (`Gen.C12.rollStore`: `.copy` = `self.Roll(roll, self)` unconditionally, `.adopt` = the object handed in; anything
     else, e.g. a case distinction on what is handed in, is a broken tie), every binding of an attribute `roll` in the
     package and every constructor statement in roll_pass/ that uses its parameter `roll` - `Heap.mkPass` takes the form.
  K  hand-written model lean/PyrollModel/Heap.lean (objects with identity, strong fields, weak back-links; solve as an
     effect trace; deep copy with memo; list edits).  One case = one HISTORY on real objects: build 1-2 caller
     profiles, grooves, roll templates (optionally looked at by the caller before use, optionally ONE Roll object for
     two passes, a pass built from THE ROLL OF ANOTHER PASS - unsolved, solved, of a deep copy -, a new template on the
     groove object of another pass), up to 6 units (two-/three-roll passes with rotation off / automatic / an explicit angle, transports,
     cooling pipes, 0-2 explicit rotators of any angle between two passes, disk elements, nested sequences), then solve
     / re-solve (whole sequence or one unit, also with the live in-/out-profile of the neighbour) / lay a second
     sequence over units that are listed in one already / walk through a sequence unit by unit / run a velocity solver of a
     sequence (`solve_velocities_forward` / `_backward`: solve entry points that take the caller's profile) / keep
     handles / deep copy / append / replace / change a gap / give a unit an explicit value that is a callable holding
     on to another unit of the line (bound method, functools.partial, callable object) / read values on a profile,
     template, unit or roll / register a hook implementation on a throw-away subclass.  After every op the harness compares with the model (same op lines)
        * the names of the pre-existing objects whose `__dict__` / `__cache__` / content changed  vs  the write
          targets of the model's effect trace, and
        * the canonical aliasing graph of everything it holds a handle on (identities renamed by first appearance:
          which profile entries are the same object, every parent / unit / roll_pass / owner back-link; for roll
          templates, pass rolls and plain profiles whether the hook value cache holds anything).

The independent oracle (class Oracle) is written from the property text: inputs (caller's profiles, grooves, roll
templates - identity AND deep value of `__dict__` and `__cache__`) unchanged by every op; profiles outside the solved
sub-tree and profiles already returned unchanged by later ops; no mutable value (set/list/dict/ndarray) reachable
from any profile ever changes content after it was first seen; a unit / pass roll outside the solved sub-tree keeps
its entries and every value it has evaluated (its cache may only gain entries); no two objects share one hook value
cache; no two units hold one roll / in-profile / out-profile / sub-unit list object, and the back-reference of each
names the unit that holds it (whatever object - a template, the roll of another pass, the out-profile of another unit -
the caller handed in); building a pass is an operation like any other (what was handed in and every other position
unchanged); what belongs to a position that is not below the unit being solved is not that solve's to rewrite, also
when the solved unit refers to it; a deep copy shares no unit / profile / roll / sub-unit list with the original - reachability follows attributes,
containers, weak references AND callables given as values (`__self__` of a bound method, the arguments of a partial) -
and every back-reference inside the copy points into the copy.
Values given as MUTABLE objects where immutable scalars are usual (numpy arrays for the numeric entries of a profile or a
roll template) are shared by reference along the line like every other value: the same clauses, array contents compared
as bytes (stream `mutable-numbers`, oracle only - the heap model has numbers as atoms; on the side of the source the
translator lists every in-place operation of every hook function, certified to act on own locals only).
"""
import copy
import functools
import logging
import time
import types
import weakref

ID = "C12"
LEAN_MODULES = ["PyrollProps.C12"]
MODEL = "c12"                                   # lean/Drivers/c12.lean
MODEL_MODULES = ["PyrollModel.HeapDriver"]
RULE = ("random histories on real objects: 1-2 caller profiles (round 30 mm / 55 mm, extra mutable entries: material list, "
        "composition dict, ndarray, tag set; in 25% the caller reads values on the profile before he hands it over), 1-6 "
        "units in rolling order (two-roll oval/round chain or three-roll chain, transports, cooling pipes, 0-2 explicit "
        "rotators of 45/90/180 (three-roll: 60/120/180) degrees between two passes, pass rotation False / True / an explicit "
        "angle completing the turn, 0-2 disk elements, roll templates read before use (30%); an object of an earlier pass "
        "handed to a later one (30% two positions later, 55% of the replacements; of a deep copy's pass 40%): its Roll "
        "template (2/5), ITS OWN ROLL - RollPass(roll=other.roll), unsolved or solved - (2/5), a new template on its groove "
        "object (1/5); optionally a nested sequence; in 30% 1-2 units get "
        "an explicit value (`duration` of a transport, a custom entry) that holds on to a unit of the line: a callable - "
        "bound method / functools.partial / callable object - or a list / dict naming it), then 3-9 actions: "
        "solve root / solve one unit / walk through a sequence unit by unit with the returned profiles / re-solve with "
        "another or a returned profile / solve_velocities_forward or _backward of a sequence that lists a roll pass "
        "(any first unit; as the first solve of fresh objects in 12%, else with a (sequence, profile) pair a plain solve "
        "has shown to converge) / keep handles / deep copy (root or nested) and continue on copy and original / a second "
        "sequence laid over a leading part of an existing one (corpus histories only) / "
        "append / replace / change gap / bind a callable / read values on a profile, a template, a unit, its roll or its profiles / "
        "register a classifier hook on a throw-away Transport subclass; ~8% of the cases contain a physically "
        "infeasible pass (solve raises inside pyroll: only the oracle runs from there). A case is non-trivial when it "
        "contains a re-solve, a deep copy or an edit after a solve; distinct by the op list. A second stream (30 / 300 "
        "histories, same generator, oracle only) gives numeric entries of the incoming profiles (>= 1 of strain, temperature, "
        "flow_stress, length, t, density) and of half of the new roll templates (nominal_radius, rotational_frequency, extra "
        "entries) as MUTABLE numbers: numpy 0-d array / 1-d array of one element / 0-d view into a series.")
ASSUMPTIONS = [
    "copy.deepcopy of third-party values (shapely geometries, numpy arrays, builtin containers) is a parameter of the "
    "model: a new object with equal content; CPython's memo protocol, weakref and dict order are modelled, not verified",
    "the number of iterations of every solution loop is numeric and therefore an input of the model (taken from the "
    "implementation's own log messages)",
    "the effect trace of solve is as good as the hand-written model: it is tied to the code by the sampled comparison "
    "of written objects and aliasing graphs (K) and by the translated write list / producers (T)",
    "the form of Unit.init_solve's treatment of a re-used out-profile is read from the source (keep / hand-over); WHICH "
    "names are root hooks of an out-profile (the registry `root_hooks`) is hand-written in the model as far as it has them "
    "(cross_section, classifiers, t; of a pass also technologically_orientated_cross_section) and tied by the sampled "
    "comparison of the aliasing graphs after re-solves",
    "the form in which SymmetricRollPass.__init__ binds self.roll is read from the source (a new pass roll made from the "
    "object handed in / the object itself; anything else is a broken tie); the model's constructor (Heap.mkPass) follows the "
    "value read and the certificate demands the first; that TwoRollPass / ThreeRollPass hand their roll on unchanged is "
    "certified textually (rollParamUses)",
    "hook value caches are modelled as MAY-effects (which names a solve caches depends on the registered hook "
    "functions): the model says on which objects a cache can change, the comparison checks that the implementation "
    "changes no other; what the caller's own reading caches is an input of the model (observed on the implementation)",
    "a solve whose solution loops need more than 400 iterations in total (non-converging pass) ends the model side of "
    "that history (the interpreted model would need minutes); the oracle continues",
    "the number of rounds of a velocity solver (first solve + passes of the velocity loop) is numeric: an input of the "
    "model, taken from the implementation's log; which hook values the solver reads on the roll passes before the first "
    "solve is a may-effect on the caches of the listed passes and their rolls",
    "a callable given as an explicit value is modelled as an object holding ONE reference (what it is bound to); that "
    "copy.deepcopy rebuilds bound methods / partials / objects from the deep copies of what they hold (CPython: "
    "_deepcopy_method, __reduce_ex__) is part of the modelled-not-verified deepcopy protocol",
    "numbers are atoms of the model; histories in which a number is given as a mutable object (numpy array) are checked by "
    "the oracle only; that no hook function changes a received value in place is certified on the translated list of the "
    "in-place operations of all hook functions (per function, no alias analysis through calls)",
    "user processors and user hook functions are outside the statement (the core hands values on by reference; a user "
    "function that mutates a received set in place changes every profile sharing it - see notes/C12.md, O1)",
]
TRUSTED_EXTRA = ["driver/translate/c12_effects.py (ast -> Heap.Prog / write lists), executed against the model by the harness"]

MODEL_MAX_ITERATIONS = 400      # per solve op, summed over all nested solution loops

FIELD = {"cross_section": 0, "classifiers": 1, "technologically_orientated_cross_section": 2,
         "material": 10, "chemical_composition": 11, "my_array": 12, "my_tags": 13}


def translate(ctx):
    from driver import core
    from driver.translate import c12_effects
    try:
        c12_effects.emit(ctx, core.REPO, core.LEAN_DIR)
    except c12_effects.Gap as e:
        ctx.tie_breaks.append(f"c12_effects: {e}")


# ---------------------------------------------------------------------------------------------------
# helpers on real objects
# ---------------------------------------------------------------------------------------------------
def _np():
    import numpy as np
    return np


def is_atom(v):
    np = _np()
    if isinstance(v, (int, float, complex, str, bytes, bool, type(None), np.generic, types.FunctionType,
                      types.BuiltinFunctionType, types.MethodType, type)):
        return True
    return isinstance(v, tuple) and all(is_atom(x) for x in v)


# explicit values that are CALLABLES holding a reference to another object of the graph (the library evaluates a callable
# explicit value lazily in Hook.__get__: `value()` or `value(instance)`)
BOUND_FIELD = {"duration": 43, "pacing": 44}


# numeric entries given as MUTABLE numbers (numpy arrays where python floats are usual): name -> value.  The solver handles
# array valued hook results (`evaluate_and_set_hooks`); such a value is ONE object shared by reference by the caller's
# profile, every in-profile copy, the out-profiles that hand it on and the returned profiles (roll template -> pass roll)
BOX_PROFILE = {"temperature": 1200 + 273.15, "strain": 0.0, "flow_stress": 100e6, "length": 1.0, "t": 0.0, "density": 7.5e3}
BOX_ROLL = {"nominal_radius": 160e-3, "rotational_frequency": 1.0, "my_wear": 0.1, "temperature": 300.0}
BOX_FORMS = ["a0", "a1", "a0", "a1", "a0s"]


def boxed_value(v, form):
    """`a0`: 0-d array `np.array(x)`, `a1`: 1-d array of one element, `a0s`: a 0-d VIEW into a larger array the caller keeps
    (a measured series: one cell handed in) - in-place arithmetic on any of them changes the caller's data"""
    np = _np()
    if form == "a0":
        return np.array(float(v))
    if form == "a1":
        return np.array([float(v)])
    if form == "a0s":
        return np.array([float(v), float(v) + 1.0, float(v) + 2.0])[0:1].reshape(())
    raise ValueError(f"unknown form of a mutable number: {form!r}")


def pace_of(leader):
    """bound with types.MethodType(pace_of, leader): a bound method of ANOTHER unit, no further parameter"""
    return 1.0


def pace_like(leader, follower):
    """bound with functools.partial(pace_like, leader): one open parameter (the instance the value is asked on)"""
    return 1.0


class PaceFrom:
    """a callable object that keeps the unit it takes its value from"""

    def __init__(self, leader):
        self.leader = leader

    def __call__(self, follower):
        return 1.0


def callable_refs(v):
    """the objects a callable value holds on to (bound method: `__self__`; partial: function, arguments; a callable
    object: through its `__dict__`, which every traversal follows anyway), or None when `v` is no such callable"""
    if isinstance(v, types.MethodType):
        return [v.__self__]
    if isinstance(v, functools.partial):
        return [v.func] + list(v.args) + list((v.keywords or {}).values())
    return None


def bound_target(v):
    """the one object an explicit value made by `op_bind` holds on to"""
    if isinstance(v, types.MethodType):
        return v.__self__
    if isinstance(v, functools.partial):
        return v.args[0] if v.args else None
    if isinstance(v, PaceFrom):
        return v.leader
    if isinstance(v, list) and not hasattr(v, "_owner") and len(v) == 1 and hasattr(v[0], "__dict__"):
        return v[0]
    if isinstance(v, dict) and set(v) == {"leader"}:
        return v["leader"]
    return None


def ident(v):
    if isinstance(v, weakref.ref):
        t = v()
        return ("w", None if t is None else id(t))
    return id(v)


def fp(v, depth=0):
    """content fingerprint of a value (deep, by value)"""
    np = _np()
    if isinstance(v, (set, frozenset)):
        return ("set", tuple(sorted(map(repr, v))))
    if isinstance(v, dict):
        return ("dict", tuple((repr(k), fp(x, depth + 1)) for k, x in v.items())) if depth < 3 else ("dict", len(v))
    if isinstance(v, (list, tuple)) and not hasattr(v, "_owner"):
        return (type(v).__name__, tuple(fp(x, depth + 1) for x in v)) if depth < 3 else (type(v).__name__, len(v))
    if isinstance(v, np.ndarray):
        return ("nd", v.shape, v.dtype.str, v.tobytes())
    if hasattr(v, "wkb") and hasattr(v, "geom_type"):
        return ("geom", v.wkb)
    if isinstance(v, weakref.ref):
        return ("weak",)
    if isinstance(v, types.MethodType):
        # the value of a bound method: which function, bound to WHICH object (its repr would spell out the whole unit)
        return ("bound", getattr(v.__func__, "__qualname__", "?"), id(v.__self__))
    if isinstance(v, functools.partial):
        return ("partial", getattr(v.func, "__qualname__", "?"), tuple(id(a) for a in v.args))
    if is_atom(v):
        return ("a", repr(v))
    return ("obj", type(v).__name__)


class Snap:
    """identity AND value of everything an object stores itself.  The snapshot HOLDS the stored objects: otherwise
    a replaced value could be released and its address (= id) re-used by the replacement, and the replacement would
    go unnoticed"""
    __slots__ = ("key", "hold")

    def __init__(self, key, hold):
        self.key = key
        self.hold = hold

    def __eq__(self, other):
        return isinstance(other, Snap) and self.key == other.key

    def __ne__(self, other):
        return not self.__eq__(other)

    __hash__ = None


def snap(o):
    if isinstance(o, list) and hasattr(o, "_owner"):
        return Snap(("sublist", tuple(id(x) for x in o), ident(o.__dict__.get("_owner"))), list(o))
    if hasattr(o, "__dict__") and not isinstance(o, (set, dict, list)) and not hasattr(o, "wkb"):
        cache = o.__dict__.get("__cache__") or {}
        d = {k: (ident(v), fp(v)) for k, v in o.__dict__.items() if k != "__cache__"}
        c = {k: (id(v), fp(v)) for k, v in cache.items()}
        return Snap(("host", d, c), list(o.__dict__.values()) + list(cache.values()))
    return Snap(("val", fp(o)), [o])


def public_refs(p):
    """(code, value) of the public, reference-valued explicit entries of a profile, ascending code"""
    res = []
    unknown = sorted(k for k, v in p.__dict__.items() if not k.startswith("_") and not is_atom(v) and k not in FIELD)
    for k, v in p.__dict__.items():
        if k.startswith("_") or is_atom(v):
            continue
        code = FIELD[k] if k in FIELD else 90 + unknown.index(k)
        res.append((code, v))
    res.sort(key=lambda e: e[0])
    return res


class Lib:
    def __init__(self):
        import pyroll.core as pr
        self.pr = pr

    def tag(self, u):
        pr = self.pr
        if isinstance(u, pr.DiskElementUnit.DiskElement):
            return 5
        if isinstance(u, pr.BaseRollPass):
            return 1
        if isinstance(u, pr.Transport):
            return 2
        if isinstance(u, pr.PassSequence):
            return 3
        if isinstance(u, pr.Rotator):
            return 4
        return 0

    def kind(self, o):
        pr = self.pr
        if isinstance(o, pr.Unit):
            return "unit"
        if isinstance(o, pr.Unit.InProfile):
            return "I"
        if isinstance(o, pr.Unit.OutProfile):
            return "O"
        if isinstance(o, pr.Profile):
            return "P"
        if isinstance(o, pr.BaseRollPass.Roll):
            return "passroll"
        if isinstance(o, pr.Roll):
            return "template"
        if isinstance(o, pr.GrooveBase):
            return "groove"
        if isinstance(o, list) and hasattr(o, "_owner"):
            return "sublist"
        if is_atom(o):
            return "atom"
        return "value"


def weak_of(o, attr):
    r = o.__dict__.get(attr)
    if r is None:
        return None, "_"
    t = r() if isinstance(r, weakref.ref) else r
    if t is None:
        return None, "dead"
    return t, None


# ---------------------------------------------------------------------------------------------------
# canonical dump (must print exactly what Heap.dump prints)
# ---------------------------------------------------------------------------------------------------
class Dumper:
    def __init__(self, lib):
        self.lib = lib
        self.num = {}
        self.hold = []

    def cls(self, o):
        c = self.num.get(id(o))
        if c is None:
            c = len(self.num)
            self.num[id(o)] = c
            self.hold.append(o)
        return f"#{c}"

    def weak(self, o, attr):
        t, s = weak_of(o, attr)
        return s if t is None else self.cls(t)

    @staticmethod
    def cflag(o):
        """is anything in the hook value cache? (roll templates, pass rolls, plain profiles)"""
        return "1" if o.__dict__.get("__cache__") else "0"

    def prof(self, p):
        if p is None:
            return "_"
        c = self.cls(p)
        fs = ",".join(f"f{code}={self.cls(v)}" for code, v in public_refs(p))
        w = self.weak(p, "_unit")
        k = self.lib.kind(p)
        cf = f";c={self.cflag(p)}" if k == "P" else ""
        return f"p{c}:{k}{{{fs};w={w}{cf}}}"

    def roll(self, r):
        if r is None:
            return "_"
        c = self.cls(r)
        g = r.__dict__.get("groove")
        gs = "_" if g is None else self.cls(g)
        w = self.weak(r, "_roll_pass")
        return f"r{c}{{g={gs};w={w};c={self.cflag(r)}}}"

    def unit(self, u, fuel=6):
        c = self.cls(u)
        if fuel == 0:
            return f"u{c}"
        w = self.weak(u, "_parent")
        i = self.prof(u.__dict__.get("in_profile"))
        o = self.prof(u.__dict__.get("out_profile"))
        r = self.roll(u.__dict__.get("roll"))
        lst = u.__dict__.get("_subunits")
        if lst is None:
            sub = "_"
        else:
            lc = self.cls(lst)
            lw = self.weak(lst, "_owner")
            sub = f"l{lc}(w={lw})[" + ",".join(self.unit(x, fuel - 1) for x in lst) + "]"
        cb = []
        for name, code in BOUND_FIELD.items():
            v = u.__dict__.get(name)
            t = bound_target(v) if v is not None else None
            if t is not None:
                kc = self.cls(v)
                cb.append(f"f{code}=k{kc}({self.cls(t)})")
        return f"u{c}:{self.lib.tag(u)}{{w={w},in={i},out={o},roll={r},sub={sub},cb={','.join(cb) if cb else '-'}}}"

    def slot(self, o):
        k = self.lib.kind(o)
        if k == "atom":
            return "a"
        if k == "value":
            return "v" + self.cls(o)
        if k == "groove":
            c = self.cls(o)
            return f"g{c}{{cl={self.cls(o._classifiers)}}}"
        if k == "template":
            c = self.cls(o)
            return f"t{c}{{g={self.cls(o.groove)};c={self.cflag(o)}}}"
        if k == "passroll":
            return self.roll(o)
        if k in ("P", "I", "O"):
            return self.prof(o)
        if k == "unit":
            return self.unit(o)
        return "l" + self.cls(o)


def dump(lib, slots):
    d = Dumper(lib)
    return " ".join(d.slot(o) for o in slots)


def names_of(lib, k, o):
    """(name, object) for everything slot k gives access to - mirrors Heap.namesOf"""
    def prof_names(pre, p):
        if p is None:
            return []
        return [(pre, p)] + [(f"{pre}.f{code}", v) for code, v in public_refs(p)]
    kind = lib.kind(o)
    pre = str(k)
    if kind == "unit":
        res = [(pre, o)] + prof_names(pre + ".in", o.__dict__.get("in_profile")) \
            + prof_names(pre + ".out", o.__dict__.get("out_profile"))
        if o.__dict__.get("roll") is not None:
            res.append((pre + ".roll", o.__dict__["roll"]))
        if o.__dict__.get("_subunits") is not None:
            res.append((pre + ".sub", o.__dict__["_subunits"]))
        return res
    if kind in ("P", "I", "O"):
        return prof_names(pre, o)
    return [(pre, o)]


# ---------------------------------------------------------------------------------------------------
# iteration counts from the implementation's own log
# ---------------------------------------------------------------------------------------------------
class SolveBudget(Exception):
    """raised by the harness (from its log handler) inside a solve that runs away: solution loops that do not converge
    at several nesting levels at once multiply (99 x 99 x 99 … solves, hours).  Treated like a solve that raised inside
    pyroll: the history ends there, the oracle's clauses for an interrupted solve apply"""


MAX_SOLVE_STARTS = 25000        # nested solve calls in ONE op (a lone non-converging pass: 99 x 2 disks x 99 = 19 602)
MAX_SOLVE_SECONDS = 45.0        # backstop (pyroll formats the whole unit into every log message: up to 30 ms per call)


def _is_budget(e):
    """SolveBudget, also when pyroll has wrapped it into another exception on the way up"""
    seen = 0
    while e is not None and seen < 20:
        if isinstance(e, SolveBudget):
            return True
        e = e.__cause__ or e.__context__
        seen += 1
    return False


class IterLog(logging.Handler):
    def __init__(self):
        super().__init__(level=logging.INFO)
        self.stack = []
        self.counts = []
        self.tops = 0            # solve calls that are not nested in another solve
        self.starts = 0
        self.t0 = time.monotonic()

    def emit(self, rec):
        try:
            msg = rec.getMessage()
        except Exception:
            return
        if msg.startswith("Started solving of"):
            self.starts += 1
            if self.starts > MAX_SOLVE_STARTS or time.monotonic() - self.t0 > MAX_SOLVE_SECONDS:
                raise SolveBudget(f"{self.starts} nested solve calls, {time.monotonic() - self.t0:.0f} s")
            if not self.stack:
                self.tops += 1
            self.stack.append(len(self.counts))
            self.counts.append(None)
        elif msg.startswith("Finished solving of") and self.stack:
            self.counts[self.stack.pop()] = int(msg.rsplit(" after ", 1)[1].split()[0])
        elif msg.startswith("Solution iteration of") and " exceeded the maximum iteration count of " in msg and self.stack:
            n = int(msg.split(" exceeded the maximum iteration count of ", 1)[1].split(".")[0])
            self.counts[self.stack.pop()] = max(n - 1, 0)


class capture_iters:
    def __enter__(self):
        self.lg = logging.getLogger("pyroll.core")
        self.old = self.lg.level
        self.h = IterLog()
        self.lg.setLevel(logging.INFO)
        self.lg.addHandler(self.h)
        return self.h

    def __exit__(self, *a):
        self.lg.removeHandler(self.h)
        self.lg.setLevel(self.old)


# ---------------------------------------------------------------------------------------------------
# the independent oracle
# ---------------------------------------------------------------------------------------------------
MUTABLE = None


def _mutable_types():
    global MUTABLE
    if MUTABLE is None:
        MUTABLE = (set, list, dict, bytearray, _np().ndarray)
    return MUTABLE


class _Problems(list):
    """list of (key, text); remembers after how many ops a key was reported first (replays are cut there)"""

    def __init__(self, oracle):
        super().__init__()
        self.oracle = oracle

    def append(self, item):
        self.oracle.first_at.setdefault(item[0], self.oracle.nops)
        super().append(item)


class Oracle:
    """the property as stated, on real objects only"""

    def __init__(self, lib):
        self.lib = lib
        self.inputs = []          # (what, obj, snap)     caller's profiles, grooves, roll templates
        self.returned = []        # (obj, snap)
        self.profiles = {}        # id -> (obj, snap)     every in/out/returned/caller profile ever seen
        self.values = {}          # id -> (obj, fingerprint, where) mutable values reachable from a profile
        self.state = {}           # id -> (what, obj, snap) every unit / pass roll ever seen ("positions")
        self.problems = _Problems(self)   # (key, text)
        self.nops = 0             # number of ops applied so far (set by World.apply)
        self.first_at = {}        # key -> number of ops after which it was first reported

    # -- registration -------------------------------------------------------------------------
    def add_input(self, what, o):
        self.inputs.append((what, o, snap(o)))
        self.see_values(o)

    def see_values(self, o):
        """every mutable container / array stored on an object the caller handed in (explicit entries and evaluated
        values of a roll template, a groove): its CONTENT stays what it was when first seen, whoever shares it"""
        mt = _mutable_types()
        d = getattr(o, "__dict__", None)
        if not isinstance(d, dict):
            return
        for store in (d, d.get("__cache__") or {}):
            for k, v in list(store.items()):
                if k == "__cache__":
                    continue
                for x in ([v] + (list(v) if isinstance(v, (tuple, list)) and not hasattr(v, "_owner") else [])):
                    if isinstance(x, mt) and id(x) not in self.values:
                        self.values[id(x)] = (x, fp(x), f"{type(o).__name__}.{k}")

    def add_returned(self, p):
        self.returned.append((p, snap(p)))
        self.see_profile(p)

    def see_profile(self, p):
        if id(p) not in self.profiles:
            self.profiles[id(p)] = (p, snap(p))
        mt = _mutable_types()
        for store, d in (("dict", p.__dict__), ("cache", p.__dict__.get("__cache__") or {})):
            for k, v in list(d.items()):
                if k == "__cache__":
                    continue
                for x in ([v] + (list(v) if isinstance(v, (tuple, list)) and not hasattr(v, "_owner") else [])):
                    if isinstance(x, mt) and id(x) not in self.values:
                        self.values[id(x)] = (x, fp(x), f"{type(p).__name__}.{k}")

    def units_below(self, u, acc=None, depth=0):
        acc = [] if acc is None else acc
        acc.append(u)
        if depth < 8:
            for c in list(u.__dict__.get("_subunits") or []):
                self.units_below(c, acc, depth + 1)
        return acc

    def see_unit(self, u):
        if id(u) not in self.state:
            self.state[id(u)] = ("unit", u, snap(u))
        r = u.__dict__.get("roll")
        if r is not None and hasattr(r, "__dict__") and id(r) not in self.state:
            self.state[id(r)] = ("roll", r, snap(r))

    def scan(self, roots):
        """see every unit below the given roots, its roll and the profiles attached to it"""
        for r in roots:
            for u in self.units_below(r):
                self.see_unit(u)
                for a in ("in_profile", "out_profile"):
                    p = u.__dict__.get(a)
                    if p is not None:
                        self.see_profile(p)

    def hosts_below(self, u):
        """ids of the units below (and including) u and of their rolls: what a solve of u works on"""
        ids = set()
        for x in self.units_below(u):
            ids.add(id(x))
            r = x.__dict__.get("roll")
            if r is not None:
                ids.add(id(r))
        return ids

    def foreign(self, u):
        """(ids of units / rolls, ids of in- and out-profiles) that belong to known positions NOT below `u`.  Solving or
        editing `u` has to leave them alone ("never lets state leak between positions") - also when `u` or a unit below
        it REFERS to one of them (a pass that holds on to the roll of another pass): what belongs to another position
        is not `u`'s to rewrite"""
        below = {id(x) for x in self.units_below(u)}
        hosts, profs = set(), set()
        for what, o, _ in self.state.values():
            if what != "unit" or id(o) in below:
                continue
            hosts.add(id(o))
            r = o.__dict__.get("roll")
            if r is not None:
                hosts.add(id(r))
            for a in ("in_profile", "out_profile"):
                p = o.__dict__.get(a)
                if p is not None:
                    profs.add(id(p))
        return hosts, profs

    def check_positions(self):
        """no aliasing between positions: the hook hosts / lists a unit holds as ITS roll, in-profile, out-profile and
        sub-unit list (the library makes them for the unit) are held by no second unit, and their back-reference
        (`roll.roll_pass`, `profile.unit`, the list's owner) names the unit that holds them - whatever object the
        caller handed in when he built the unit (a roll template, the roll of another pass) or solved it (a caller
        profile, the out-profile of another unit)"""
        holder = {}
        for what, u, _ in list(self.state.values()):
            if what != "unit":
                continue
            for attr, nm, back, bnm in (("roll", "roll", "_roll_pass", "roll_pass"), ("in_profile", "profile", "_unit", "unit"),
                                        ("out_profile", "profile", "_unit", "unit"), ("_subunits", "sublist", "_owner", "owner")):
                x = u.__dict__.get(attr)
                if x is None or not hasattr(x, "__dict__"):
                    continue
                first = holder.setdefault(id(x), (u, attr))
                if first[0] is not u or first[1] != attr:
                    key = f"position-shares:{nm}"
                    if not any(k == key for k, _ in self.problems):
                        self.problems.append((key, f"the {type(first[0]).__name__} {getattr(first[0], 'label', '')!r} "
                                              f"({first[1]}) and the {type(u).__name__} {getattr(u, 'label', '')!r} ({attr}) "
                                              f"hold ONE {type(x).__name__} object: two positions share a mutable object"))
                r = x.__dict__.get(back)
                t = r() if isinstance(r, weakref.ref) else r
                if t is not None and t is not u:
                    key = f"backlink-foreign:{bnm}"
                    if not any(k == key for k, _ in self.problems):
                        self.problems.append((key, f"the {attr} of the {type(u).__name__} {getattr(u, 'label', '')!r} names "
                                              f"another position as its {bnm}: {type(t).__name__} {getattr(t, 'label', '')!r}"))

    # -- checks ---------------------------------------------------------------------------------
    def check(self, op, allowed, roots, allowed_hosts=frozenset()):
        """after an op: `allowed` = ids of the profile objects the op may legitimately rewrite, `allowed_hosts` = ids
        of the units / rolls it works on"""
        for what, o, s in self.inputs:
            if snap(o) != s:
                self.problems.append((f"input-modified:{what}:{op}", f"{what} passed in by the caller was modified by {op}: "
                                      + _diff(s, snap(o))))
        for p, s in self.returned:
            # a profile handed back to the caller belongs to the caller: no later op may change it, whatever it solves
            if snap(p) != s:
                self.problems.append((f"returned-profile-modified:{op}", f"a profile already returned to the caller was "
                                      f"modified by a later {op}: " + _diff(s, snap(p))))
        for pid, (p, s) in list(self.profiles.items()):
            if pid in allowed:
                continue
            s2 = snap(p)
            if s2 != s:
                if not any(p is r for r, _ in self.returned) and not any(p is o for _, o, _ in self.inputs):
                    self.problems.append((f"earlier-profile-modified:{op}", f"a profile outside the sub-tree being "
                                          f"solved/edited ({type(p).__name__}) was modified by {op}: " + _diff(s, s2)))
        for vid, (x, f, where) in self.values.items():
            if fp(x) != f:
                self.problems.append((f"value-mutated-in-place:{where.split('.')[-1]}:{op}",
                                      f"the {type(x).__name__} attached as {where} was modified in place by {op}: "
                                      f"{str(f)[:120]} -> {str(fp(x))[:120]}"))
        # "never lets state leak between positions": a unit (or the roll of a pass) that is not part of what is being
        # solved / edited keeps every explicit entry (identity and value) and every value it has evaluated already.
        # Its hook cache may GAIN entries: a neighbour reading one of its hooks (Transport.length from the passes'
        # locations, a rotator asking the next pass for its classifiers) evaluates it there - that is a read.
        for hid, (what, o, s) in self.state.items():
            if hid in allowed_hosts:
                continue
            s2 = snap(o)
            if s2 != s and not _only_cache_gain(s, s2):
                self.problems.append((f"position-state-modified:{what}:{op}", f"a {type(o).__name__} "
                                      f"{getattr(o, 'label', '') or ''!r} outside the sub-tree being solved/edited was "
                                      f"modified by {op}: " + _diff(s, s2)))
        self.rebase(roots)

    def rebase(self, roots):
        """new baseline (after an op was checked, or after the CALLER himself read values on the objects)"""
        self.scan(roots)
        self.check_caches()
        self.check_positions()
        for _, o, _s in self.inputs:
            self.see_values(o)
        for pid, (p, s) in list(self.profiles.items()):
            self.profiles[pid] = (p, snap(p))
        self.values = {k: (x, fp(x), w) for k, (x, f, w) in self.values.items()}
        self.returned = [(p, snap(p)) for p, _ in self.returned]
        self.inputs = [(w, o, snap(o)) for w, o, _ in self.inputs]
        self.state = {k: (w, o, snap(o)) for k, (w, o, _) in self.state.items()}

    def check_caches(self):
        """no aliasing: the store of evaluated values (`__cache__`) of an object passed in, of a unit, a roll or a
        profile is that object's own - two of them sharing one dict means that evaluating a value at one position
        (or on a template) writes it into the other"""
        owner = {}
        known = [(w, o) for w, o, _ in self.inputs] + [(w, o) for w, o, _ in self.state.values()] \
            + [(self.lib.kind(p), p) for p, _ in self.profiles.values()]
        for what, o in known:
            c = getattr(o, "__dict__", {}).get("__cache__")
            if not isinstance(c, dict):
                continue
            first = owner.setdefault(id(c), (what, o))
            if first[1] is not o:
                a, b = sorted([str(first[0]), str(what)])
                key = f"cache-shared:{a}+{b}"
                if not any(k == key for k, _ in self.problems):
                    self.problems.append((key, f"the {type(first[1]).__name__} ({first[0]}) and the {type(o).__name__} "
                                          f"({what}) share ONE hook value cache (entries: {sorted(c)[:8]})"))

    def reach(self, root):
        """every object reachable from root through attributes, containers and weak references"""
        seen = {}
        work = [root]
        while work:
            o = work.pop()
            refs = callable_refs(o)
            if refs is not None and id(o) not in seen:
                # a bound method / partial given as a value holds on to what it is bound to
                seen[id(o)] = o
                work.extend(refs)
                continue
            if id(o) in seen or is_atom(o):
                continue
            seen[id(o)] = o
            if isinstance(o, weakref.ref):
                t = o()
                if t is not None:
                    work.append(t)
                continue
            if isinstance(o, dict):
                work.extend(o.values())
                continue
            if isinstance(o, (list, tuple, set, frozenset)):
                work.extend(list(o))
            d = getattr(o, "__dict__", None)
            if isinstance(d, dict):
                work.extend(d.values())
        return seen

    def doubly_listed_part(self, ro):
        """ids of everything that belongs to a unit LISTED IN MORE THAN ONE SEQUENCE (the unit, its profiles, roll, sub-unit
        list, the units below it), among the objects `ro` (id -> object) reachable from what is being copied.  Such a unit has
        ONE parent link but two lists naming it (C13's known finding `adopt-unit-still-listed-elsewhere`); which of the two
        lists re-parents its copy last is an accident of the copy order, so "the back-reference points into the copy / is
        live in the copy" is not defined for back-references that lead into or out of this part - they are not judged"""
        count, unit_of = {}, {}
        for o in ro.values():
            if isinstance(o, list) and hasattr(o, "_owner"):
                for x in {id(x): x for x in o}.values():
                    count[id(x)] = count.get(id(x), 0) + 1
                    unit_of[id(x)] = x
        part = set()
        for i, n in count.items():
            if n > 1:
                part |= set(self.reach_struct(unit_of[i]))
        return part

    def check_copy(self, orig, cp, memo=None):
        pr = self.lib.pr
        ro, rc = self.reach(orig), self.reach(cp)
        dl = self.doubly_listed_part(ro)
        original_of = {id(memo[i]): i for i in ro if i in memo} if (dl and memo is not None) else {}

        def in_dl(x):
            return id(x) in dl or original_of.get(id(x)) in dl
        names = ((pr.Unit, "unit"), (pr.Profile, "profile"), (pr.Roll, "roll"))
        for i in set(ro) & set(rc):
            o = ro[i]
            for t, nm in names:
                if isinstance(o, t):
                    self.problems.append((f"deepcopy-shares:{nm}", f"the deep copy shares the {type(o).__name__} "
                                          f"{getattr(o, 'label', '')!r} with the original"))
            if isinstance(o, list) and hasattr(o, "_owner"):
                self.problems.append(("deepcopy-shares:sublist", "the deep copy shares a sub-unit list with the original"))
        # back-references inside the copy (strongly reachable part).  What is part of the copy only THROUGH a value that
        # holds on to a unit (a copied bound method / partial / callable object / container naming a unit that is not
        # below the copied one) belongs to the copy too; for such an object the objects this very deepcopy made ABOVE it
        # (the copy of its parent, kept alive by the memo) are not "outside".  For everything on the structural paths
        # (in/out-profile, roll, sub-unit lists and their items) the clause is unchanged
        struct = self.reach_struct(cp)
        strong = self.reach_strong(cp)
        inside = set(strong)
        created = {id(v) for k, v in memo.items() if k != id(memo)} if memo is not None else set()
        for o in strong.values():
            via_holder = id(o) not in struct
            for attr, nm in (("_parent", "parent"), ("_unit", "unit"), ("_roll_pass", "roll_pass"), ("_owner", "owner")):
                r = getattr(o, "__dict__", {}).get(attr)
                if isinstance(r, weakref.ref):
                    t = r()
                    if dl and t is not None and (in_dl(o) != in_dl(t)):
                        continue                # into / out of the part that is listed in two sequences: not judged
                    if t is not None and id(t) in ro and id(t) not in inside:
                        self.problems.append((f"deepcopy-backlink-outside:{nm}", f"{nm} back-reference of a copied "
                                              f"{type(o).__name__} points to the ORIGINAL {type(t).__name__}"))
                    elif t is not None and id(t) not in inside and o is not cp \
                            and not (via_holder and id(t) in created):
                        self.problems.append((f"deepcopy-backlink-outside:{nm}", f"{nm} back-reference of a copied "
                                              f"{type(o).__name__} points outside the copy"))
        return ro, rc

    def reach_struct(self, root):
        """the unit tree below `root` as the library builds it: units, their in/out-profiles and rolls (direct entries
        that are hook hosts), their sub-unit lists and the listed units - no other values are entered"""
        host = self.lib.pr.HookHost
        seen = {}
        work = [root]
        while work:
            o = work.pop()
            if id(o) in seen:
                continue
            if isinstance(o, list) and hasattr(o, "_owner"):
                seen[id(o)] = o
                work.extend(list(o))
            elif isinstance(o, host):
                seen[id(o)] = o
                work.extend(v for v in o.__dict__.values()
                            if isinstance(v, host) or (isinstance(v, list) and hasattr(v, "_owner")))
        return seen

    def reach_strong(self, root):
        seen = {}
        work = [root]
        while work:
            o = work.pop()
            refs = callable_refs(o)
            if refs is not None and id(o) not in seen:
                seen[id(o)] = o
                work.extend(refs)
                continue
            if id(o) in seen or is_atom(o) or isinstance(o, weakref.ref):
                continue
            seen[id(o)] = o
            if isinstance(o, dict):
                work.extend(o.values())
                continue
            if isinstance(o, (list, tuple, set, frozenset)):
                work.extend(list(o))
            d = getattr(o, "__dict__", None)
            if isinstance(d, dict):
                work.extend(d.values())
        return seen

    def check_copy_live(self, orig):
        """a deep copy WITHOUT an outer memo: every back-reference that is live in the original and points INTO the
        copied tree must be live in the copy (root copies only).  A back-reference of the original that leaves the tree
        being copied (a unit held by a callable value whose own sequence is another one: the unit it sits on is listed
        in two sequences) has its target copied by `HookHost.__deepcopy__`, but nothing holds that copy - the reference
        is dead afterwards, never into the original (notes O3)"""
        memo = {}
        cp = copy.deepcopy(orig, memo)
        tree = self.reach_strong(orig)
        original_of = {id(memo[i]): o for i, o in tree.items() if i in memo}
        ro = self.reach(orig)
        dl = self.doubly_listed_part(ro)
        orig_any = {id(memo[i]): ro[i] for i in ro if i in memo} if dl else {}
        memo.clear()
        del memo

        def in_dl(x):
            return id(x) in dl or id(orig_any.get(id(x))) in dl
        strong = self.reach_strong(cp)
        for o in strong.values():
            for attr, nm in (("_unit", "unit"), ("_roll_pass", "roll_pass"), ("_owner", "owner"), ("_parent", "parent")):
                r = getattr(o, "__dict__", {}).get(attr)
                if dl and isinstance(r, weakref.ref):
                    # a back-reference into / out of the part that is listed in two sequences is not judged (see
                    # `doubly_listed_part`); a dead one: judged by where it leads in the ORIGINAL
                    t = r()
                    if t is None:
                        src0 = orig_any.get(id(o))
                        r0 = src0.__dict__.get(attr) if src0 is not None else None
                        t0 = r0() if isinstance(r0, weakref.ref) else None
                        if src0 is not None and t0 is not None and ((id(src0) in dl) != (id(t0) in dl)):
                            continue
                    elif in_dl(o) != in_dl(t):
                        continue
                if isinstance(r, weakref.ref) and r() is None and o is not cp:
                    src = original_of.get(id(o))
                    if src is not None:
                        ro = src.__dict__.get(attr)
                        to = ro() if isinstance(ro, weakref.ref) else None
                        if to is None or id(to) not in tree:
                            continue            # dead / leaving the copied tree in the original already
                    self.problems.append((f"deepcopy-backlink-dead:{nm}", f"{nm} back-reference of a copied "
                                          f"{type(o).__name__} is dead after copy.deepcopy of a root sequence"))
                elif isinstance(r, weakref.ref) and r() is not None and id(r()) not in strong and o is not cp:
                    self.problems.append((f"deepcopy-backlink-outside:{nm}", f"{nm} back-reference of a copied "
                                          f"{type(o).__name__} points outside the copy"))


def _only_cache_gain(a, b):
    a, b = a.key, b.key
    if a[0] != "host" or b[0] != "host" or a[1] != b[1]:
        return False
    return all(k in b[2] and b[2][k] == v for k, v in a[2].items())


def _diff(a, b):
    a, b = a.key, b.key
    if a[0] != "host" or b[0] != "host":
        return f"{str(a)[:100]} -> {str(b)[:100]}"
    out = []
    for which, x, y in (("__dict__", a[1], b[1]), ("__cache__", a[2], b[2])):
        for k in sorted(set(x) | set(y)):
            if x.get(k) != y.get(k):
                if k not in x:
                    out.append(f"{which}[{k!r}] added")
                elif k not in y:
                    out.append(f"{which}[{k!r}] removed")
                elif x[k][1] != y[k][1]:
                    out.append(f"{which}[{k!r}] value {str(x[k][1])[:60]} -> {str(y[k][1])[:60]}")
                else:
                    out.append(f"{which}[{k!r}] replaced by another object")
    return "; ".join(out[:4])


# ---------------------------------------------------------------------------------------------------
# the real world
# ---------------------------------------------------------------------------------------------------
class World:
    """executes op tuples on real pyroll objects; records the model lines and what the model must print"""

    def __init__(self, with_model=True):
        self.lib = Lib()
        logging.getLogger("pyroll").setLevel(logging.ERROR)
        self.slots = []
        self.lines = []           # (model line, expected output or None)
        self.model_ok = with_model
        self.oracle = Oracle(self.lib)
        self.roots = []           # units without parent that the harness created (originals and copies)
        self.memos = []           # deep copy memos, kept alive
        self.hooked = []          # (hook, function) registered on throw-away classes
        self.failed_solve = False
        self.aborted = False      # a solve was stopped by the harness (SolveBudget)
        self.ops = []
        self.tpl_of = {}          # slot of a pass -> slot of the roll template it was built from
        self.model_cut = False
        self.converged = set()    # (unit slot, profile slot) of plain solves whose loops converged, since the last edit

    # -- plumbing -------------------------------------------------------------------------------
    def emit(self, line, expect):
        if self.model_ok:
            self.lines.append((line, expect))

    def reg(self, o):
        self.slots.append(o)
        return len(self.slots) - 1

    def find(self, o):
        for k, x in enumerate(self.slots):
            if x is o:
                return k
        return None

    def before(self):
        names = []
        for k, o in enumerate(self.slots):
            names.extend(names_of(self.lib, k, o))
        return [(n, o, snap(o)) for n, o in names]

    def written(self, pre):
        ns = [n for n, o, s in pre if snap(o) != s]
        return " ".join(ns) if ns else "-"

    def all_roots(self):
        return [u for u in self.slots if self.lib.kind(u) == "unit" and u.parent is None]

    def finish_op(self, name, allowed, hosts=frozenset()):
        self.oracle.check(name, allowed, self.all_roots(), hosts)
        self.emit("dump", dump(self.lib, self.slots))

    def cache_state(self):
        """(name, object, identity+value of the cache entries) of every named hook host"""
        res = []
        for k, o in enumerate(self.slots):
            for n, x in names_of(self.lib, k, o):
                c = getattr(x, "__dict__", {}).get("__cache__") if not isinstance(x, (set, dict, list)) else None
                if isinstance(c, dict):
                    res.append((n, x, {a: (id(v), fp(v)) for a, v in c.items()}, list(c.values())))
        return res

    def emit_look(self, pre):
        """tell the model on which named objects the caller's reading left cached values"""
        if not self.model_ok:
            return
        ns = []
        for n, x, c, _hold in pre:
            now = x.__dict__.get("__cache__") or {}
            if {a: (id(v), fp(v)) for a, v in now.items()} != c and n not in ns:
                ns.append(n)
        self.emit("look " + (",".join(ns) if ns else "-"), "ok")
        self.emit("dump", dump(self.lib, self.slots))

    def read(self, o, names):
        """what a caller does when he looks at an object: read attributes (dotted paths).  Reading evaluates hooks
        and fills hook caches; a value that is not available (yet) is the caller's problem, not a finding"""
        from driver import core
        for n in names:
            x = o
            try:
                for part in n.split("."):
                    x = getattr(x, part)
                    if x is None:
                        break
            except Exception as e:
                if not core._raised_in_impl(e) and not isinstance(e, AttributeError):
                    raise

    def subtree_profiles(self, u):
        ids = set()
        for x in self.oracle.units_below(u):
            for a in ("in_profile", "out_profile"):
                p = x.__dict__.get(a)
                if p is not None:
                    ids.add(id(p))
        return ids

    # -- construction ops -----------------------------------------------------------------------
    def op_profile(self, chain, extras, boxed=()):
        """`boxed`: [name, form] pairs - numeric entries of the incoming profile given as mutable numbers (`boxed_value`).
        The heap model has numbers as atoms: the MODEL side of such a history is off (oracle only)"""
        pr, np = self.lib.pr, _np()
        kw = dict(temperature=1200 + 273.15, strain=0, flow_stress=100e6, length=1)
        if boxed:
            self.model_ok = False
            for name, form in boxed:
                kw[name] = boxed_value(BOX_PROFILE[name], form)
        if "material" in extras:
            kw["material"] = ["C45", "steel"]
        if "chemical_composition" in extras:
            kw["chemical_composition"] = {"C": 0.0045, "Mn": 0.007}
        if "my_array" in extras:
            kw["my_array"] = np.array([1.0, 2.0, 3.0])
        if "my_tags" in extras:
            kw["my_tags"] = {"a", "b"}
        p = pr.Profile.round(diameter=55e-3 if chain == "3" else 30e-3, **kw)
        refs = public_refs(p)
        fields = []
        for code, v in refs:
            k = self.reg(v)
            self.emit(f"value {code}", "ok")
            fields.append(f"{code}:{k}")
        k = self.reg(p.__dict__["t"])
        self.emit("atom", "ok")
        fields.append(f"3:{k}")
        k = self.reg(p)
        self.emit("profile " + ",".join(fields), "ok")
        self.oracle.add_input("caller-profile", p)
        self.oracle.see_profile(p)
        return k

    def op_pass(self, chain, pos, rot, disks, gapj, like=None, look=(), via="template", box=()):
        """`rot`: bool (automatic rotation on/off) or an explicit angle; `like`: slot of an earlier pass from which the
        new one takes an object that already belongs to that position - `via` = "template": the Roll object the earlier
        pass was built from (one template for two passes), "roll": THE ROLL OF THE EARLIER PASS itself
        (`RollPass(roll=other_pass.roll, …)`, solved or not), "groove": a new Roll template on the groove object of the
        earlier pass' template (one groove object under two rolls); `look`: attributes the caller reads on the roll
        object BEFORE he hands it to the pass constructor.
        Building a pass is an operation of the library: the oracle's clauses apply to it (what was handed in and every
        other position unchanged, the new pass shares nothing with another position, back-references name the own pass).
        `box`: [name, form] pairs - numeric entries of a NEW roll template given as mutable numbers (model side off)"""
        pr = self.lib.pr
        tkw = dict(nominal_radius=160e-3, rotational_frequency=1)
        if box:
            self.model_ok = False
            for name, form in box:
                tkw[name] = boxed_value(BOX_ROLL[name], form)
        rotation = rot if isinstance(rot, bool) else float(rot)
        kw = {}
        if disks:
            kw["disk_element_count"] = disks
        cls = pr.ThreeRollPass if chain == "3" else pr.TwoRollPass
        src = self.slots[like] if like is not None else None
        if src is not None and via == "roll" and self.lib.tag(src) == 1 and src.__dict__.get("roll") is not None:
            r = src.__dict__["roll"]
            self.oracle.scan(self.all_roots())        # the position the roll belongs to is known BEFORE it is handed on
            if look:
                pre = self.cache_state() if self.model_ok else None
                self.read(r, look)
                self.oracle.rebase(self.all_roots())
                self.emit_look(pre)
            pre_c = self.before() if self.model_ok else None
            u = cls(label=f"pass{pos}", roll=r, gap=2e-3 * gapj, rotation=rotation, **kw)
            ku = self.reg(u)
            self.emit(f"passr {1 if rot else 0} {disks} {like}", self.written(pre_c) if self.model_ok else None)
            if like in self.tpl_of:
                self.tpl_of[ku] = self.tpl_of[like]
            self.finish_construct(u)
            return ku
        if src is not None and via == "groove" and like in self.tpl_of:
            g = self.slots[self.tpl_of[like]].groove
            kg = self.find(g)
            tpl = pr.Roll(groove=g, **tkw)
            if look:
                self.read(tpl, look)
            kt = self.reg(tpl)
            self.emit(f"template {kg}", "ok")
            if tpl.__dict__.get("__cache__"):
                self.emit(f"look {kt}", "ok")
            self.oracle.add_input("roll-template", tpl)
            self.oracle.scan(self.all_roots())
            pre_c = self.before() if self.model_ok else None
            u = cls(label=f"pass{pos}", roll=tpl, gap=2e-3 * gapj, rotation=rotation, **kw)
            ku = self.reg(u)
            self.emit(f"pass {1 if rot else 0} {disks} {kt}", self.written(pre_c) if self.model_ok else None)
            self.tpl_of[ku] = kt
            self.finish_construct(u)
            return ku
        if like is not None and like in self.tpl_of:
            kt = self.tpl_of[like]
            tpl = self.slots[kt]
            if look:
                pre = self.cache_state() if self.model_ok else None
                self.read(tpl, look)
                self.oracle.rebase(self.all_roots())
                self.emit_look(pre)
            self.oracle.scan(self.all_roots())
            pre_c = self.before() if self.model_ok else None
            u = cls(label=f"pass{pos}", roll=tpl, gap=2e-3 * gapj, rotation=rotation, **kw)
            ku = self.reg(u)
            self.emit(f"pass {1 if rot else 0} {disks} {kt}", self.written(pre_c) if self.model_ok else None)
            self.tpl_of[ku] = kt
            self.finish_construct(u)
            return ku
        if chain == "3":
            g = (pr.CircularOvalGroove(depth=8e-3, r1=6e-3, r2=40e-3, pad_angle=30) if pos % 2 == 0
                 else pr.RoundGroove(r1=3e-3, r2=25e-3, depth=11e-3, pad_angle=30))
        else:
            g = [lambda: pr.CircularOvalGroove(depth=8e-3, r1=6e-3, r2=40e-3),
                 lambda: pr.RoundGroove(r1=1e-3, r2=12.5e-3, depth=11.5e-3),
                 lambda: pr.CircularOvalGroove(depth=6e-3, r1=6e-3, r2=35e-3),
                 lambda: pr.RoundGroove(r1=1e-3, r2=10e-3, depth=9e-3)][pos % 4]()
        tpl = pr.Roll(groove=g, **tkw)
        if look:
            self.read(tpl, look)
        # what the caller hands to the constructor is an input from here on
        self.oracle.add_input("groove", g)
        self.oracle.add_input("roll-template", tpl)
        pre_c = self.before() if self.model_ok else None
        u = cls(label=f"pass{pos}", roll=tpl, gap=2e-3 * gapj, rotation=rotation, **kw)
        kv = self.reg(g._classifiers)
        self.emit("value 5", "ok")
        kg = self.reg(g)
        self.emit(f"groove {kv}", "ok")
        kt = self.reg(tpl)
        self.emit(f"template {kg}", "ok")
        if tpl.__dict__.get("__cache__"):
            self.emit(f"look {kt}", "ok")
        ku = self.reg(u)
        self.emit(f"pass {1 if rot else 0} {disks} {kt}", self.written(pre_c) if self.model_ok else None)
        self.tpl_of[ku] = kt
        self.finish_construct(u)            # (dump: the pass roll starts with an empty cache of its own)
        return ku

    def finish_construct(self, u):
        """a pass was built: nothing that existed may have changed - the roll object handed in, the position it belongs
        to, every other unit / roll / profile (`allowed_hosts` = the new pass and its roll, MINUS whatever belongs to
        another position) - and the new pass is a position of its own (`Oracle.check_positions`)"""
        hosts = {id(u)}
        r = u.__dict__.get("roll")
        if r is not None:
            hosts.add(id(r))
        hosts -= self.oracle.foreign(u)[0]
        self.oracle.check("construct", set(), self.all_roots(), hosts)
        self.emit("dump", dump(self.lib, self.slots))

    def op_transport(self, disks, sub, cooling):
        pr = self.lib.pr
        kw = {}
        if disks:
            kw["disk_element_count"] = disks
        if sub:
            out_cls = type("OutProfile", (pr.Transport.OutProfile,), {})
            cls = type("SubTransport", (pr.Transport,), {"OutProfile": out_cls})
        else:
            cls = pr.CoolingPipe if cooling else pr.Transport
        u = cls(label="transport", duration=1.0, **kw)
        k = self.reg(u)
        self.emit(f"transport {disks} 0", "ok")
        return k

    def op_rotator(self, angle):
        u = self.lib.pr.Rotator(label="rotator", rotation=angle, duration=0, length=0)
        k = self.reg(u)
        self.emit("rotator", "ok")
        return k

    def op_seq(self, us):
        listed = any(self.slots[k].parent is not None for k in us)
        s = self.lib.pr.PassSequence([self.slots[k] for k in us], label="seq")
        k = self.reg(s)
        self.converged.clear()
        self.emit("seq " + (",".join(map(str, us)) if us else "-"), "ok")
        if listed:
            # units that are listed in another sequence already (a second line laid over part of the first): the new
            # sequence takes over the parent link, the old one keeps listing them
            self.emit("dump", dump(self.lib, self.slots))
        # building the line is the caller's doing (the units get their parent): the oracle's baseline starts here
        self.oracle.rebase(self.all_roots())
        return k

    # -- actions --------------------------------------------------------------------------------
    def op_solve(self, ku, kp):
        u, p = self.slots[ku], self.slots[kp]
        pre = self.before() if self.model_ok else None
        allowed = self.subtree_profiles(u)
        hosts = self.oracle.hosts_below(u)
        err = None
        with capture_iters() as h:
            try:
                r = u.solve(p)
            except Exception as e:
                from driver import core
                if _is_budget(e):
                    self.aborted = True
                elif not core._raised_in_impl(e):
                    raise
                err = e
        if err is not None:
            # the solve raised inside pyroll (infeasible pass): the model cannot follow; the oracle still applies
            self.failed_solve = True
            self.model_ok = False
            fh, fp_ = self.oracle.foreign(u)
            self.oracle.check("failed-solve", (allowed | self.subtree_profiles(u)) - fp_, self.all_roots(),
                              (hosts | self.oracle.hosts_below(u)) - fh)
            return None
        if self.model_ok and any(c is None for c in h.counts):
            self.model_ok = False
        if self.model_ok and sum(h.counts) > MODEL_MAX_ITERATIONS:
            # a solution loop that does not converge (99 iterations of a pass, each solving its disk elements 99
            # times): the interpreted model needs minutes for it.  The model side of this history ends here (what
            # was compared so far stays compared); the oracle goes on
            self.model_ok = False
            self.model_cut = True
        k = self.reg(r)
        if all(c is not None for c in h.counts) and sum(h.counts) <= MODEL_MAX_ITERATIONS:
            self.converged.add((ku, kp))
        if self.model_ok:
            its = ",".join(str(c) for c in h.counts + [0])
            self.emit(f"solve {ku} {kp} {its}", f"{self.written(pre)} | left=1")
        self.oracle.add_returned(r)
        fh, fp_ = self.oracle.foreign(u)
        self.finish_op("solve", (allowed | self.subtree_profiles(u) | {id(r)}) - fp_,
                       (hosts | self.oracle.hosts_below(u)) - fh)
        return k

    def op_keep(self, ku):
        u = self.slots[ku]
        i, o = u.__dict__.get("in_profile"), u.__dict__.get("out_profile")
        if i is None or o is None:
            self.emit(f"keep {ku}", "none")
            return
        self.reg(i)
        self.reg(o)
        self.emit(f"keep {ku}", "ok")
        self.emit("dump", dump(self.lib, self.slots))

    def op_deepcopy(self, ku):
        u = self.slots[ku]
        pre = self.before() if self.model_ok else None
        memo = {}
        c = copy.deepcopy(u, memo)
        self.memos.append(memo)
        tree = self.oracle.units_below(c)
        for x in tree:
            self.reg(x)
        if self.model_ok:
            self.emit(f"deepcopy {ku}", f"{self.written(pre)} | new={len(tree)}")
        self.oracle.check_copy(u, c, memo)
        if u.parent is None:
            self.oracle.check_copy_live(u)
        self.finish_op("deepcopy", set())
        return self.find(c)

    def op_append(self, kq, ku):
        q, u = self.slots[kq], self.slots[ku]
        pre = self.before() if self.model_ok else None
        q.append(u)
        self.converged.clear()
        if self.model_ok:
            self.emit(f"append {kq} {ku}", self.written(pre))
        self.finish_op("append", set(), {id(q), id(u)})

    def op_replace(self, kq, i, ku):
        q, u = self.slots[kq], self.slots[ku]
        pre = self.before() if self.model_ok else None
        old = q._subunits[i]
        q._subunits[i] = u
        self.converged.clear()
        if self.model_ok:
            self.emit(f"replace {kq} {i} {ku}", self.written(pre))
        self.finish_op("replace", set(), {id(q), id(u), id(old)})

    def op_gap(self, ku, j):
        u = self.slots[ku]
        pre = self.before() if self.model_ok else None
        u.gap = 2e-3 * j
        self.converged.clear()
        if self.model_ok:
            self.emit(f"gap {ku}", self.written(pre))
        self.finish_op("gap", set(), {id(u)})

    def op_bind(self, ku, attr, how, kt):
        """the caller gives unit `ku` an explicit value that holds on to unit `kt` of the same line: a CALLABLE (a bound
        method of that unit, a functools.partial with it as argument, a callable object keeping it) or a plain container
        (list / dict) naming it"""
        u, t = self.slots[ku], self.slots[kt]
        pre = self.before() if self.model_ok else None
        if how == "method":
            v = types.MethodType(pace_of, t)
        elif how == "partial":
            v = functools.partial(pace_like, t)
        elif how == "object":
            v = PaceFrom(t)
        elif how == "list":
            v = [t]                       # a plain container naming a unit of the line (`follows=[first_pass]`)
        else:
            v = {"leader": t}
        setattr(u, attr, v)
        if self.model_ok:
            self.emit(f"bind {ku} {BOUND_FIELD[attr]} {kt}", self.written(pre))
        self.finish_op("bind", set(), {id(u)})

    def op_solvev(self, ku, kp, which, speed, area):
        """`seq.solve_velocities_forward(profile, initial_speed)` / `seq.solve_velocities_backward(profile, final_speed,
        final_cross_section_area)`: solve entry points of a sequence that take the caller's profile; nothing returned"""
        u, p = self.slots[ku], self.slots[kp]
        pre = self.before() if self.model_ok else None
        allowed = self.subtree_profiles(u)
        hosts = self.oracle.hosts_below(u)
        name = "solve_velocities_" + which
        err = None
        with capture_iters() as h:
            try:
                if which == "forward":
                    u.solve_velocities_forward(p, speed)
                else:
                    u.solve_velocities_backward(p, speed, area)
            except Exception as e:
                from driver import core
                if _is_budget(e):
                    self.aborted = True
                elif not core._raised_in_impl(e):
                    raise
                err = e
        if err is not None:
            self.failed_solve = True
            self.model_ok = False
            fh, fp_ = self.oracle.foreign(u)
            self.oracle.check("failed-" + name, (allowed | self.subtree_profiles(u)) - fp_, self.all_roots(),
                              (hosts | self.oracle.hosts_below(u)) - fh)
            return None
        if self.model_ok and (any(c is None for c in h.counts) or h.stack):
            self.model_ok = False
        if self.model_ok and sum(h.counts) > MODEL_MAX_ITERATIONS:
            self.model_ok = False
            self.model_cut = True
        if self.model_ok:
            its = ",".join(str(c) for c in h.counts + [0])
            self.emit(f"solvev {ku} {kp} {h.tops} {its}", f"{self.written(pre)} | left=1")
        fh, fp_ = self.oracle.foreign(u)
        self.finish_op(name, (allowed | self.subtree_profiles(u)) - fp_, (hosts | self.oracle.hosts_below(u)) - fh)
        return True

    def op_inspect(self, k, names):
        """the caller reads values on an object he holds (a profile, a roll template, a unit): not an operation of
        the library - nothing is checked, the baseline of the oracle is taken anew afterwards"""
        pre = self.cache_state() if self.model_ok else None
        self.read(self.slots[k], names)
        self.oracle.rebase(self.all_roots())
        self.emit_look(pre)

    def op_hook(self, ku):
        """register a classifier producer on the throw-away OutProfile class of a SubTransport"""
        u = self.slots[ku]
        hook = type(u).OutProfile.classifiers

        def cooled(self_):
            return set(self_.unit.in_profile.classifiers) | {"cooled"}
        hf = hook.add_function(cooled)
        self.hooked.append((hook, hf))
        for k, x in enumerate(self.slots):          # the unit and every deep copy of it (same class)
            if type(x) is type(u):
                self.emit(f"ovr {k}", "ok")

    def close(self):
        for hook, hf in self.hooked:
            hook.remove_function(hf)
        self.hooked = []

    def apply(self, op):
        self.ops.append(op)
        self.oracle.nops = len(self.ops)
        n = op[0]
        return getattr(self, "op_" + n)(*op[1:])


# ---------------------------------------------------------------------------------------------------
# generation (interleaved with execution: the generator sees the real structure)
# ---------------------------------------------------------------------------------------------------
# what a caller typically looks at (print-out, plot) - on a roll template before he builds a pass from it, on a
# profile before he hands it to solve, on a unit / its roll / its profiles before and after solving
LOOK_TEMPLATE = ["working_radius", "contour_line", "width", "max_radius", "min_radius", "contour_points",
                 "surface_velocity", "working_velocity", "nominal_diameter"]
LOOK_PROFILE = ["height", "width", "equivalent_radius", "equivalent_rectangle", "cross_section", "classifiers",
                "equivalent_height", "length", "material"]
LOOK_UNIT = {1: ["roll.working_radius", "roll.contour_line", "roll.min_radius", "roll.contact_area", "roll.contact_length",
                 "roll.roll_power", "roll.working_velocity", "height", "usable_width", "classifiers", "contour_lines",
                 "usable_cross_section", "velocity", "volume", "out_profile.height", "out_profile.width",
                 "in_profile.equivalent_radius", "out_profile.filling_ratio", "rotation"],
             2: ["length", "duration", "velocity", "out_profile.height", "in_profile.width", "out_profile.classifiers"],
             3: ["length", "duration", "out_profile.height", "in_profile.width", "volume"],
             4: ["rotation", "out_profile.width", "out_profile.classifiers", "in_profile.height", "duration"]}


# how a pass takes over an object of an earlier pass (see World.op_pass)
VIA = ["template", "template", "roll", "roll", "groove"]


def some(rng, pool, hi=3):
    return rng.sample(pool, rng.randrange(1, min(hi, len(pool)) + 1))


def pass_rotation(rng, chain, pos, acc, infeasible):
    """`rotation=` of the next pass: the explicit rotators since the last pass turned the profile by `acc` degrees;
    the pass adds what is missing for the profile to enter in working position - `False`, `True` (automatic: the hook
    functions of `Rotator.rotation` decide) or an explicit angle (also where `True` would give the same)"""
    mod, need, auto = (120, 60, 180) if chain == "3" else (180, 90, 90)
    if pos == 0:
        # the caller's round profile: any position will do
        r = rng.random()
        return False if r < 0.4 else True if r < 0.8 else rng.choice([mod, auto, 45])
    residual = (need - acc) % mod
    if residual == 0:
        rot = False if rng.random() < 0.75 else mod
    elif residual == auto % mod:
        rot = True if rng.random() < 0.7 else rng.choice([auto, residual])
    else:
        rot = residual
    if infeasible and rng.random() < 0.7:
        rot = not rot
    return rot


def gen_boxes(rng, table, p):
    """which numeric entries are given as mutable numbers, and in which form"""
    return [[n, rng.choice(BOX_FORMS)] for n in table if rng.random() < p]


def gen_history(rng, w, n_actions, infeasible, mut=False):
    """`mut`: the stream "values given as MUTABLE objects where immutable scalars are usual" - numeric entries of the
    incoming profiles (at least one per profile) and of newly built roll templates are numpy arrays (0-d, 1-d, a view
    into a series); everything else as in the main stream.  All additional draws are guarded by `mut`, so the main
    stream is the same with and without it"""
    lib = w.lib
    chain = "3" if rng.random() < 0.12 else "A"
    extras_pool = ["material", "chemical_composition", "my_array", "my_tags"]
    profs = []
    for _ in range(1 if rng.random() < 0.6 else 2):
        extras = [e for e in extras_pool if rng.random() < 0.5]
        if mut:
            boxed = gen_boxes(rng, BOX_PROFILE, 0.5) or [[rng.choice(sorted(BOX_PROFILE)), rng.choice(BOX_FORMS)]]
            profs.append(w.apply(("profile", chain, extras, boxed)))
        else:
            profs.append(w.apply(("profile", chain, extras)))

    def tbox():
        return (gen_boxes(rng, BOX_ROLL, 0.5),) if mut and rng.random() < 0.5 else ()
    # units in rolling order; between two passes the profile is turned by explicit rotators (0-2, any angle, transports
    # in between) and / or by the rotation of the following pass
    n_units = rng.randrange(1, 7)
    units = []
    pos = 0
    acc, nrot = 0, 0
    max_pass = 2 if chain == "3" else 4
    angles = [120, 180, 60] if chain == "3" else [45, 90, 180]
    subs = []
    pass_at = {}
    while len(units) < n_units:
        r = rng.random()
        if r < 0.5 and pos < max_pass:
            rot = pass_rotation(rng, chain, pos, acc, infeasible)
            # an object of an earlier position handed to this one: the same Roll template two passes later, the ROLL OF
            # THAT PASS itself, or a new template on the same groove object
            like = pass_at.get(pos - 2) if rng.random() < 0.3 else None
            via = rng.choice(VIA) if like is not None else "template"
            look = some(rng, LOOK_TEMPLATE) if rng.random() < 0.3 else []
            k = w.apply(("pass", chain, pos, rot, rng.choice([0, 0, 1, 2]), rng.choice([1.0, 0.9, 1.1]), like, look, via)
                        + tbox())
            units.append(k)
            pass_at[pos] = k
            pos += 1
            acc, nrot = 0, 0
        elif r < 0.8:
            sub = rng.random() < 0.35
            k = w.apply(("transport", rng.choice([0, 0, 1, 2]), sub, (not sub) and rng.random() < 0.3))
            units.append(k)
            if sub:
                subs.append(k)
        elif pos < max_pass and nrot < 2:
            a = rng.choice(angles)
            units.append(w.apply(("rotator", a)))
            acc += a
            nrot += 1
        else:
            units.append(w.apply(("transport", 0, False, False)))
    # optional nesting of a contiguous range
    top = list(units)
    nested = None
    if len(units) >= 2 and rng.random() < 0.45:
        a = rng.randrange(0, len(units) - 1)
        b = rng.randrange(a + 1, len(units) + 1)
        nested = w.apply(("seq", units[a:b]))
        top = units[:a] + [nested] + units[b:]
    root = w.apply(("seq", top))
    seqs = [root] + ([nested] if nested is not None else [])
    solved = False
    copies = []
    returned = []
    kept_out = []
    if rng.random() < 0.25:
        # values read on the objects BEFORE they are handed to solve
        w.apply(("inspect", rng.choice(profs), some(rng, LOOK_PROFILE)))

    def bind_somewhere(q):
        """an explicit value of a unit below sequence `q` := a callable that holds on to a unit of the same line (itself,
        a neighbour, an earlier or later position, the nested or the whole sequence)"""
        below = [(w.find(u), lib.tag(u)) for u in w.oracle.units_below(w.slots[q]) if lib.tag(u) in (1, 2, 3, 4)]
        below = [b for b in below if b[0] is not None]
        hosts = [b for b in below if b[1] != 3]
        if not hosts or not below:
            return
        kh, th = rng.choice(hosts)
        kt, _ = rng.choice(below)
        how = rng.choice(["method", "method", "partial", "partial", "object", "object", "list", "dict"])
        attr = "duration" if th == 2 and how in ("method", "partial", "object") and rng.random() < 0.7 else "pacing"
        w.apply(("bind", kh, attr, how, kt))

    if rng.random() < 0.3:
        for _ in range(rng.randrange(1, 3)):
            bind_somewhere(root)
    for _ in range(n_actions):
        r = rng.random()
        all_roots = [root] + copies
        if not solved:
            # the first action solves: mostly `solve`, sometimes a velocity solver on the fresh objects
            fresh_v = r < 0.12 and not infeasible and any(lib.tag(u) == 1 for u in w.slots[root]._subunits)
            r = 0.45 if fresh_v else 0.0
        if r < 0.24:
            tgt = rng.choice(all_roots)
            src = rng.choice(profs + (returned[-2:] if rng.random() < 0.3 else []))
            k = w.apply(("solve", tgt, src))
            if k is None:
                break
            returned.append(k)
            solved = True
        elif r < 0.34:
            # solve ONE unit (a later position) with what its predecessor handed over, or with a caller profile
            q = w.slots[rng.choice(all_roots)]
            lst = list(q._subunits)
            if not lst:
                continue
            i = rng.randrange(len(lst))
            u = lst[i]
            ku = w.find(u)
            if ku is None:
                continue
            if i > 0 and lst[i - 1].out_profile is not None and rng.random() < 0.7:
                # a profile object that BELONGS to the neighbouring position handed in as it is: the predecessor's live
                # out-profile (what the sequence hands over is a public copy of it), now and then its in-profile
                w.apply(("keep", w.find(lst[i - 1])))
                src = len(w.slots) - (1 if rng.random() < 0.8 else 2)
            else:
                src = rng.choice(profs)
            k = w.apply(("solve", ku, src))
            if k is None:
                break
            returned.append(k)
        elif r < 0.40:
            # the caller walks through a sequence himself: every unit solved on its own with the profile its
            # predecessor returned (what `_solve_subunits` does, but every hand-over passes through the caller's hands)
            q = w.slots[rng.choice(all_roots)]
            src = rng.choice(profs) if rng.random() < 0.75 or not returned else returned[-1]
            failed = False
            for u in list(q._subunits):
                ku = w.find(u)
                if ku is None:
                    break
                k = w.apply(("solve", ku, src))
                if k is None:
                    failed = True
                    break
                returned.append(k)
                src = k
            if failed:
                break
        elif r < 0.47:
            # the other solve entry points of a sequence: the velocity solvers (forward from an initial speed, backward
            # from a final speed and area), on any sequence that lists a roll pass directly - whatever its first unit is -
            # with a caller profile or a returned one (also one that went through a solve before)
            # A pass that does not converge (99 x 99 disk element solves) is solved again in every round of the velocity
            # loop - minutes.  So: a (sequence, profile) pair that a plain solve of this history has shown to converge
            # (no edit since), or - the velocity solver as the FIRST solve of fresh objects - the whole line with a
            # caller profile it was laid out for
            def lists_pass(k):
                return any(lib.tag(u) == 1 for u in w.slots[k]._subunits)
            pairs = sorted(pr_ for pr_ in w.converged if lib.tag(w.slots[pr_[0]]) == 3 and lists_pass(pr_[0]))
            if not solved and not infeasible and lists_pass(root):
                pairs = [(root, p_) for p_ in profs]
            if not pairs or w.model_cut:
                continue
            tgt, src = rng.choice(pairs)
            if rng.random() < 0.55:
                k = w.apply(("solvev", tgt, src, "forward", rng.choice([0.5, 1.0, 2.0]), 0.0))
            else:
                k = w.apply(("solvev", tgt, src, "backward", rng.choice([1.0, 2.0, 4.0]), rng.choice([2e-4, 4e-4])))
            if k is None:
                break
            solved = True
        elif r < 0.54:
            q = w.slots[rng.choice(all_roots)]
            cand = [w.find(u) for u in w.oracle.units_below(q) if u.__dict__.get("out_profile") is not None]
            cand = [c for c in cand if c is not None]
            if cand:
                w.apply(("keep", rng.choice(cand)))
        elif r < 0.64:
            tgt = rng.choice(all_roots + ([nested] if nested is not None and rng.random() < 0.4 else []))
            c = w.apply(("deepcopy", tgt))
            if c is not None and w.slots[c].parent is None and tgt != nested:
                copies.append(c)
        elif r < 0.67:
            # units that are listed in one sequence handed to a second one: another line laid over a leading part of an
            # existing one (the new sequence takes the parent links, the old one keeps listing the units)
            # NOT generated at random any more (session 4): a unit listed in two sequences is the state of C13's known finding
            # `adopt-unit-still-listed-elsewhere`; the deep-copy closure clauses are not defined on such a graph (a callable that
            # holds a unit of the first line drags that line into the copy of the second: thorough seed 5 raised
            # `deepcopy-backlink-outside:parent` / `deepcopy-backlink-dead:parent` on the unchanged tree - a false alarm of the
            # clause, not a defect).  The three corpus histories of this class still run.
            continue
        elif r < 0.74:
            q = rng.choice(all_roots)
            k = w.apply(("transport", rng.choice([0, 1]), False, False))
            w.apply(("append", q, k))
        elif r < 0.83:
            q = rng.choice(all_roots)
            lst = list(w.slots[q]._subunits)
            idx = [i for i, u in enumerate(lst) if lib.tag(u) in (1, 2)]
            if not idx:
                continue
            i = rng.choice(idx)
            old = lst[i]
            if lib.tag(old) == 2:
                k = w.apply(("transport", rng.choice([0, 1, 2]), False, rng.random() < 0.3))
            else:
                p = int(old.label[4:]) if old.label.startswith("pass") else 0
                rot = old.rotation
                rot = rot if isinstance(rot, bool) else int(rot)
                ko = w.find(old)
                # "same roll, other gap": the replacement is built from an object of the pass it replaces - its template,
                # ITS ROLL (of a solved pass, also of a pass in a deep copy), a new template on its groove
                like, via = None, "template"
                if ko is not None and ko in w.tpl_of and rng.random() < 0.55:
                    like, via = ko, rng.choice(VIA)
                elif ko is not None and ko not in w.tpl_of and rng.random() < 0.4:
                    like, via = ko, "roll"
                look = some(rng, LOOK_TEMPLATE) if rng.random() < 0.3 else []
                k = w.apply(("pass", chain, p, rot, rng.choice([0, 1]), rng.choice([0.8, 1.2]), like, look, via) + tbox())
            w.apply(("replace", q, i, k))
        elif r < 0.88:
            q = w.slots[rng.choice(all_roots)]
            ps = [w.find(u) for u in w.oracle.units_below(q) if lib.tag(u) == 1]
            ps = [p for p in ps if p is not None]
            if ps:
                w.apply(("gap", rng.choice(ps), rng.choice([0.8, 0.9, 1.1, 1.2])))
        elif r < 0.91:
            bind_somewhere(rng.choice(all_roots))
        elif r < 0.96:
            # the caller looks at something he holds
            what = rng.choice(["profile", "template", "unit", "unit"])
            if what == "profile":
                w.apply(("inspect", rng.choice(profs + returned[-2:]), some(rng, LOOK_PROFILE)))
            elif what == "template" and w.tpl_of:
                w.apply(("inspect", rng.choice(sorted(set(w.tpl_of.values()))), some(rng, LOOK_TEMPLATE)))
            else:
                q = w.slots[rng.choice(all_roots)]
                cand = [(w.find(u), lib.tag(u)) for u in w.oracle.units_below(q) if lib.tag(u) in LOOK_UNIT]
                cand = [c for c in cand if c[0] is not None]
                if cand:
                    k, t = rng.choice(cand)
                    w.apply(("inspect", k, some(rng, LOOK_UNIT[t])))
        else:
            cand = [k for k in subs if not any(h is type(w.slots[k]).OutProfile.classifiers for h, _ in w.hooked)]
            if cand:
                w.apply(("hook", rng.choice(cand)))
    return w.ops


def nontrivial(ops):
    names = [o[0] for o in ops]
    solves = [i for i, n in enumerate(names) if n in ("solve", "solvev")]
    if not solves:
        return False
    first = solves[0]
    return any(n in ("solve", "solvev", "deepcopy", "append", "replace", "gap", "hook", "bind") for n in names[first + 1:])


# symbolic histories: (label or None, op); "$x" refers to the slot an earlier labelled op returned
# (profile -> the profile, pass/transport/rotator/seq -> the unit, solve -> the returned profile,
#  keep -> the kept OUT-profile, deepcopy -> the root of the copy)
CORPUS = [
    # flat sequence, solve twice with the same caller profile, keep, deep copy, solve the copy, change a gap
    [("p", ("profile", "A", ["material", "my_tags"])), ("a", ("pass", "A", 0, True, 0, 1.0)),
     ("t", ("transport", 0, False, False)), ("b", ("pass", "A", 1, True, 2, 1.0)), ("s", ("seq", ["$a", "$t", "$b"])),
     ("r1", ("solve", "$s", "$p")), (None, ("keep", "$b")), ("r2", ("solve", "$s", "$p")), ("c", ("deepcopy", "$s")),
     (None, ("solve", "$c", "$p")), (None, ("gap", "$a", 0.9)), (None, ("solve", "$s", "$r1"))],
    # nested sequence with an explicit rotator, disk elements in the transport, hook on a throw-away class
    [("p", ("profile", "A", ["chemical_composition", "my_array"])), ("a", ("pass", "A", 0, False, 1, 1.0)),
     ("t", ("transport", 2, True, False)), ("r", ("rotator", 90)), ("b", ("pass", "A", 1, False, 0, 1.0)),
     ("n", ("seq", ["$t", "$r"])), ("s", ("seq", ["$a", "$n", "$b"])), (None, ("solve", "$s", "$p")),
     (None, ("hook", "$t")), (None, ("solve", "$s", "$p")), (None, ("deepcopy", "$n")), (None, ("deepcopy", "$s"))],
    # one unit solved alone with the kept out-profile of its predecessor; append and replace afterwards
    [("p", ("profile", "A", [])), ("q", ("profile", "A", ["material"])), ("a", ("pass", "A", 0, True, 0, 1.0)),
     ("b", ("pass", "A", 1, True, 0, 1.0)), ("s", ("seq", ["$a", "$b"])), (None, ("solve", "$s", "$p")),
     ("k", ("keep", "$a")), (None, ("solve", "$b", "$k")), ("t", ("transport", 1, False, False)),
     (None, ("append", "$s", "$t")), (None, ("solve", "$s", "$q")), ("b2", ("pass", "A", 1, True, 1, 1.2)),
     (None, ("replace", "$s", 1, "$b2")), (None, ("solve", "$s", "$p"))],
    # hooked transport in a nested sequence, appends between re-solves (a run in which a re-used out-profile is
    # re-assigned value-equal entries: the snapshots must hold the old values, see Snap)
    [("p", ("profile", "A", ["chemical_composition", "my_tags"])), ("t1", ("transport", 0, True, False)),
     ("t2", ("transport", 2, False, False)), ("t3", ("transport", 2, False, True)), ("a", ("pass", "A", 0, True, 0, 0.9)),
     ("n", ("seq", ["$t1", "$t2"])), ("s", ("seq", ["$n", "$t3", "$a"])), (None, ("solve", "$s", "$p")),
     ("t4", ("transport", 0, False, False)), (None, ("append", "$s", "$t4")), (None, ("solve", "$s", "$p")),
     ("t5", ("transport", 1, False, False)), (None, ("append", "$s", "$t5")), (None, ("solve", "$s", "$p")),
     (None, ("hook", "$t1")), (None, ("gap", "$a", 0.9)), (None, ("solve", "$s", "$p"))],
    # two rotations in a row (explicit rotators of different angles, a transport in between, then a pass with an
    # explicit angle); the caller walks through the sequence himself, then hands a returned (already "rotated") profile
    # to the whole sequence again
    [("p", ("profile", "A", ["my_tags"])), ("a", ("pass", "A", 0, True, 0, 1.0)), ("r1", ("rotator", 90)),
     ("t", ("transport", 0, False, False)), ("r2", ("rotator", 180)), ("b", ("pass", "A", 1, 180, 0, 1.0)),
     ("r3", ("rotator", 45)), ("s", ("seq", ["$a", "$r1", "$t", "$r2", "$b", "$r3"])), ("x0", ("solve", "$s", "$p")),
     ("x1", ("solve", "$a", "$p")), ("x2", ("solve", "$r1", "$x1")), ("x3", ("solve", "$t", "$x2")),
     ("x4", ("solve", "$r2", "$x3")), ("x5", ("solve", "$b", "$x4")), ("x6", ("solve", "$r3", "$x5")),
     (None, ("solve", "$s", "$p")), (None, ("solve", "$a", "$x6"))],
    # a roll template the caller looked at before use, the same Roll object used for two passes; values read on the
    # caller's profile, on a pass and on its roll between the solves
    [("p", ("profile", "A", ["material"])), (None, ("inspect", "$p", ["height", "equivalent_radius"])),
     ("a", ("pass", "A", 0, False, 0, 1.0, None, ["working_radius", "contour_line"])),
     ("t", ("transport", 1, False, False)), ("b", ("pass", "A", 1, True, 0, 1.0)),
     ("c", ("pass", "A", 2, True, 0, 0.5, "$a", ["width"])), ("s", ("seq", ["$a", "$t", "$b", "$c"])),
     (None, ("solve", "$s", "$p")), (None, ("inspect", "$a", ["roll.contact_area", "roll.roll_power", "height"])),
     (None, ("solve", "$c", "$p")), ("k", ("keep", "$b")), (None, ("solve", "$c", "$k")), (None, ("solve", "$s", "$p")),
     ("a2", ("pass", "A", 0, False, 1, 1.2, "$a", [])), (None, ("replace", "$s", 0, "$a2")), (None, ("solve", "$s", "$p"))],
    # three-roll chain with a cooling pipe
    [("p", ("profile", "3", ["my_tags"])), ("a", ("pass", "3", 0, True, 0, 1.0)), ("t", ("transport", 0, False, True)),
     ("b", ("pass", "3", 1, True, 0, 1.0)), ("s", ("seq", ["$a", "$t", "$b"])), ("r", ("solve", "$s", "$p")),
     ("c", ("deepcopy", "$s")), (None, ("solve", "$s", "$r"))],
    # the re-used out-profiles and the caller profile of the CURRENT solve (the history of the Lean examples `exL2` /
    # `exW`, PyrollProps/C12.lean section 6): a sequence and a lone transport solved with a profile that has a material
    # list and a tag set, then with one that has another material list and no tag set, then with the first again.
    # Form `keep` of `init_solve` (no else branch): the first profile's entries stay in every out-profile; form
    # `handOver`: the current profile's entries replace them, the tag set goes and comes back.  The model follows
    # whichever form the translator read (`Gen.C12.outReuse`), the aliasing graphs are compared after every solve
    [("p", ("profile", "A", ["material", "my_tags"])), ("q", ("profile", "A", ["material"])),
     ("a", ("pass", "A", 0, True, 0, 1.0)), ("t", ("transport", 1, False, False)), ("s", ("seq", ["$a", "$t"])),
     ("l", ("transport", 0, False, False)), ("ls", ("seq", ["$l"])),
     (None, ("solve", "$s", "$p")), (None, ("keep", "$t")), (None, ("solve", "$s", "$q")), (None, ("keep", "$a")),
     (None, ("solve", "$s", "$p")), (None, ("solve", "$ls", "$p")), (None, ("solve", "$l", "$q")),
     (None, ("solve", "$ls", "$p")), (None, ("solve", "$t", "$q"))],
    # the velocity solvers as solve entry points: a line that starts with a transport (roller table ahead of the first
    # stand) and a nested one that starts with a rotator; forward and backward, the SAME caller profile used for a second
    # run with another speed, a returned profile handed in, a plain solve in between
    [("p", ("profile", "A", ["material"])), ("t0", ("transport", 0, False, False)), ("a", ("pass", "A", 0, True, 0, 1.0)),
     ("t", ("transport", 1, False, False)), ("r", ("rotator", 90)), ("b", ("pass", "A", 1, False, 0, 1.0)),
     ("n", ("seq", ["$r", "$b"])), ("s", ("seq", ["$t0", "$a", "$t", "$n"])),
     (None, ("solvev", "$s", "$p", "forward", 1.0, 0.0)), (None, ("solvev", "$s", "$p", "forward", 2.0, 0.0)),
     ("x", ("solve", "$s", "$p")), (None, ("solvev", "$s", "$p", "backward", 2.0, 4e-4)),
     (None, ("solvev", "$n", "$p", "forward", 1.0, 0.0)), ("c", ("deepcopy", "$s")),
     (None, ("solvev", "$c", "$x", "forward", 0.5, 0.0)), (None, ("solve", "$s", "$p"))],
    # explicit values that are callables holding on to another unit of the line (bound method, functools.partial,
    # callable object; bound to an earlier / a later position, to the nested sequence), deep copies of the whole line and
    # of the nested part, edits and solves of original and copy afterwards
    [("p", ("profile", "A", ["my_tags"])), ("a", ("pass", "A", 0, True, 0, 1.0)), ("t", ("transport", 1, False, False)),
     ("b", ("pass", "A", 1, True, 0, 1.0)), ("t2", ("transport", 0, False, True)), ("n", ("seq", ["$b", "$t2"])),
     ("s", ("seq", ["$a", "$t", "$n"])), (None, ("bind", "$t", "duration", "method", "$a")),
     (None, ("bind", "$b", "pacing", "partial", "$a")), (None, ("bind", "$a", "pacing", "object", "$n")),
     (None, ("solve", "$s", "$p")), ("c", ("deepcopy", "$s")), (None, ("gap", "$a", 0.9)), (None, ("solve", "$s", "$p")),
     (None, ("solve", "$c", "$p")), (None, ("deepcopy", "$n")), (None, ("bind", "$t2", "duration", "object", "$t")),
     (None, ("deepcopy", "$c")), (None, ("bind", "$b", "pacing", "list", "$t2")), (None, ("deepcopy", "$s")),
     (None, ("solvev", "$s", "$p", "backward", 2.0, 4e-4))],
    # an object that belongs to one position handed to a second one: a pass built from THE ROLL OF ANOTHER PASS - of a
    # pass not solved yet (two positions of one sequence), of a solved pass (the replacement "same roll, other gap"; the
    # caller has looked at that roll), of a pass of a deep copy -, a new Roll template on the groove object of another
    # pass; the replaced pass solved on its own afterwards; the neighbour's live in-profile handed to a unit
    [("p", ("profile", "A", ["material"])), ("a", ("pass", "A", 0, True, 0, 1.0)), ("t", ("transport", 1, False, False)),
     ("b", ("pass", "A", 1, True, 0, 1.0)), ("c", ("pass", "A", 2, True, 0, 0.5, "$a", [], "roll")),
     ("s", ("seq", ["$a", "$t", "$b", "$c"])), (None, ("solve", "$s", "$p")),
     (None, ("inspect", "$a", ["roll.contact_area", "roll.roll_power"])),
     ("a2", ("pass", "A", 0, True, 1, 1.2, "$a", ["working_radius"], "roll")), (None, ("replace", "$s", 0, "$a2")),
     (None, ("solve", "$s", "$p")), (None, ("solve", "$a", "$p")), (None, ("solve", "$c", "$p")),
     ("d", ("pass", "A", 1, True, 0, 1.1, "$b", ["width"], "groove")), (None, ("replace", "$s", 2, "$d")),
     (None, ("solve", "$s", "$p")), ("k", ("keep", "$t")), (None, ("solve", "$d", "$k")), ("x", ("deepcopy", "$s")),
     (None, ("solve", "$x", "$p")), (None, ("solve", "$a2", "$p"))],
    # units listed in one sequence handed to a second one (a shorter line laid over the head of the first): both solved,
    # both deep-copied, a pass of the shared part replaced by one built from its roll
    [("p", ("profile", "A", ["my_tags"])), ("a", ("pass", "A", 0, True, 0, 1.0)), ("t", ("transport", 0, False, False)),
     ("b", ("pass", "A", 1, True, 1, 1.0)), ("s", ("seq", ["$a", "$t", "$b"])), (None, ("solve", "$s", "$p")),
     ("s2", ("seq", ["$a", "$t"])), (None, ("solve", "$s2", "$p")), (None, ("solve", "$s", "$p")),
     (None, ("deepcopy", "$s")), (None, ("deepcopy", "$s2")),
     ("a2", ("pass", "A", 0, True, 0, 0.9, "$a", [], "roll")), (None, ("replace", "$s2", 0, "$a2")),
     (None, ("solve", "$s2", "$p")), (None, ("solve", "$s", "$p")), (None, ("deepcopy", "$s"))],
    # a transport listed in two sequences whose `duration` is a callable holding on to a rotator of the FIRST sequence
    # only; deep copy of the second (a root): the rotator is part of the copy through the callable, the copy of its parent
    # (the first sequence, not part of the copied tree) is held by nobody - that back-reference is dead, not into the
    # original (a history on which `check_copy_live` demanded more than its clause says)
    [("p", ("profile", "A", ["material", "chemical_composition", "my_array"])), ("t", ("transport", 1, True, False)),
     ("r1", ("rotator", 90)), ("r2", ("rotator", 45)), ("a", ("pass", "A", 0, 90, 0, 1.0)),
     ("s", ("seq", ["$t", "$r1", "$r2", "$a"])), (None, ("bind", "$t", "duration", "partial", "$r1")),
     (None, ("solve", "$s", "$p")), (None, ("solvev", "$s", "$p", "forward", 0.5, 0.0)), (None, ("keep", "$s")),
     (None, ("bind", "$r1", "pacing", "partial", "$a")), ("s2", ("seq", ["$t"])), (None, ("solve", "$s2", "$p")),
     (None, ("deepcopy", "$s2")), (None, ("deepcopy", "$s"))],
    # numeric entries given as MUTABLE numbers (0-d / 1-d numpy arrays, a 0-d view into a series) on two caller profiles and
    # on a roll template; two passes directly after each other (the second one's in-profile shares every handed-on array with
    # the first one's out-profile and with what the first one returned), a transport, a third pass; whole line solved and
    # re-solved, walked through by the caller (the later pass solved twice with the profile the earlier one returned), a
    # velocity solver, a deep copy solved with the same caller profile.  Oracle only (the model has numbers as atoms)
    [("p", ("profile", "A", ["my_array"], [["strain", "a0"], ["temperature", "a1"], ["length", "a0s"], ["t", "a1"],
                                            ["flow_stress", "a0"], ["density", "a1"]])),
     ("q", ("profile", "A", ["material"], [["strain", "a1"], ["t", "a0"]])),
     ("a", ("pass", "A", 0, True, 0, 1.0, None, [], "template", [["nominal_radius", "a0"], ["rotational_frequency", "a1"],
                                                                 ["my_wear", "a0s"]])),
     ("b", ("pass", "A", 1, True, 1, 1.0)), ("t", ("transport", 1, False, False)),
     ("c", ("pass", "A", 2, True, 0, 1.0, None, ["working_radius"], "template", [["temperature", "a1"]])),
     ("s", ("seq", ["$a", "$b", "$t", "$c"])), ("r1", ("solve", "$s", "$p")), (None, ("solve", "$s", "$p")),
     ("x1", ("solve", "$a", "$q")), ("x2", ("solve", "$b", "$x1")), (None, ("solve", "$b", "$x1")),
     ("k", ("keep", "$a")), (None, ("solve", "$b", "$k")), (None, ("solvev", "$s", "$p", "forward", 1.0, 0.0)),
     ("d", ("deepcopy", "$s")), (None, ("solve", "$d", "$p")), (None, ("solve", "$s", "$r1"))],
]


def run_sym(sym, with_model=True):
    w = World(with_model)
    env = {}

    def sub(x):
        if isinstance(x, str) and x.startswith("$"):
            return env[x[1:]]
        if isinstance(x, list):
            return [sub(y) for y in x]
        return x
    try:
        for lab, op in sym:
            res = w.apply(tuple(sub(x) for x in op))
            if op[0] == "keep":
                res = len(w.slots) - 1
            if lab:
                env[lab] = res
            if w.failed_solve:
                break
    finally:
        w.close()
    return w


def run_ops(ops, with_model=True):
    w = World(with_model)
    try:
        for op in ops:
            w.apply(tuple(op))
            if w.failed_solve:
                break
    finally:
        w.close()
    return w


class Record:
    """what is kept of a finished history (the real objects are released)"""

    def __init__(self, w, stream):
        self.ops = [list(o) for o in w.ops]
        self.lines = w.lines
        self.problems = list(w.oracle.problems)
        self.first_at = dict(w.oracle.first_at)
        self.failed_solve = w.failed_solve
        self.aborted = w.aborted
        self.model_cut = w.model_cut
        self.stream = stream
        self.graph = dump(w.lib, w.slots)[:1500]


def run(ctx):
    n_hist = ctx.budget(100, 1500)
    use_model = getattr(ctx, "model_available", True)
    records = []
    for sym in CORPUS:
        records.append(Record(run_sym(sym, use_model), "corpus"))
    for _ in range(n_hist):
        infeasible = ctx.rng.random() < 0.08
        w = World(use_model)
        try:
            gen_history(ctx.rng, w, ctx.rng.randrange(3, 10), infeasible)
        finally:
            w.close()
        records.append(Record(w, "infeasible" if infeasible else "random"))
        del w
    # values given as MUTABLE objects where immutable scalars are usual (numpy 0-d / 1-d arrays for the numeric entries of
    # the incoming profile and of the roll templates), shared by reference along the line.  The heap model has numbers as
    # atoms, so these histories are the oracle's alone (inputs - value AND content -, returned and earlier profiles, every
    # array reachable from a profile or an input keeps its bytes).  Generated AFTER the main stream: its draws are untouched
    for _ in range(ctx.budget(30, 300)):
        w = World(False)
        try:
            gen_history(ctx.rng, w, ctx.rng.randrange(3, 10), False, mut=True)
        finally:
            w.close()
        records.append(Record(w, "mutable-numbers"))
        del w
    lean_lines = []
    for r in records:
        ops = [tuple(o) for o in r.ops]
        canon = [list(map(str, o)) for o in ops]
        ctx.case(canon, nontrivial(ops))
        ctx.count("stream:" + r.stream)
        for o in ops:
            ctx.count("op:" + o[0])
            if o[0] == "profile" and len(o) > 3:
                for name, form in o[3]:
                    ctx.count(f"mutable-number:profile.{name}:{form}")
            if o[0] == "pass" and len(o) > 9:
                for name, form in o[9]:
                    ctx.count(f"mutable-number:roll.{name}:{form}")
        if r.aborted:
            ctx.count("solve-stopped-by-harness:runaway-solution-loops")
        elif r.failed_solve:
            ctx.count("solve-raised-inside-pyroll")
        if r.model_cut:
            ctx.count("model-side-cut:non-converging-solve")
        if len(ctx.samples) < 3 and r.stream == "random" and nontrivial(ops):
            ctx.sample({"history": canon, "final_graph": r.graph})
        seen = set()
        for key, text in r.problems:
            if key in seen:
                continue
            seen.add(key)
            # the history up to and including the op after which the oracle reported it
            ctx.violation(key, text, {"ops": r.ops[:r.first_at.get(key, len(r.ops))], "problem": text,
                                      "how": "driver/props/c12.py run_ops(ops): apply the ops to real objects; "
                                             "World.oracle.problems lists what the oracle found"})
        lean_lines.append(["reset"] + [l for l, _ in r.lines])
    if use_model:
        out = _run_model_chunks(ctx, lean_lines)
        pos = 0
        for r in records:
            pos += 1
            bad = None
            for i, (line, exp) in enumerate(r.lines):
                got = out[pos + i] if pos + i < len(out) else "<missing>"
                if bad is None and exp is not None and got != exp:
                    bad = (i, line, exp, got)
            pos += len(r.lines)
            if bad is None:
                if r.lines:                     # (an oracle-only history has nothing the model was compared on)
                    ctx.validated()
            else:
                i, line, exp, got = bad
                ctx.disagreement(f"model and implementation differ at model line #{i} ({line[:60]})",
                                 {"ops": r.ops, "model_line": line,
                                  "impl": exp[:3000], "model": got[:3000],
                                  "first_difference": _first_diff(exp, got)})
        if pos != len(out):
            ctx.disagreement("model output length mismatch", {"expected": pos, "got": len(out)})


def _run_model_chunks(ctx, per_history):
    """the model lines of all histories through the interpreted driver: histories are independent (`reset`), so they are
    dealt out to a few driver processes running side by side (wall time only; the output is put together in order)"""
    n = 4 if len(per_history) >= 40 else 1
    size = (len(per_history) + n - 1) // n
    chunks = [per_history[i:i + size] for i in range(0, len(per_history), size)]
    flat = [[l for h in ch for l in h] for ch in chunks]
    if len(flat) <= 1:
        return ctx.lean_model(MODEL, flat[0] if flat else [])
    from concurrent.futures import ThreadPoolExecutor
    with ThreadPoolExecutor(max_workers=len(flat)) as ex:
        outs = list(ex.map(lambda ls: ctx.lean_model(MODEL, ls), flat))
    res = []
    for ls, o in zip(flat, outs):
        if len(o) != len(ls):
            # keep the positions of the later chunks right
            ctx.disagreement("model output length mismatch", {"expected": len(ls), "got": len(o)})
            o = (o + ["<missing>"] * len(ls))[:len(ls)]
        res.extend(o)
    return res


def _first_diff(a, b):
    ta, tb = a.split(" "), b.split(" ")
    for i, (x, y) in enumerate(zip(ta, tb)):
        if x != y:
            return {"token": i, "impl": x[:600], "model": y[:600]}
    return {"token": min(len(ta), len(tb)), "impl": "<end>" if len(ta) <= len(tb) else ta[len(tb)][:300],
            "model": "<end>" if len(tb) <= len(ta) else tb[len(ta)][:300]}


def replay(ctx, data):
    r = data.get("replay", data)
    w = run_ops([tuple(o) for o in r["ops"]], with_model=False)
    seen = set()
    for key, text in w.oracle.problems:
        if key not in seen:
            seen.add(key)
            ctx.violation(key, text, r)
