"""C03 - every groove handed out is a well-formed contour; unrealisable input is rejected.

Tie: T (driver/translate/c03_validate.py re-reads on every run, from pyroll/core/grooves: the argument checks and the
        fourth-of-four resolution of `GenericElongationGroove.__init__`, its junction chain and contour-line functions
        (through driver/translate/groove.py), `_enumerate_contour_points` (which arc is sampled between which junctions,
        under which guard), the mirroring statements, every post-construction validation (`test_*` methods called by
        `__init__`) as a table of checks, the name normalisation of `create_groove_by_type_name`, the shape checks of
        `SplineGroove.__init__` and the per-class constructor signatures -> lean/PyrollModel/Gen/C03.lean,
        Gen/C03Groove.lean; driver/translate/c03_factory.py: the statement list of `create_groove_by_type_name` ->
        Gen/C03Factory.lean; driver/translate/c03_ribbed.py: `EquivalentRibbedGroove.__init__` -> Gen/C03Ribbed.lean;
        the theorems of lean/PyrollProps/C03.lean are re-checked against the regenerated tables)
   + K (the Lean model `GrooveWF.construct` over Float is run on the arguments every real constructor hands to
        `GenericElongationGroove.__init__` (captured by wrapping that method, restored in `finally`): accept/reject and
        the kind of rejection, all 31 junction values, every contour vertex; the model of the name normalisation on every
        spelling variant; the generated statement list of the factory (`Gen.C03Factory.steps`, lookup ORDER among the package and
        the loaded modules) against the real function on worlds of stub modules; the generated table of
        `EquivalentRibbedGroove.__init__` against every real construction of that class: decorator verdict, solver arguments,
        arguments handed to the generic constructor).
The independent oracle is written from the property text and looks only at the returned object
(`contour_points/contour_line/cross_section/depth/usable_width/width` + the echoed attributes): finite, mirror-symmetric,
strictly increasing in z, simple, never below the face, meets the face at the usable width, deepest vertex inside the
usable width in [depth - sagitta, depth], requested values echoed; input that is unrealisable on its face (negative /
non-finite dimension, negative flank length, flank angle >= 90 deg or <= 0, wrong number of defining values) must raise.
By-name factory (docstring of `create_groove_by_type_name`: grooves of `pyroll.core.grooves` and of all loaded modules, "the
former take precedence", every documented spelling): also while user-defined groove classes are loaded - under names the core
uses and under new names - a core type name hands out the class of the public API (`factory-precedence:<kind>`), a new type
name given in separated words is found (`factory-extension:words`) and is one of the classes of that name
(`factory-extension-class:<kind>`), and the groove handed out reproduces the requested dimensions (the `echo-*` keys).
"""
import contextlib
import math
import os
import re
import traceback
import warnings

from .. import stub

ID = "C03"
LEAN_MODULES = ["PyrollProps.C03"]
ALSO_LOCKS = ["C04"]            # PyrollProps.C03 imports PyrollProps.C04 (generated chain Gen.C04*)
MODEL = "c03"
MODEL_MODULES = ["PyrollModel.Gen.C03", "PyrollModel.Gen.C03Groove", "PyrollModel.Gen.C03Factory", "PyrollModel.Gen.C03Ribbed",
                 "PyrollModel.GrooveWFDriver"]
RULE = ("for each of the 21 public parametric groove classes x each admissible defining subset (75 combinations; 60 draws each in "
        "the quick tier, 180 for single-subset classes) x {direct constructor 70 %, by-name factory under a random documented "
        "spelling 30 %}: a feasible geometry is drawn forwards (angles, radii, flank length; pad angle in {0, 30, 45, random}; "
        "scale log-uniform over 6 decades) and handed over (a) as drawn 30 %, (b) feasibility-biased: 1-3 length parameters "
        "moved by a factor 10^U(-1.5, 1.5) 40 % - about 60 % of (a)+(b) construct, the rest sit around the feasibility "
        "boundary -, (d) 10 %: one or two of the OPTIONAL keywords the call may carry (the class's own and, through **kwargs, those "
        "of the generic constructor: pad, rel_pad, pad_angle, r3, r4, alpha3, alpha4, indent, even_ground_width) at a boundary "
        "of their range - exactly 0, tiny (1e-12 ... 1e-9 of the scale), explicitly the default - and the face padding in every "
        "combination of its two keywords (rel_pad = 0, pad = 0 with rel_pad = 0, pad = 0 alone, both given, tiny, explicit "
        "default), (c) infeasible/boundary 20 %: one mutation out of {zero, negative, NaN, +inf, negative flank dimension, "
        "flank angle 0 / 90 deg / beyond, tip angle > 180 deg, depth too small for the radii, radius too large for the width, "
        "1e-12 / 1e12 scaling of one length, defining value or required parameter dropped, surplus defining value (consistent or "
        "contradictory), usable_width == ground_width}. A case = one constructor call; non-trivial = an object came back and "
        "was checked, or the input was unrealisable on its face and had to be rejected; distinct by class, subset, route, stream "
        "and rounded parameters. Plus the by-name factory in the presence of user-defined groove classes: 1 fixed + 40 (thorough "
        "600) worlds of 1-3 modules registered in sys.modules after pyroll.core, each defining 1-3 GrooveBase subclasses - under a "
        "name the core also uses (a subclass of that core class that behaves the same / reads its lengths in another unit, x 25.4, "
        "1/25.4, 1e-3, 1e3, 0.5, 2 / is a different groove altogether) or under a new CamelCase name of 1-3 words (optionally a digit "
        "word; pass-through subclass of a random core class; the same new name may be defined by two modules); every class name of "
        "the world + a focus class is requested through the factory under two documented spellings (exact / separated words, "
        "random separators and capitalisation, with or without the word groove) with feasible (80 %) or perturbed dimensions of "
        "the (base) class: a core name must hand out THE class of pyroll.core.grooves, a new name one of the world's classes of "
        "that name, and whatever comes back must pass the contour oracle with the requested dimensions; modules are removed from "
        "sys.modules and emptied in `finally`, the classes garbage-collected at the end of the stream. (K) 40 (thorough 600) "
        "worlds of STUB modules (core names and new names bound to stub groove classes, other truthy objects, falsy objects, or the "
        "package's own class; now and then an extra binding in the package) x ~15 names (documented spellings, one-character "
        "edits, exact names): real lookup vs the generated statement list of the factory. Plus ~450 ASCII names for the factory's "
        "normalisation, 11 spline shape cases and 60 (thorough 600) "
        "six-vertex spline polylines of extent 1e-3 ... 3000 whose end ordinates / ordinates next to the ends are 0, 0.25 ... 40 x a "
        "tolerance a face test may have (1e-8 absolute, 1e-9 x extent).")
ASSUMPTIONS = [
    "IEEE rounding: theorems are over the reals; the Float run of the model is compared with the real junctions/vertices "
    "at rtol 1e-9 (relative to the groove size)",
    "GEOS `is_simple` is an external parameter of the model (its verdict on the constructed polyline is an input of "
    "`construct`); after the repair it is implied by the strict z-monotonicity check (theorem zmonotone_simple)",
    "scipy root finding is outside the model: for solver-backed classes the model starts from the arguments the class "
    "hands to GenericElongationGroove.__init__ (the solver contract itself is C04's subject); for EquivalentRibbedGroove the "
    "constructor itself is modelled with the solver's answer (alpha3, flank angle) as a parameter",
    "factory lookup: a python object is abstracted to (defining module, name, is a GrooveBase subclass, truthiness); module "
    "`__getattr__` hooks and modules other than the package and the harness modules are assumed not to bind names ending in "
    "`Groove` (counted as K:lookup-skipped when the real factory finds something the world does not describe)",
    "oracle tolerances: below-face and depth overshoot 1e-7 x groove size (100 x the validator's relative tolerance, "
    "rounding only; for GenericElongationGroove itself, whose indent/r3/r4/alpha4 are free inputs, depth overshoot up to the "
    "0.1 % of depth its validation documents); deepest vertex >= depth - (neighbouring vertex spacing)/9 (sagitta of a circle sampled with >= 20 "
    "z-steps per arc); flank/face meeting point 2e-6/sin^2(flank angle) x size for solver-backed classes (xtol of "
    "hybr/fixed_point x conditioning), 2e-3 x depth for the generic class (the constructor's documented step tolerance); "
    "every absolute allowance + 8 ulp(largest radius) (cancellation in the junction sums when a radius dwarfs the groove)",
]
TRUSTED_EXTRA = ["translator driver/translate/c03_validate.py (+ groove.py): AST whitelist -> check/piece tables; mitigated "
                 "by running the generated tables through the Lean model against every real construction",
                 "translators driver/translate/c03_factory.py (statement list of create_groove_by_type_name) and c03_ribbed.py "
                 "(EquivalentRibbedGroove.__init__): statement shapes whitelisted; the generated tables are run against the real "
                 "function on stub-module worlds resp. against every real construction of the class"]

DEG = math.pi / 180
NAN = float("nan")
INF = float("inf")

# ---------------------------------------------------------------------------------------------------------
# the public parametric classes and their admissible defining subsets
# ---------------------------------------------------------------------------------------------------------
R124_PLAIN = ["RoundGroove", "CircularOvalGroove"]
BOX_PLAIN = ["BoxGroove", "UpsetBoxGroove", "HexagonalGroove", "SwedishOvalGroove"]
BOX_CONSTR = ["ConstrictedBoxGroove", "ConstrictedUpsetBoxGroove", "ConstrictedSwedishOvalGroove"]
R123_PLAIN = ["Oval3RadiiGroove", "UpsetOvalGroove", "GothicGroove"]
FLANK = ["flank_angle", "flank_width", "flank_height", "flank_length"]
BOX_SUBSETS = [("usable_width", "ground_width"), ("usable_width", "even_ground_width"), ("usable_width", "flank_angle"),
               ("ground_width", "flank_angle"), ("even_ground_width", "flank_angle")]
PAIRS3 = [("r2", "depth"), ("r2", "usable_width"), ("depth", "usable_width")]
GENERIC_SUBSETS = [("ground_width", "flank_angle", "depth"), ("usable_width", "flank_angle", "depth"),
                   ("usable_width", "ground_width", "depth"), ("usable_width", "ground_width", "flank_angle")]

ALL_CLASSES = (["GenericElongationGroove"] + BOX_PLAIN + BOX_CONSTR + ["DiamondGroove", "SquareGroove", "GothicGroove"]
               + ["CircularOvalGroove", "FlatOvalGroove", "SwedishOvalGroove", "ConstrictedSwedishOvalGroove",
                  "ConstrictedCircularOvalGroove", "Oval3RadiiGroove", "Oval3RadiiFlankedGroove", "UpsetOvalGroove"]
               + ["RoundGroove", "FalseRoundGroove", "FlatGroove", "HexagonalGroove", "EquivalentRibbedGroove"])
ALL_CLASSES = list(dict.fromkeys(ALL_CLASSES))

# classes whose resolved parameters come out of an iterative scipy solver: solver precision applies
ITERATIVE = set(R124_PLAIN + ["FalseRoundGroove", "FlatOvalGroove"] + R123_PLAIN
                + ["Oval3RadiiFlankedGroove", "EquivalentRibbedGroove", "ConstrictedCircularOvalGroove"]
                + BOX_PLAIN + BOX_CONSTR)     # box-like: the even_ground_width+usable_width branch is a root_scalar
RADIANS = {"GenericElongationGroove"}


def subsets_of(cname):
    if cname in R124_PLAIN:
        return PAIRS3
    if cname == "FalseRoundGroove":
        return [p + (f,) for p in PAIRS3 for f in FLANK]
    if cname == "FlatOvalGroove":
        return [("usable_width",), ("even_ground_width",)]
    if cname == "Oval3RadiiFlankedGroove":
        return [(f,) for f in FLANK]
    if cname in BOX_PLAIN + BOX_CONSTR:
        return BOX_SUBSETS
    if cname in ("DiamondGroove", "SquareGroove"):
        return [("usable_width", "tip_depth"), ("usable_width", "tip_angle"), ("tip_depth", "tip_angle")]
    if cname == "GenericElongationGroove":
        return GENERIC_SUBSETS
    return [()]


def _cls(name):
    import pyroll.core.grooves as G
    return getattr(G, name)


# ---------------------------------------------------------------------------------------------------------
# spellings of a class name the by-name factory documents ("either exactly as the respective class name or with words
# separated by spaces, dashes or underscores where the word capitalization is ignored")
# ---------------------------------------------------------------------------------------------------------
def words_of(cname):
    """CamelCase -> words; a digit group is its own word ('Oval3RadiiGroove' -> oval 3 radii groove)"""
    out, cur = [], ""
    for ch in cname:
        if ch.isupper() or (ch.isdigit() and not cur[-1:].isdigit()) or (cur[-1:].isdigit() and not ch.isdigit()):
            if cur:
                out.append(cur)
            cur = ch
        else:
            cur += ch
    out.append(cur)
    return [w.lower() for w in out]


def spelling(rng, cname):
    """-> (name, kind).  kinds: 'exact' (the class name), 'words' (separated words, random separators/capitalisation,
    with or without the trailing word 'groove')"""
    if rng.random() < 0.15:
        return cname, "exact"
    ws = words_of(cname)
    if rng.random() < 0.6:
        ws = ws[:-1]                       # without 'groove'
    seps = [" ", "-", "_"]
    caps = rng.choice([str.lower, str.upper, str.capitalize, lambda w: w])
    name = ""
    for i, w in enumerate(ws):
        if i:
            name += rng.choice(seps) * rng.choice([1, 1, 1, 2])
        name += caps(w)
    return name, "words"


# ---------------------------------------------------------------------------------------------------------
# feasible geometries, drawn forwards (all angles of the class interfaces in degree, generic class in radian)
# ---------------------------------------------------------------------------------------------------------
def _pad_angle(rng, fa_max_deg):
    p = rng.choice([0.0, 30.0, 45.0, rng.uniform(0, 60)])
    return max(0.0, min(p, 170 - fa_max_deg))


def ribbed_r2(rib_distance, rib_width, rib_angle, base_body_height, nominal_outer_diameter):
    """circular segment of height h_eq over the chord c: radius (4 h^2 + c^2) / (8 h) (docstring of the class)"""
    R = nominal_outer_diameter / 2
    h_eq = (R - base_body_height / 2) * (rib_width / math.cos(rib_angle * DEG)) / rib_distance
    diag = base_body_height * math.sqrt(2)
    inner = math.pi - (math.pi / 4 + (math.pi - math.asin(diag / 2 * math.sin(math.pi / 4) / R)))
    c = base_body_height - 2 * (R * math.sin(inner) / math.sin(math.pi / 4))
    return (4 * h_eq ** 2 + c ** 2) / (8 * h_eq)


def draw(rng, cname):
    """-> (fixed kwargs, values of all over-determined parameters, info) for a FEASIBLE geometry of class `cname`"""
    s = 10 ** rng.uniform(-3, 3)
    ext = {}
    if rng.random() < 0.3 and cname not in ("DiamondGroove", "SquareGroove", "GothicGroove"):
        ext["pad"] = s * rng.uniform(0.05, 0.5)
    if cname in R124_PLAIN + ["FalseRoundGroove", "FlatOvalGroove"]:
        a = rng.uniform(12, 80) * DEG
        p = _pad_angle(rng, a / DEG)
        r2 = s
        r1 = s * rng.uniform(0.02, 0.4)
        fl = s * rng.uniform(0.02, 0.8) if cname == "FalseRoundGroove" else 0.0
        l = r1 * math.tan((a + p * DEG) / 2)
        depth = r2 * (1 - math.cos(a)) + (fl + l) * math.sin(a)
        half = r2 * math.sin(a) + (fl + l) * math.cos(a)
        fixed = dict(r1=r1, pad_angle=p, **ext)
        vals = dict(r2=r2, depth=depth, usable_width=2 * half, flank_angle=a / DEG, flank_length=fl,
                    flank_width=fl * math.cos(a), flank_height=fl * math.sin(a))
        if cname == "FlatOvalGroove":
            egw = s * rng.uniform(0.05, 3)
            fixed.update(r2=r2, depth=depth)
            vals = dict(usable_width=2 * half + egw, even_ground_width=egw)
        return fixed, vals, dict(scale=s, fa=a)
    if cname in R123_PLAIN + ["Oval3RadiiFlankedGroove", "EquivalentRibbedGroove"]:
        a3 = rng.uniform(8, 35) * DEG
        a2 = rng.uniform(15, 50) * DEG
        fa = a2 + a3
        p = _pad_angle(rng, fa / DEG)
        r3 = s * rng.uniform(1.5, 6)
        r2 = s * rng.uniform(0.2, 1.2)
        if cname == "UpsetOvalGroove" and rng.random() < 0.5:
            r3, r2 = r2, r3
        r1 = s * rng.uniform(0.02, 0.3)
        fl = s * rng.uniform(0.02, 0.6) if cname == "Oval3RadiiFlankedGroove" else 0.0
        l = r1 * math.tan((fa + p * DEG) / 2)
        depth = r3 - (r3 - r2) * math.cos(a3) - r2 * math.cos(fa) + (fl + l) * math.sin(fa)
        half = (r3 - r2) * math.sin(a3) + r2 * math.sin(fa) + (fl + l) * math.cos(fa)
        fixed = dict(r1=r1, r2=r2, r3=r3, depth=depth, usable_width=2 * half, pad_angle=p, **ext)
        vals = dict(flank_angle=fa / DEG, flank_length=fl, flank_width=fl * math.cos(fa), flank_height=fl * math.sin(fa))
        if cname == "EquivalentRibbedGroove":
            D = s * rng.uniform(8, 14)
            h = D * rng.uniform(0.88, 0.97)
            rib = dict(rib_distance=s * rng.uniform(4, 9), rib_width=s * rng.uniform(1, 3), rib_angle=rng.uniform(30, 70),
                       base_body_height=h, nominal_outer_diameter=D)
            r2 = ribbed_r2(**rib)
            r3 = r2 * rng.uniform(1.5, 4)
            r1 = r2 * rng.uniform(0.02, 0.2)
            l = r1 * math.tan((fa + p * DEG) / 2)
            depth = r3 - (r3 - r2) * math.cos(a3) - r2 * math.cos(fa) + l * math.sin(fa)
            half = (r3 - r2) * math.sin(a3) + r2 * math.sin(fa) + l * math.cos(fa)
            ext.pop("pad", None)
            fixed = dict(r1=r1, r3=r3, depth=depth, usable_width=2 * half, pad_angle=p, **rib)
        if cname != "Oval3RadiiFlankedGroove":
            vals = {}
        return fixed, vals, dict(scale=s, fa=fa)
    if cname == "ConstrictedCircularOvalGroove":
        a4 = rng.uniform(5, 25) * DEG
        a3 = a4 + rng.uniform(5, 30) * DEG
        a2 = rng.uniform(15, 45) * DEG
        fa = a2 + a3 - a4
        p = _pad_angle(rng, fa / DEG)
        r4 = s * rng.uniform(0.3, 2)
        r3 = s * rng.uniform(1, 4)
        r2 = s * rng.uniform(0.2, 1)
        r1 = s * rng.uniform(0.02, 0.3)
        egw = s * rng.choice([0.0, rng.uniform(0.1, 2)])
        indent = (r3 + r4) * (1 - math.cos(a4))
        l = r1 * math.tan((fa + p * DEG) / 2)
        depth = r3 - (r3 - r2) * math.cos(a3 - a4) - r2 * math.cos(fa) + l * math.sin(fa)
        half = (r3 - r2) * math.sin(a3 - a4) + r2 * math.sin(fa) + l * math.cos(fa) + (r3 + r4) * math.sin(a4)
        if indent > 0.8 * depth:           # the centre must stay above the roll face: shrink the constriction
            return draw(rng, cname)
        fixed = dict(r1=r1, r2=r2, r3=r3, r4=r4, depth=depth, usable_width=2 * half + egw, indent=indent,
                     even_ground_width=egw, pad_angle=p, **ext)
        return fixed, {}, dict(scale=s, fa=fa)
    if cname in BOX_PLAIN + BOX_CONSTR:
        fa = rng.uniform(25, 88) * DEG if "Hex" not in cname and "Swedish" not in cname else rng.uniform(25, 70) * DEG
        p = _pad_angle(rng, fa / DEG)
        depth = s
        r2 = s * rng.uniform(0.02, 0.45)
        r1 = s * rng.uniform(0.02, 0.3)
        egw = s * rng.uniform(0.1, 4)
        fixed = dict(r1=r1, r2=r2, depth=depth, pad_angle=p, **ext)
        c4 = 0.0
        if cname in BOX_CONSTR:
            r4 = s * rng.uniform(0.05, 1)
            indent = (r2 + r4) * (1 - math.cos(rng.uniform(3, 40) * DEG))
            fixed.update(r4=r4, indent=indent)
            c4 = (r4 + r2) * math.sin(math.acos(1 - indent / (r2 + r4)))
        if r2 * (1 - math.cos(fa)) + r1 * math.tan((fa + p * DEG) / 2) * math.sin(fa) > 0.9 * (depth - fixed.get("indent", 0.0)) \
                or fixed.get("indent", 0.0) > 0.8 * depth:
            return draw(rng, cname)        # the two fillets must fit into the depth (positive flank length)
        gw = egw + 2 * (c4 + r2 * math.tan(fa / 2))
        uw = gw + 2 * depth / math.tan(fa)
        vals = dict(ground_width=gw, even_ground_width=egw, usable_width=uw, flank_angle=fa / DEG)
        return fixed, vals, dict(scale=s, fa=fa)
    if cname in ("DiamondGroove", "SquareGroove"):
        a = (rng.uniform(43, 47) if cname == "SquareGroove" else rng.uniform(20, 70)) * DEG
        p = _pad_angle(rng, a / DEG)
        uw = 2 * s
        td = s * math.tan(a)
        r2 = s * rng.uniform(0.02, 0.4) * min(1.0, math.tan(a))
        r1 = s * rng.uniform(0.02, 0.3)
        fixed = dict(r1=r1, r2=r2, pad_angle=p)
        vals = dict(usable_width=uw, tip_depth=td, tip_angle=(math.pi - 2 * a) / DEG)
        return fixed, vals, dict(scale=s, fa=a)
    if cname == "FlatGroove":
        fixed = dict(usable_width=s, pad_angle=_pad_angle(rng, 0), **ext)
        if rng.random() < 0.5:
            fixed["r1"] = s * rng.uniform(0.01, 0.3)
        return fixed, {}, dict(scale=s, fa=0.0)
    if cname == "GenericElongationGroove":
        kind = rng.choice(["box", "box", "r3", "r34"])
        r1 = s * rng.uniform(0.02, 0.3)
        if kind == "box":
            fa = rng.uniform(20, 85) * DEG
            p = _pad_angle(rng, fa / DEG) * DEG
            depth = s
            r2 = s * rng.uniform(0.02, 0.4)
            egw = s * rng.uniform(0.1, 4)
            if r2 * (1 - math.cos(fa)) + r1 * math.tan((fa + p) / 2) * math.sin(fa) > 0.9 * depth:
                return draw(rng, cname)
            uw = egw + 2 * r2 * math.tan(fa / 2) + 2 * depth / math.tan(fa)
            fixed = dict(r1=r1, r2=r2, even_ground_width=egw, pad_angle=p, **ext)
        else:
            a4 = rng.uniform(5, 25) * DEG if kind == "r34" else 0.0
            a3 = a4 + rng.uniform(5, 30) * DEG
            a2 = rng.uniform(15, 45) * DEG
            fa = a2 + a3 - a4
            p = _pad_angle(rng, fa / DEG) * DEG
            r4 = s * rng.uniform(0.3, 2) if kind == "r34" else 0.0
            r3 = s * rng.uniform(1, 4)
            r2 = s * rng.uniform(0.2, 1)
            fl = s * rng.choice([0.0, rng.uniform(0.02, 0.6)])
            egw = s * rng.choice([0.0, rng.uniform(0.1, 2)])
            indent = (r3 + r4) * (1 - math.cos(a4))
            l = r1 * math.tan((fa + p) / 2)
            depth = r3 - (r3 - r2) * math.cos(a3 - a4) - r2 * math.cos(fa) + (fl + l) * math.sin(fa)
            half = (r3 - r2) * math.sin(a3 - a4) + r2 * math.sin(fa) + (fl + l) * math.cos(fa) + (r3 + r4) * math.sin(a4)
            uw = 2 * half + egw
            if indent > 0.8 * depth:
                return draw(rng, cname)
            fixed = dict(r1=r1, r2=r2, r3=r3, alpha3=a3, even_ground_width=egw, pad_angle=p, **ext)
            if kind == "r34":
                fixed.update(r4=r4, alpha4=a4, indent=indent)
        gw = uw - 2 * depth / math.tan(fa)
        vals = dict(usable_width=uw, ground_width=gw, flank_angle=fa, depth=depth)
        return fixed, vals, dict(scale=s, fa=fa)
    raise KeyError(cname)


LENGTHS = ("r1", "r2", "r3", "r4", "depth", "usable_width", "ground_width", "even_ground_width", "indent", "tip_depth",
           "flank_width", "flank_height", "flank_length", "pad", "rib_distance", "rib_width", "base_body_height",
           "nominal_outer_diameter")
DIMENSIONS = LENGTHS + ("flank_angle", "tip_angle", "alpha3", "alpha4")   # "measures" that must be non-negative and finite


def perturb(rng, kwargs):
    """move one or two length parameters by a log-uniform factor: lands around the feasibility boundary"""
    kw = dict(kwargs)
    keys = [k for k in kw if k in LENGTHS and k != "pad" and kw[k]]
    for k in rng.sample(keys, min(len(keys), rng.choice([1, 2, 2, 3]))):
        kw[k] = kw[k] * 10 ** rng.uniform(-1.5, 1.5) if rng.random() < 0.75 else kw[k] * rng.uniform(0.7, 1.4)
    return kw


ANGLES = ("pad_angle", "alpha3", "alpha4", "flank_angle", "tip_angle")


def optional_keywords(cname):
    """{name: default} of the optional numeric keywords a call `cname(...)` may carry: those of the class's own signature and,
    when it forwards `**kwargs`, those of GenericElongationGroove it does not name itself (read off the real signatures)"""
    import inspect

    def numeric(cls):
        return {n: q.default for n, q in inspect.signature(cls.__init__).parameters.items()
                if isinstance(q.default, (int, float)) and not isinstance(q.default, bool)}

    params = inspect.signature(_cls(cname).__init__).parameters
    out = numeric(_cls(cname))
    if any(q.kind is q.VAR_KEYWORD for q in params.values()):
        for n, d in numeric(_cls("GenericElongationGroove")).items():
            if n not in params:
                out[n] = d
    return out


def boundary(rng, cname, kwargs, scale):
    """-> (kwargs, kind).  A feasible draw with one or two OPTIONAL keywords at a boundary of their range: exactly 0, tiny
    (1e-12 ... 1e-9 of the groove's scale), explicitly the default; the face padding, which can be given in two ways (`pad`
    absolute, `rel_pad` relative to the usable width, `pad` wins unless 0), additionally in every combination of the two.
    Nothing here is unrealisable on its face: 'reject or well-formed'."""
    opt = optional_keywords(cname)
    kw = dict(kwargs)

    def value(k, how):
        unit = 1.0 if k in ANGLES or k == "rel_pad" else scale
        return {"zero": 0.0, "tiny": unit * 10 ** rng.uniform(-12, -9), "default": float(opt[k])}[how]

    if "pad" in opt and "rel_pad" in opt and rng.random() < 0.5:
        mode = rng.choice(["rel-zero", "both-zero", "pad-zero", "both-given", "rel-tiny", "pad-tiny", "rel-default",
                           "pad-zero-rel-default", "pad-given-rel-zero"])
        kw.pop("pad", None)
        if mode in ("both-zero", "pad-zero", "pad-zero-rel-default"):
            kw["pad"] = 0.0
        if mode in ("rel-zero", "both-zero", "pad-given-rel-zero"):
            kw["rel_pad"] = 0.0
        if mode in ("both-given", "pad-given-rel-zero"):
            kw["pad"] = scale * rng.uniform(0.05, 0.5)
        if mode == "both-given":
            kw["rel_pad"] = rng.uniform(0.01, 0.5)
        if mode == "rel-tiny":
            kw["rel_pad"] = value("rel_pad", "tiny")
        if mode == "pad-tiny":
            kw["pad"] = value("pad", "tiny")
        if mode in ("rel-default", "pad-zero-rel-default"):
            kw["rel_pad"] = value("rel_pad", "default")
        return kw, "padding-" + mode
    names = sorted(opt)
    how = rng.choice(["zero", "tiny", "default"])
    for k in rng.sample(names, min(len(names), rng.choice([1, 1, 2]))):
        kw[k] = value(k, how)
    return kw, "optional-" + how


def infeasible(rng, cname, subset, fixed, vals):
    """-> (kwargs, kind, must_reject).  One mutation of a feasible draw.  `must_reject`: the input is unrealisable on its
    face (property text: negative flank length, undercut flanks, non-finite or negative dimensions, too many or too few
    defining values), any returned object is a violation; otherwise 'reject or well-formed'."""
    kw = dict(fixed, **{k: vals[k] for k in subset})
    rad = cname in RADIANS
    dims = [k for k in kw if k in DIMENSIONS]
    kinds = ["zero", "negative", "nan", "inf", "depth-too-small", "radius-too-large", "too-few", "too-many", "tiny", "huge"]
    if any(k in kw for k in ("flank_width", "flank_height", "flank_length")):
        kinds += ["negative-flank"] * 2
    if "flank_angle" in kw or "tip_angle" in kw:
        kinds += ["undercut"] * 2
    if "usable_width" in kw and "ground_width" in kw:
        kinds.append("uw-eq-gw")
    kind = rng.choice(kinds)
    if kind == "zero":
        k = rng.choice(dims)
        kw[k] = 0.0
        return kw, kind + ":" + k, False
    if kind == "negative":
        k = rng.choice(dims)
        kw[k] = -abs(kw[k]) * rng.choice([1.0, 1e-3, 1e-9]) if kw[k] else -1e-3 * max(abs(v) for v in kw.values())
        return kw, kind, True
    if kind in ("nan", "inf"):
        k = rng.choice(dims + ["pad_angle"])
        kw[k] = NAN if kind == "nan" else INF
        return kw, kind, True
    if kind == "negative-flank":
        k = next(k for k in ("flank_width", "flank_height", "flank_length") if k in kw)
        kw[k] = -abs(kw[k]) * rng.uniform(0.1, 2)
        return kw, kind, True
    if kind == "undercut":
        k = "flank_angle" if "flank_angle" in kw else "tip_angle"
        full = math.pi / 2 if rad else 90.0
        if k == "tip_angle":
            # flank angle = 90 - tip_angle/2 < 0 for tip_angle > 180.  (tip_angle = 180 is the degenerate flat groove of
            # depth 0, tip_angle = 0 reads as "not given": neither is unrealisable on its face)
            kw[k] = rng.choice([180.0 * (1 + 1e-9), rng.uniform(180, 350)])
        else:
            kw[k] = rng.choice([0.0, full, full * rng.uniform(1.0, 1.9), full * (1 + 1e-9)])
            if kw[k] == 0.0 and not kw.get("depth"):
                return kw, kind + ":flat", False      # flank angle 0 with the depth left open is the flat groove of depth 0
        return kw, kind, True
    if kind == "depth-too-small":
        k = "depth" if "depth" in kw else ("tip_depth" if "tip_depth" in kw else None)
        if k is None:
            k = rng.choice([x for x in kw if x in LENGTHS])
        kw[k] = kw[k] * 10 ** rng.uniform(-4, -0.5)
        return kw, kind, False
    if kind == "radius-too-large":
        k = rng.choice([x for x in ("r1", "r2", "r3", "r4") if x in kw] or [x for x in kw if x in LENGTHS])
        kw[k] = kw[k] * 10 ** rng.uniform(0.5, 4)
        return kw, kind, False
    if kind in ("tiny", "huge"):
        k = rng.choice([x for x in kw if x in LENGTHS])
        kw[k] = kw[k] * (1e-12 if kind == "tiny" else 1e12)
        return kw, kind, False
    if kind == "uw-eq-gw":
        kw["ground_width"] = kw["usable_width"]
        return kw, kind, False
    if kind == "too-few":
        import inspect
        required = [n for n, q in inspect.signature(_cls(cname).__init__).parameters.items()
                    if q.default is inspect.Parameter.empty and n in kw]
        drop = [k for k in subset] or required      # a defining value, or (single-subset classes) a required parameter
        k = rng.choice(drop)
        del kw[k]
        if k in FLANK and cname in ("FalseRoundGroove", "Oval3RadiiFlankedGroove"):
            # without any flank value these classes describe the flank-free groove (Round / Oval3Radii): realisable
            return kw, kind + ":no-flank", False
        # FlatOval's fixed `r1`, box `r1`... are positional-required: dropping them is a TypeError of python itself, still
        # a rejection.  A dropped defining value is unrealisable on its face.
        return kw, kind, True
    if kind == "too-many":
        extra = [k for s in subsets_of(cname) for k in s if k not in kw]
        if not extra:
            # single-subset classes: a keyword the signature does not know
            kw["ground_width_extra"] = 1.0
            return kw, kind + ":unknown-keyword", True
        k = rng.choice(sorted(set(extra)))
        kw[k] = vals[k] if rng.random() < 0.5 else vals[k] * rng.uniform(0.3, 3)    # consistent or contradictory surplus
        return kw, kind, True
    raise KeyError(kind)


# ---------------------------------------------------------------------------------------------------------
# construction (direct / through the factory), with the arguments of the generic constructor captured
# ---------------------------------------------------------------------------------------------------------
class Log:
    def __init__(self):
        self.generic_calls = []        # kwargs of every GenericElongationGroove.__init__ call (bound, incl. defaults)
        self.ribbed_solver_calls = []  # (kwargs, result | None) of the solver calls of EquivalentRibbedGroove.__init__


@contextlib.contextmanager
def instrumented(log):
    """wrap GenericElongationGroove.__init__ to record the arguments each class hands over; restored in `finally`"""
    import inspect
    from pyroll.core.grooves import GenericElongationGroove as G
    orig = G.__init__
    sig = inspect.signature(orig)

    def wrapper(self, *a, **k):
        try:
            ba = sig.bind(self, *a, **k)
            ba.apply_defaults()
            rec = {n: v for n, v in ba.arguments.items() if n not in ("self", "classifiers")}
        except TypeError:
            rec = None                  # python itself rejects the call below
        log.generic_calls.append(rec)
        return orig(self, *a, **k)

    wrapper.__signature__ = sig         # `optional_keywords` reads the signatures while the wrapper is installed
    # the root finder EquivalentRibbedGroove.__init__ asks (a module global of its file): arguments and answer
    import pyroll.core.grooves.equivalent_ripped_groove as RM
    solver_names = [n for n in vars(RM) if n.startswith("solve_") and callable(getattr(RM, n))]
    solvers = {n: getattr(RM, n) for n in solver_names}

    def recording(name, fn):
        def solve(*a, **k):
            rec = [name, dict(k) if not a else None, None]
            log.ribbed_solver_calls.append(rec)
            rec[2] = fn(*a, **k)
            return rec[2]
        return solve

    G.__init__ = wrapper
    for n, fn in solvers.items():
        setattr(RM, n, recording(n, fn))
    try:
        yield
    finally:
        G.__init__ = orig
        for n, fn in solvers.items():
            setattr(RM, n, fn)


def construct(cname, kwargs, log, via=None):
    """-> (groove | None, exception type name | None).  Exceptions raised inside pyroll/scipy/numpy (or by python binding
    the arguments of a pyroll constructor) are rejections; anything raised by the harness itself propagates."""
    log.generic_calls.clear()
    try:
        with warnings.catch_warnings():
            warnings.simplefilter("ignore")
            if via is None:
                return _cls(cname)(**kwargs), None
            import pyroll.core.grooves as G
            return G.create_groove_by_type_name(via, **kwargs), None
    except Exception as ex:
        tb = traceback.extract_tb(ex.__traceback__)
        if len(tb) <= 1 and not isinstance(ex, TypeError):
            raise                                   # raised by the harness itself: not a rejection
        if tb[-1].filename == __file__ and not isinstance(ex, TypeError):
            raise
        return None, type(ex).__name__


# ---------------------------------------------------------------------------------------------------------
# the independent oracle (from the property text)
# ---------------------------------------------------------------------------------------------------------
def expected_echo(cname, kwargs):
    """{attribute: value} every given constructor value must be reproduced as (angles after the unit conversion)"""
    out = {}
    deg = cname not in RADIANS
    for k, v in kwargs.items():
        if v is None or k in ("pad", "rel_pad", "rib_distance", "rib_width", "rib_angle", "classifiers"):
            continue
        if k in ("pad_angle", "flank_angle", "tip_angle"):
            out[k] = v * DEG if deg else v
        else:
            out[k] = v
    return out


def _segments_cross(P):
    """own test for a self-touching polyline (only used when the polyline is not z-monotone): any two non-adjacent
    segments share a point, or two adjacent ones overlap"""
    import numpy as np
    a, b = P[:-1], P[1:]
    n = len(a)

    def orient(p, q, r):
        return np.sign((q[..., 0] - p[..., 0]) * (r[..., 1] - p[..., 1]) - (q[..., 1] - p[..., 1]) * (r[..., 0] - p[..., 0]))

    for i in range(n):
        js = np.arange(i + 2, n)
        if len(js) == 0:
            continue
        p1, p2 = a[i], b[i]
        q1, q2 = a[js], b[js]
        o1, o2 = orient(p1, p2, q1), orient(p1, p2, q2)
        o3, o4 = orient(q1, q2, p1[None]), orient(q1, q2, p2[None])
        if ((o1 * o2 < 0) & (o3 * o4 < 0)).any():
            return True
    return False


def check_wellformed(ctx, cname, tag, kwargs, g, route, rp_extra=None):
    """the property on one RETURNED object; -> list of violation keys (also reported through ctx)"""
    import numpy as np
    replay = dict({"class": cname, "kwargs": kwargs, "via": route}, **(rp_extra or {}))
    bad = []

    def viol(key, what):
        bad.append(key)
        ctx.violation(key + ":" + cname, f"{tag}: {what}", replay)

    pts = np.asarray(g.contour_points, dtype=float)
    uw, depth, width = float(g.usable_width), float(g.depth), float(g.width)
    if pts.ndim != 2 or pts.shape[1] != 2 or len(pts) < 3:
        viol("shape", f"contour_points has shape {pts.shape}")
        return bad
    if not (np.isfinite(pts).all() and math.isfinite(uw) and math.isfinite(depth) and math.isfinite(width)):
        viol("non-finite", f"non-finite contour or dimension (usable_width={uw}, depth={depth}, width={width})")
        return bad
    z, y = pts[:, 0], pts[:, 1]
    size = max(float(np.abs(z).max()), float(np.abs(y).max()), abs(depth), 1e-300)
    # rounding allowance: 1e-7 x size (100 x the validator's relative tolerance) + cancellation in y = yc +- sqrt(r^2 - dz^2) for
    # an arc whose radius dwarfs the groove (absolute error of a few ulp(r))
    rmax = max([abs(float(getattr(g, k, 0.0) or 0.0)) for k in ("r1", "r2", "r3", "r4")] + [0.0])
    rnd = 8 * math.ulp(rmax) if math.isfinite(rmax) else 0.0
    eps = 1e-7 * size + rnd
    # mirror symmetry about the groove centre: the vertex list read backwards is its own mirror image, centre vertex on z = 0
    if len(pts) % 2 != 1 or not (np.array_equal(z, -z[::-1]) and np.array_equal(y, y[::-1])):
        viol("not-symmetric", "the contour is not mirror-symmetric about z = 0")
    # single-valued and strictly increasing in the width coordinate
    dz = np.diff(z)
    mono = bool((dz > 0).all())
    if not mono:
        i = int(np.argmin(dz))
        viol("z-not-increasing", f"z runs backwards/stalls between vertices {i} and {i + 1}: {z[i]} -> {z[i + 1]} "
             f"({int((dz <= 0).sum())} such steps)")
    # simple: implied by strict z-monotonicity (theorem zmonotone_simple); otherwise own segment test + GEOS
    if not mono and (_segments_cross(pts) or not g.contour_line.is_simple):
        viol("not-simple", "the contour line crosses itself")
    if mono and not g.contour_line.is_simple:
        viol("geos-not-simple", "GEOS reports a strictly z-monotone contour line as not simple")
    if list(g.contour_line.coords) != [tuple(p) for p in pts.tolist()]:
        viol("line-vs-points", "contour_line and contour_points differ")
    # never below the roll face
    if y.min() < -eps:
        i = int(np.argmin(y))
        viol("below-face", f"vertex {i} = ({z[i]}, {y[i]}) lies below the roll face y = 0")
    # deepest point inside the usable width = depth.  The face fillet r1 (between the flank and the face, tangent lengths
    # lt on both lines around the corner (usable_width/2, 0)) is not part of "inside": with an inclined face (pad angle)
    # it rises above a shallow ground although the groove is no deeper than `depth` (e.g. FlatGroove with r1 and a pad
    # angle).  lt is read off `width` (= 2 z1, z1 = usable_width/2 + lt cos(pad angle)).
    echo = expected_echo(cname, kwargs)
    p = echo.get("pad_angle", 0.0)
    fa = float(getattr(g, "flank_angle", NAN))
    lt = (width - uw) / 2 / math.cos(p) if math.isfinite(p) and math.cos(p) > 1e-6 else 0.0
    z3 = uw / 2 - (lt * math.cos(fa) if math.isfinite(fa) else 0.0)
    inside = np.abs(z) <= min(uw / 2, z3) + eps
    if inside.any():
        yi = np.where(inside, y, -np.inf)
        i = int(np.argmax(yi))
        top = float(yi[i])
        gap = max(z[i] - z[i - 1] if i > 0 else 0.0, z[i + 1] - z[i] if i + 1 < len(z) else 0.0)
        sag = abs(gap) / 9 + eps
        # a class that works out the constriction itself puts the apex at `depth` up to rounding.  The generic class takes
        # indent / r3 / r4 / alpha4 as they come (nothing ties `indent` to `(r3 + r4)(1 - cos alpha4)`) and states its own
        # notion of "at depth": apex within 0.1 % of `depth` (validation `test_contour_points`; the bound theorem
        # `construct_ok_wellformed` carries).  An overshoot inside that band is what the class promises, not a defect
        # (first seen: thorough run, `indent` 6 % below the apex condition on a groove 10 x deeper than its radii, + 0.029 %).
        over = eps + (1e-3 * abs(depth) if cname in RADIANS else 0.0)
        if top > depth + over:
            viol("deeper-than-depth", f"vertex {i} = ({z[i]}, {top}) is deeper than depth = {depth}")
        elif top < depth - sag - (1e-3 * abs(depth) if cname in RADIANS else 0.0):
            # the same band on the other side for the generic class (its validation is two-sided: apex within 0.1 % of `depth`;
            # first seen with the plug-in stream's perturbed over-determined parameter sets: apex 0.02 % short, quick seed 4)
            viol("depth-not-reached", f"the deepest vertex inside the usable width is {top}, depth = {depth} "
                 f"(discretisation allowance {sag})")
    else:
        viol("depth-not-reached", "no vertex inside the usable width")
    # meets the face at the usable width: the outermost vertex lies on the face line through (usable_width/2, 0) (inclined
    # by the pad angle), outside the usable width; the flank line through (usable_width/2, 0) touches the contour
    if math.isfinite(p):
        d0 = y[-1] * math.cos(p) - (z[-1] - uw / 2) * math.sin(p)
        if abs(d0) > eps or z[-1] < uw / 2 - eps:
            viol("face-missed", f"the outermost vertex ({z[-1]}, {y[-1]}) is {d0} off the face line through "
                 f"(usable_width/2, 0) = ({uw / 2}, 0)")
    if not (uw - eps <= width <= 2 * z[-1] + eps):
        viol("width", f"width = {width} is not between usable_width = {uw} and the contour's extent {2 * z[-1]}")
    if math.isfinite(fa) and depth > eps:
        sfa = max(abs(math.sin(fa)), 1e-3)
        if cname in RADIANS:
            tolf = 2e-3 * depth / sfa + eps
        else:
            # + np.isclose slack + cancellation: junctions 3/4 are sums of terms of the size of the largest radius (absolute
            # rounding error of a few ulp(rmax); only visible when a radius dwarfs the groove, e.g. r3 = 1e12 x width)
            tolf = (2e-6 if cname in ITERATIVE else 1e-9) / sfa ** 2 * size + (1e-8 + 1e-5 * size) + rnd
        right = pts[len(pts) // 2:]
        s = (right[:, 0] - uw / 2) * math.sin(fa) + right[:, 1] * math.cos(fa)      # signed distance to the flank line
        i = int(np.argmin(np.abs(s)))
        # The code drops a junction vertex when `np.isclose` finds the adjoining piece degenerate (no flank AND an r2 arc of
        # negligible extent): the polyline then passes the flank line between two samples of the fillet r1 (resp. of r2).  A
        # circle of radius r leaves its tangent by chord^2 / (2 r): discretisation allowance, only when junction 3/4 is absent.
        j3, j4 = (float(g.z3), float(g.y3)), (float(g.z4), float(g.y4))
        present = any(abs(right[:, 0] - j[0]).min() <= eps and np.hypot(right[:, 0] - j[0], right[:, 1] - j[1]).min() <= eps
                      for j in (j3, j4))
        if not present:
            cands = [math.hypot(right[i, 0] - j[0], right[i, 1] - j[1]) ** 2 / (2 * r) * 1.05
                     for j, r in ((j3, float(g.r1)), (j4, float(g.r2))) if r > 0]
            if cands:
                tolf += min(cands)
        # a flank of positive length is the straight piece between junction 3 and the next vertex towards the centre when that
        # is junction 4 (start of the sampled r2 arc): it must lie on the same line - neither a step up nor a step down
        d3 = np.hypot(right[:, 0] - j3[0], right[:, 1] - j3[1])
        i3 = int(np.argmin(d3))
        if d3[i3] <= eps and i3 >= 1 and abs(s[i3]) <= tolf and not abs(s[i3 - 1]) <= tolf \
                and math.hypot(right[i3 - 1, 0] - j4[0], right[i3 - 1, 1] - j4[1]) <= eps:
            viol("flank-step", f"the flank does not run along the flank line: the vertex after junction 3 towards the centre, "
                 f"({right[i3 - 1, 0]}, {right[i3 - 1, 1]}), is {float(s[i3 - 1])} off the line through (usable_width/2, 0) at the "
                 f"flank angle (allowance {tolf})")
        if not (abs(s[i]) <= tolf):
            viol("flank-misses-face", f"the flank line through (usable_width/2, 0) at the flank angle {fa} does not touch "
                 f"the contour (closest vertex {float(abs(s[i]))} away, allowance {tolf})")
    # cross-section polygon = the contour closed by the face
    try:
        area = float(g.cross_section.area)
        sho = 0.5 * abs(float(np.dot(z, np.roll(y, -1)) - np.dot(np.roll(z, -1), y)))
        if abs(area - sho) > 1e-9 * size * size:
            viol("cross-section", f"cross_section.area = {area}, shoelace area of contour_points = {sho}")
    except Exception as ex:
        if not any("pyroll" in f.filename or "shapely" in f.filename for f in traceback.extract_tb(ex.__traceback__)):
            raise
        viol("cross-section", f"cross_section raises {type(ex).__name__}")
    # requested dimensions echoed
    for k, v in echo.items():
        have = getattr(g, k, None)
        if k in ("flank_width", "flank_height", "flank_length"):
            fw, fh = g.z3 - g.z4, g.y4 - g.y3
            have = {"flank_width": fw, "flank_height": fh, "flank_length": math.copysign(math.hypot(fw, fh), fw)}[k]
            lim = (2e-6 / max(abs(math.sin(fa)), 1e-3) ** 2) * size + rnd
        elif k in ("r1", "r2", "r3", "r4", "indent"):
            lim = 0.0
        elif k == "depth" and cname in BOX_PLAIN + BOX_CONSTR:
            # the box-like classes hand (ground_width, usable_width, flank_angle) to the generic constructor, which
            # recomputes depth = (uw - gw)/2 tan(fa): rounding of the widths is amplified by tan(fa) (cancellation)
            t = abs(math.tan(fa))
            lim = 1e-9 * abs(v) + 8 * math.ulp(max(abs(uw), abs(float(g.ground_width)))) * t \
                + 8 * abs(v) * math.ulp(fa) * (t + 1 / max(t, 1e-300))
        else:
            lim = 1e-9 * max(abs(v), 1e-300)
        if have is None or not (abs(have - v) <= lim):
            viol("echo-" + k, f"requested {k} = {v!r}, the groove reports {have!r}")
    return bad


# ---------------------------------------------------------------------------------------------------------
# must-reject bookkeeping
# ---------------------------------------------------------------------------------------------------------
def family(cname):
    if cname in RADIANS:
        return "generic"
    if cname in BOX_PLAIN + BOX_CONSTR:
        return "box-like"
    if cname in R124_PLAIN + ["FalseRoundGroove", "FlatOvalGroove"]:
        return "r124"
    if cname in R123_PLAIN + ["Oval3RadiiFlankedGroove", "EquivalentRibbedGroove"]:
        return "r123"
    if cname == "ConstrictedCircularOvalGroove":
        return "r1234"
    if cname in ("DiamondGroove", "SquareGroove"):
        return "diamond"
    return "flat"


# ---------------------------------------------------------------------------------------------------------
# (K) the Lean model of the generic constructor / the factory's name normalisation vs the real code
# ---------------------------------------------------------------------------------------------------------
class Corr:
    def __init__(self, ctx, found):
        self.ctx = ctx
        self.found = found
        self.lines, self.expect = [], []

    # ---- GenericElongationGroove.__init__ ---------------------------------------------------------------
    def construct_case(self, cname, kwargs, rec, g, exc):
        """`rec`: the bound arguments of the generic constructor call; `g`: the object or None; `exc`: the exception"""
        from pyroll.core import Config
        args = {}
        for k, v in rec.items():
            if v is None:
                continue
            try:
                args[k] = float(v)
            except (TypeError, ValueError):
                return                                      # not a number: python's own TypeError territory
        simple = "1"
        want = None
        if exc is not None:
            want = self.classify(exc)
            if want == "skip":
                self.ctx.count("K:construct-skipped:" + type(exc).__name__)
                self.ctx.notes.setdefault("K_skipped", {}).setdefault(type(exc).__name__ + ": " + str(exc)[:80], kwargs)
                return
            if want == "simple":
                simple = "0"
        n = int(Config.GROOVE_RADIUS_POINT_COUNT)
        cfg = {"Config.GROOVE_PADDING": float(Config.GROOVE_PADDING), "Config.GROOVE_RADIUS_POINT_COUNT": float(n)}
        self.lines.append(f"construct {simple} {n} cfg " + " ".join(f"{k}={stub.bits(v)}" for k, v in cfg.items())
                          + " args " + " ".join(f"{k}={stub.bits(v)}" for k, v in args.items()))
        self.expect.append(("construct", cname, kwargs, args, g, want))

    def classify(self, exc):
        """python exception raised by the generic constructor -> the model's error ('negative', 'bound', 'arity',
        'check:<i>', 'simple' (= the is_simple check), 'geometry' (raised by shapely/GEOS while building the line),
        'skip' (not comparable))"""
        tb = traceback.extract_tb(exc.__traceback__)
        rl = self.found["raise_lines"]
        gen = [f for f in tb if f.filename.endswith(os.path.join("grooves", "generic_elongation.py"))]
        if not gen:
            return "skip"
        last = tb[-1]
        if not last.filename.endswith(os.path.join("grooves", "generic_elongation.py")):
            if "shapely" in last.filename or "numpy" in last.filename:
                return "geometry"
            return "skip"
        for i, (m, ln) in enumerate(self.found["check_lines"]):
            if last.name == m and last.lineno == ln:
                return "simple" if self.found["checks"][i][0] == "simple" else f"check:{i}"
        if last.name == "__init__":
            if last.lineno in rl["negative"]:
                return "negative"
            if last.lineno in rl["bound"]:
                return "bound"
            if last.lineno in rl["arity"]:
                return "arity"
            if isinstance(exc, TypeError):
                return "arity"               # arithmetic on a None that the resolution left behind
            if isinstance(exc, ZeroDivisionError):
                return "skip"                # python floats raise where IEEE gives inf (the model follows IEEE)
        if isinstance(exc, ValueError) and last.name in [m for m, _ in self.found["check_lines"]]:
            return "empty"                   # np.max of an empty selection
        return "skip"

    # ---- create_groove_by_type_name --------------------------------------------------------------------
    def name_case(self, name, resolved):
        """`resolved`: class name the real factory built, or None if it raised 'No groove class named'"""
        if not name.isascii():
            return
        enc = ",".join(str(ord(c)) for c in name) or "-"
        self.lines.append("name " + enc)
        self.expect.append(("name", name, resolved))

    # ---- EquivalentRibbedGroove.__init__ ------------------------------------------------------------------
    def ribbed_case(self, kwargs, log, g, exc):
        """the generated table of `EquivalentRibbedGroove.__init__` (op `ribbed`) vs one real call: does the `validated`
        decorator raise, the keyword arguments of the solver call, the arguments handed to the generic constructor"""
        rb = self.found.get("ribbed")
        if not rb or not rb["superArgs"]:
            return
        named = [n for n, _ in rb["params"]]
        if any(req and kwargs.get(n) is None for n, req in rb["params"]):
            return                                          # python's own TypeError (missing argument) / arithmetic on None
        given, kw = {}, {}
        for k, v in kwargs.items():
            if v is None:
                continue
            if isinstance(v, bool) or not isinstance(v, (int, float)):
                return
            (given if k in named else kw)[k] = float(v)
        given.setdefault("pad_angle", 0.0)                  # the only numeric default of the signature
        solver = [c for c in log.ribbed_solver_calls if c[0] == rb["solver"]]
        sol = {}
        if solver and isinstance(solver[-1][2], dict):
            sol = {"sol." + k: float(v) for k, v in solver[-1][2].items() if isinstance(v, (int, float))}
        decorator_raised = False
        if exc is not None:
            tb = traceback.extract_tb(exc.__traceback__)
            inside = any(f.filename.endswith("equivalent_ripped_groove.py") for f in tb)
            # the constructor's own decorator (the solver is decorated as well: that one raises from inside the constructor)
            decorator_raised = tb[-1].filename.endswith("_validation.py") and not inside
            if not inside and not decorator_raised:
                return                                      # raised before the constructor ran (binding)
        enc = lambda d: " ".join(f"{k}={stub.bits(v)}" for k, v in d.items())
        self.lines.append(f"ribbed given {enc(given)} sol {enc(sol)} kw {enc(kw)}")
        generic = log.generic_calls[-1] if log.generic_calls else None
        self.expect.append(("ribbed", kwargs, decorator_raised, solver[-1][1] if solver else None, generic, bool(sol)))

    def lookup_case(self, name, pkg, modules, real):
        """`pkg`, `modules`: the namespaces as `label:attr=kind,…` (see GrooveWFDriver); `real`: `called <owner>/<name>` | `notfound`"""
        enc = ",".join(str(ord(c)) for c in name) or "-"
        self.lines.append(" ".join(["lookup", enc, pkg, pkg] + list(modules)))
        self.expect.append(("lookup", name, modules, real))

    def spline_case(self, ndim, rows, accepted):
        enc = ";".join(",".join(str(stub.bits(float(v))) for v in r) or "-" for r in rows) or "-"
        self.lines.append(f"spline {ndim} {enc}")
        self.expect.append(("spline", ndim, rows, accepted))

    def flush(self):
        import numpy as np
        ctx = self.ctx
        if not self.lines:
            return
        out = ctx.lean_model(MODEL, self.lines)
        if len(out) != len(self.lines):
            raise RuntimeError(f"model driver answered {len(out)} lines for {len(self.lines)} requests")
        for line, ans, exp in zip(self.lines, out, self.expect):
            if ans == "bad-op":
                raise RuntimeError("model driver rejected the request: " + line[:200])
            if exp[0] == "name":
                _, name, resolved = exp
                got = ans.split(" ")[1]
                if got != (resolved or "-"):
                    ctx.disagreement(f"factory name {name!r}: the real factory resolves to {resolved}, the model to {got}",
                                     {"name": name})
                else:
                    ctx.validated()
                continue
            if exp[0] == "ribbed":
                _, kwargs, decorator_raised, solver_kw, generic, have_sol = exp
                rp = {"class": "EquivalentRibbedGroove", "kwargs": kwargs}
                verdict, rest = ans.split(" ", 1)
                margs, msolver = [dict((t.split("=")[0], stub.unbits(t.split("=")[1])) for t in part.split(" ") if "=" in t)
                                  for part in rest.split(" | ")]
                same = lambda a, b: (a != a and b != b) or a == b or abs(a - b) <= 1e-9 * max(abs(a), abs(b))
                bad = None
                if (verdict == "rejected") != decorator_raised:
                    bad = f"the `validated` decorator {'raises' if decorator_raised else 'passes'}, the model says {verdict}"
                elif not decorator_raised:
                    if solver_kw is not None:
                        if set(solver_kw) != set(msolver):
                            bad = f"solver called with {sorted(solver_kw)}, the model's call has {sorted(msolver)}"
                        else:
                            bad = next((f"solver argument {k}: real {float(solver_kw[k])!r}, model {msolver[k]!r}" for k in msolver
                                        if not same(float(solver_kw[k]), msolver[k])), None)
                    if bad is None and generic is not None and have_sol:
                        bad = next((f"argument {k} of the generic constructor: real {generic.get(k)!r}, model {v!r}"
                                    for k, v in margs.items() if generic.get(k) is None or not same(float(generic[k]), v)), None)
                if bad:
                    ctx.disagreement("EquivalentRibbedGroove: " + bad, rp)
                else:
                    ctx.validated()
                    ctx.count("K:ribbed:" + ("decorator-raised" if decorator_raised else "handed-over" if generic is not None
                                             and have_sol else "solver-only"))
                continue
            if exp[0] == "lookup":
                _, name, modules, real = exp
                if ans != real:
                    ctx.disagreement(f"factory lookup of {name!r} with the modules {modules}: the real factory: {real}, the "
                                     f"generated statement list: {ans}", {"lookup": name, "modules": modules})
                else:
                    ctx.validated()
                continue
            if exp[0] == "spline":
                _, ndim, rows, accepted = exp
                if (ans == "1") != accepted:
                    ctx.disagreement(f"SplineGroove shape checks: real {'accepts' if accepted else 'rejects'}, model says {ans}",
                                     {"ndim": ndim, "rows": rows})
                else:
                    ctx.validated()
                continue
            _, cname, kwargs, args, g, want = exp
            rp = {"class": cname, "kwargs": kwargs, "generic_args": args}
            if ans.startswith("err "):
                kind = ans[4:]
                if g is not None:
                    ctx.disagreement(f"{cname}: the real constructor accepts, the model rejects with {kind}", rp)
                elif want == "geometry":
                    if not kind.startswith("check:"):
                        ctx.disagreement(f"{cname}: shapely raised while building the line, the model rejects with {kind}", rp)
                    else:
                        ctx.validated()
                elif want == "simple":
                    i = int(kind.split(":")[1]) if kind.startswith("check:") else -1
                    if i < 0 or self.found["checks"][i][0] != "simple":
                        ctx.disagreement(f"{cname}: real: is_simple check raised; model: {kind}", rp)
                    else:
                        ctx.validated()
                elif kind != want:
                    ctx.disagreement(f"{cname}: the real constructor raised what corresponds to `{want}`, the model `{kind}`", rp)
                else:
                    ctx.validated()
                continue
            if g is None:
                ctx.disagreement(f"{cname}: the real constructor rejects ({want}), the model accepts", rp)
                continue
            head, js, env = ans[3:].split(" | ")
            toks = head.split(" ")
            n = int(toks[0])
            pts = np.asarray(g.contour_points, dtype=float)
            mp = np.array([stub.unbits(t) for t in toks[1:]], dtype=float).reshape(-1, 2) if n else np.zeros((0, 2))
            size = max(float(np.abs(pts).max()), 1e-300)
            if mp.shape != pts.shape:
                ctx.disagreement(f"{cname}: contour has {len(pts)} vertices, the model's {len(mp)}", rp)
                continue
            d = float(np.abs(mp - pts).max())
            if not d <= 1e-9 * size:
                i = int(np.argmax(np.abs(mp - pts).max(axis=1)))
                ctx.disagreement(f"{cname}: contour vertex {i}: real {pts[i].tolist()}, model {mp[i].tolist()}", rp)
                continue
            bad = None
            for t in js.split(" "):
                k, v = t.split("=")
                have = getattr(g, k, None)
                if have is None:
                    continue
                mv = stub.unbits(v)
                if not abs(float(have) - mv) <= 1e-9 * size + 1e-12 * abs(mv):
                    bad = f"junction {k}: real {float(have)!r}, model {mv!r}"
            for t in env.split(" "):
                k, v = t.split("=")
                if k in ("usable_width", "ground_width", "flank_angle", "depth"):
                    have, mv = float(getattr(g, k)), stub.unbits(v)
                    if not abs(have - mv) <= 1e-9 * max(abs(mv), size * (k != "flank_angle")):
                        bad = f"resolved {k}: real {have!r}, model {mv!r}"
            if bad:
                ctx.disagreement(f"{cname}: {bad}", rp)
            else:
                ctx.validated()
        self.lines, self.expect = [], []


# ---------------------------------------------------------------------------------------------------------
# one case
# ---------------------------------------------------------------------------------------------------------
def run_case(ctx, corr, log, cname, subset, kwargs, stream, must_reject, via=None, kind=None, world=None, target=None,
             expect=None):
    """one constructor call + the oracle on what comes back.

    Requests made while harness-defined modules are loaded (`plugin_world`) carry `world` (the replayable description of
    those modules), `target` = ("core", <class name>) | ("extension", <class name>) - what the type name `via` spells - and
    `expect` = the class object(s) the documented lookup admits: for a core name THE class of `pyroll.core.grooves` ("the
    former take precedence"), for a new name the harness classes of that name.  `cname` is then the core class the
    requested dimensions are drawn for (= the base of an extension class)."""
    tag = cname + ":" + "+".join(subset) + (":factory" if via else "")
    canon = [cname, list(subset), via is not None, stream,
             sorted((k, float("%.6g" % v) if isinstance(v, float) and math.isfinite(v) else str(v)) for k, v in kwargs.items())]
    rp_extra = {}
    if world is not None:
        canon.append([via, list(target), world])
        rp_extra = {"world": world, "target": list(target)}
        tag += f":{target[0]}:{target[1]}"
    exc_holder = []
    g, err = construct_capture(cname, kwargs, log, via, exc_holder)
    ctx.count(f"stream:{stream}:" + ("constructed" if g is not None else "rejected"))
    if ctx.model_available and log.generic_calls and log.generic_calls[-1] is not None:
        corr.construct_case(cname, kwargs, log.generic_calls[-1], g, exc_holder[0] if exc_holder else None)
    if ctx.model_available and cname == "EquivalentRibbedGroove":
        corr.ribbed_case(kwargs, log, g, exc_holder[0] if exc_holder else None)
    not_found = bool(exc_holder) and isinstance(exc_holder[0], ValueError) and "No groove class named" in str(exc_holder[0])
    if via is not None and ctx.model_available and world is None:
        corr.name_case(via, None if (err == "ValueError" and exc_holder and "No groove class named" in str(exc_holder[0]))
                       else cname)
    if world is not None:
        ctx.count(f"plugin:{target[0]}:{kind}:" + ("not-found" if not_found else "rejected" if g is None else "constructed"))
    if g is None:
        ctx.case(canon, nontrivial=must_reject or (world is not None and not_found))
        ctx.count("rejected-with:" + err)
        if via is not None and not_found and (target is None or target[0] == "core"):
            ctx.violation("factory-name:" + kind, f"create_groove_by_type_name({via!r}) does not find {cname} although the "
                          f"spelling is documented ({kind}): {exc_holder[0]}",
                          dict({"class": cname, "via": via, "kwargs": kwargs, "kind": kind}, **rp_extra))
        elif via is not None and not_found and kind == "words":
            # docstring: "Supports all grooves from the pyroll.core.grooves namespace as well as from all currently loaded
            # modules", type name "with words separated by spaces, dashes or underscores"
            ctx.violation("factory-extension:" + kind, f"create_groove_by_type_name({via!r}) does not find the groove class "
                          f"{target[1]} of a loaded module ({tag}): {exc_holder[0]}",
                          dict({"class": cname, "via": via, "kwargs": kwargs, "kind": kind}, **rp_extra))
        elif via is not None and not_found:
            # the EXACT class name of an extension class (`KeyholeGroove`): `title()` lower-cases its tail, the factory looks
            # for `KeyholegrooveGroove`.  The exact-name shortcut of the factory covers the package's own classes only; C03
            # quantifies over the classes of the public API: counted, reported in notes/C03.md, no violation.
            ctx.count("plugin:extension-exact-name-not-found")
        return None
    ctx.case(canon)
    ctx.count("constructed:" + tag.replace(":factory", ""))
    if via is not None and expect is None and type(g).__name__ != cname:
        ctx.violation("factory-class", f"create_groove_by_type_name({via!r}) built a {type(g).__name__}, expected {cname}",
                      {"class": cname, "via": via, "kwargs": kwargs})
    if expect is not None and not any(type(g) is c for c in expect):
        got = f"{type(g).__module__}.{type(g).__qualname__}"
        if target[0] == "core":
            # docstring: grooves of the pyroll.core.grooves namespace take precedence over those of other loaded modules
            ctx.violation("factory-precedence:" + kind, f"create_groove_by_type_name({via!r}) handed out a {got} although "
                          f"pyroll.core.grooves has a class {target[1]} ({tag})",
                          dict({"class": cname, "via": via, "kwargs": kwargs, "kind": kind}, **rp_extra))
        else:
            ctx.violation("factory-extension-class:" + kind, f"create_groove_by_type_name({via!r}) handed out a {got}, the "
                          f"type name spells {target[1]} ({tag})",
                          dict({"class": cname, "via": via, "kwargs": kwargs, "kind": kind}, **rp_extra))
    if must_reject:
        k = stream.split(":")[1]
        ctx.violation(f"accepted:{k}:{family(cname)}", f"{tag}: input that is unrealisable on its face ({stream}) was accepted",
                      dict({"class": cname, "kwargs": kwargs, "via": via, "stream": stream, "must_reject": True}, **rp_extra))
    check_wellformed(ctx, cname, tag, kwargs, g, via, rp_extra)
    if len(ctx.samples) < 3:
        ctx.sample({"class": cname, "kwargs": kwargs, "via": via, "vertices": len(g.contour_points)})
    return g


def construct_capture(cname, kwargs, log, via, holder):
    """construct(), additionally handing back the exception object (for the traceback-based classification)"""
    log.generic_calls.clear()
    log.ribbed_solver_calls.clear()
    try:
        with warnings.catch_warnings():
            warnings.simplefilter("ignore")
            if via is None:
                return _cls(cname)(**kwargs), None
            import pyroll.core.grooves as G
            return G.create_groove_by_type_name(via, **kwargs), None
    except Exception as ex:
        tb = traceback.extract_tb(ex.__traceback__)
        inside = any(os.sep + "pyroll" + os.sep in f.filename or "site-packages" in f.filename for f in tb[1:])
        if not inside and not (isinstance(ex, TypeError) and len(tb) <= 2):
            raise                                   # raised by the harness itself: not a rejection
        holder.append(ex)
        return None, type(ex).__name__


def _rel_pad():
    from pyroll.core import Config
    return float(Config.GROOVE_PADDING)


# past failures / design probes, run first: (class, kwargs, must_reject, stream)
CORPUS = [
    ("FalseRoundGroove", dict(r1=1.685, r2=27.84, depth=3.224, flank_angle=74.2), False, "corpus"),      # DESIGN F7 probe
    ("UpsetOvalGroove", dict(r1=0.15454456711676287, r2=1.680207357337541, r3=1.0538033462193825,
                             depth=0.2946666044803175, usable_width=1.5960243604546456, pad_angle=0.0), False, "corpus"),
    ("UpsetOvalGroove", dict(r1=0.016380745046609083, r2=0.1372446407160309, r3=0.060057380014384966,
                             depth=0.01643621243980193, usable_width=0.11181909976728459, pad_angle=45.0), False, "corpus"),
    ("BoxGroove", dict(r1=1.0, r2=2.0, depth=5.0, usable_width=20.0, flank_angle=90.0), True, "infeasible:undercut"),
    ("BoxGroove", dict(r1=3.000260226626806, r2=4.943509902924604, depth=11.195847744930969, pad_angle=45.0,
                       usable_width=46.52690933409335, even_ground_width=35.84255490304386), False, "corpus"),
    ("Oval3RadiiGroove", dict(r1=0.010527025570180995, r2=0.04673257580852499, r3=0.5990928253614042,
                              depth=0.025905704446608238, usable_width=0.2752539342912075, pad_angle=45.0), False, "corpus"),
    # generic class: depth and indent shifted together leave the contour unchanged but not its deepest point
    ("GenericElongationGroove", dict(r1=0.08213248216079745, r2=0.39973738858580515, r3=2.1210003942982705,
                                     alpha3=0.7321329529035242, even_ground_width=0.916032694296796,
                                     pad_angle=0.5235987755982988, r4=1.1597221765139736, alpha4=0.2513556257840151,
                                     indent=0.051546476276318566, usable_width=4.888236711652192,
                                     flank_angle=0.8015131761142567, depth=0.3550276495618566), False, "corpus"),
    ("FlatGroove", dict(usable_width=1.293528410974634, pad_angle=30.0, r1=0.11161488633415306), False, "corpus"),
    ("RoundGroove", dict(r1=2.0, r2=15.8, depth=7.65), False, "corpus"),
    ("SwedishOvalGroove", dict(r1=6.0, r2=26.0, depth=17.0, pad_angle=30.0, usable_width=80.0, even_ground_width=20.0),
     False, "corpus"),
    ("GenericElongationGroove", dict(r1=-1e-3, r2=1e-3, flank_angle=1e-3, usable_width=1e-3, depth=1e-3), True,
     "infeasible:negative"),
    ("GenericElongationGroove", dict(r1=1e-3, r2=1e-3, flank_angle=1e-3, usable_width=1e-3, ground_width=1e-3, depth=1e-3),
     True, "infeasible:too-many"),
]

FACTORY_CORPUS = [("RoundGroove", "round", "words"), ("RoundGroove", "RoundGroove", "exact"),
                  ("FalseRoundGroove", "FalseRoundGroove", "exact"), ("FalseRoundGroove", "false round groove", "words"),
                  ("Oval3RadiiGroove", "oval_3_radii", "words"), ("Oval3RadiiGroove", "Oval3RadiiGroove", "exact"),
                  ("CircularOvalGroove", "circular-oval", "words"), ("CircularOvalGroove", "CIRCULAR__OVAL", "words"),
                  ("SwedishOvalGroove", "swedish-oval groove", "words")]

ADVERSARIAL_NAMES = ["false_round_", "_false_round", "false_round__", " false round", "false round ", "false..round",
                     "false-_round", "false\tround", "round groove", "roundgroove", "Roundgroove", "round_Groove",
                     "oval3radii", "oval 3radii", "3", "", "_", "__", "groove", "Groove", "x_-", "a.b.c", "upset  box"]


def _extracted(ctx):
    found = getattr(ctx, "c03", None)
    if found is None:                       # extended search re-enters run() on a fresh ctx without translate()
        from ..translate import c03_validate as T
        from ..translate import c03_ribbed as TR
        found = T.extract_all()
        found["ribbed"] = TR.extract()
    return found


def translate(ctx):
    from ..translate import c03_validate as T
    from ..translate import c03_factory as TF
    from ..translate import c03_ribbed as TR
    ctx.c03 = T.emit(ctx, ID)
    ctx.c03["factory_steps"] = TF.emit(ctx, ID)          # the lookup order of the factory -> Gen/C03Factory.lean
    ctx.c03["ribbed"] = TR.emit(ctx, ID)                 # EquivalentRibbedGroove.__init__ -> Gen/C03Ribbed.lean


def _name_stream(ctx, corr, n):
    """the factory's normalisation on arbitrary ASCII names: real lookup result vs the model"""
    import pyroll.core.grooves as G
    rng = ctx.rng
    alphabet = "abRG_-. \tox3"
    pieces = ["round", "Round", "false", "oval", "groove", "Groove", "box", "3", "radii", "upset", "flat"]
    names = list(ADVERSARIAL_NAMES)
    for c in ALL_CLASSES + ["SplineGroove", "GrooveBase"]:
        for _ in range(3 if n else 0):
            nm = spelling(rng, c)[0]
            names.append(nm)
            if nm and rng.random() < 0.5:               # one edit: dropped / doubled / replaced character
                i = rng.randrange(len(nm))
                names.append(rng.choice([nm[:i] + nm[i + 1:], nm[:i] + nm[i] + nm[i:], nm[:i] + rng.choice(alphabet) + nm[i + 1:],
                                         nm + rng.choice("_ -."), rng.choice("_ -.") + nm]))
    for _ in range(n):
        if rng.random() < 0.5:
            names.append("".join(rng.choice(alphabet) for _ in range(rng.randint(0, 8))))
        else:
            names.append("".join(rng.choice(pieces) + rng.choice(["", "_", " ", "-", ".", "__", "_ ", " _", "_."])
                                 for _ in range(rng.randint(1, 3))))
    class _Found(Exception):
        pass

    def _stub(cname):                       # which class does the factory instantiate?  (no constructor runs)
        def new(cls, *a, **k):
            raise _Found(cname)
        return type(cname, (G.GrooveBase,), {"__new__": new})

    saved = {c: getattr(G, c) for c in G.__all__ if isinstance(getattr(G, c), type)}
    for c in saved:
        setattr(G, c, _stub(c))
    try:
        for name in names:
            try:
                G.create_groove_by_type_name(name)
                resolved = "?"
            except _Found as f:
                resolved = str(f)
            except ValueError as ex:
                resolved = None if "No groove class named" in str(ex) else "?"
            except TypeError:
                resolved = "?"              # found something that is not a groove class (e.g. a module attribute)
            if resolved == "?":
                ctx.count("K:name-skipped")
                continue
            if resolved is not None and not hasattr(G, resolved):
                ctx.count("K:name-foreign-module")    # found in another loaded module (outside the model's class table)
                continue
            ctx.case(["name", name])
            ctx.count("name:" + ("resolved" if resolved else "unknown"))
            corr.name_case(name, resolved)
    finally:
        for c, v in saved.items():
            setattr(G, c, v)


# ---------------------------------------------------------------------------------------------------------
# the by-name factory in the presence of user-defined groove classes (modules loaded after pyroll.core)
# ---------------------------------------------------------------------------------------------------------
# docstring of create_groove_by_type_name: "Supports all grooves from the pyroll.core.grooves namespace as well as from all
# currently loaded modules.  The former take precedence."  A world = a few modules registered in sys.modules for the duration
# of the requests; each defines GrooveBase subclasses
#   * under a name the core also uses ("collide"): a subclass of that core class which behaves the same ("same"), reads its
#     lengths in another unit ("scale": every length argument x factor), or is a different groove altogether ("other": ignores
#     its arguments, a flat groove of width 1) - legitimate user code, reachable as <module>.<Name>, which must not change
#     what the factory hands out for the core's type name in any documented spelling;
#   * under a new name ("new"): a pass-through subclass of a random core class - the extension mechanism.
PLUGIN_PREFIX = "c03_plugin_"
NEW_WORDS = ["keyhole", "plant", "tee", "rail", "beam", "angle", "slit", "edger", "leader", "strand", "web", "flange", "bulb",
             "cross", "double", "half", "open", "closed", "diagonal", "bastard", "round", "oval", "box", "flat", "false", "upset",
             "swedish", "gothic", "square"]
UNIT_FACTORS = [25.4, 1 / 25.4, 1e-3, 1e3, 0.5, 2.0]


def new_class_name(rng, taken):
    """a CamelCase class name `…Groove` of 1-3 words (optionally a digit word, not in front) that nobody uses yet"""
    while True:
        ws = [rng.choice(NEW_WORDS) for _ in range(rng.choice([1, 1, 2, 2, 3]))]
        if rng.random() < 0.25:
            ws.insert(rng.randint(1, len(ws)), str(rng.randint(2, 9)))
        name = "".join(w.capitalize() for w in ws) + "Groove"
        if name not in taken:
            return name


def draw_world(rng, focus):
    """-> [{"module": name, "classes": [{"name", "base", "mode", "factor"}]}], in load order (all after pyroll.core)"""
    import pyroll.core.grooves as G
    taken = set(dir(G))
    mods = []
    for i in range(rng.choice([1, 1, 2, 3])):
        classes = {}
        for _ in range(rng.choice([1, 2, 2, 3])):
            if rng.random() < 0.55:
                name = focus if rng.random() < 0.6 else rng.choice(ALL_CLASSES)
                spec = dict(name=name, base=name, mode=rng.choice(["same", "scale", "scale", "other"]),
                            factor=rng.choice(UNIT_FACTORS))
            else:
                earlier = [c["name"] for m in mods for c in m["classes"] if c["kind"] == "new"]
                name = rng.choice(earlier) if earlier and rng.random() < 0.2 else new_class_name(rng, taken)
                spec = dict(name=name, base=rng.choice(ALL_CLASSES), mode="same", factor=1.0)
            spec["kind"] = "collide" if spec["name"] in ALL_CLASSES else "new"
            classes.setdefault(spec["name"], spec)
        mods.append({"module": f"{PLUGIN_PREFIX}{i}", "classes": list(classes.values())})
    return mods


def _plugin_class(G, modname, spec):
    base = getattr(G, spec["base"])
    ns = {"__module__": modname, "__doc__": f"harness-defined groove class ({spec['mode']}) of the C03 check"}
    if spec["mode"] == "scale":
        f = float(spec["factor"])

        def __init__(self, *a, **kw):
            base.__init__(self, *a, **{k: (v * f if k in LENGTHS and isinstance(v, (int, float)) else v) for k, v in kw.items()})
        ns["__init__"] = __init__
    elif spec["mode"] == "other":
        base = G.FlatGroove

        def __init__(self, *a, **kw):
            G.FlatGroove.__init__(self, usable_width=1.0)
        ns["__init__"] = __init__
    elif spec["mode"] != "same":
        raise KeyError(spec["mode"])
    return type(spec["name"], (base,), ns)


@contextlib.contextmanager
def plugin_world(world):
    """register the modules of `world` in sys.modules (after everything that is loaded, pyroll.core included); yields
    {class name: [class objects, in load order]}; the modules are removed again and emptied in `finally` (the classes
    themselves disappear from the subclass registries of their bases with the next garbage collection, `collect_plugins`)"""
    import sys
    import types
    import pyroll.core.grooves as G
    made, by_name = [], {}
    try:
        for m in world:
            if m["module"] in sys.modules:
                raise RuntimeError(f"module name {m['module']} is in use")
            mod = types.ModuleType(m["module"])
            for spec in m["classes"]:
                c = _plugin_class(G, m["module"], spec)
                setattr(mod, spec["name"], c)
                by_name.setdefault(spec["name"], []).append(c)
            sys.modules[m["module"]] = mod
            made.append(mod)
        yield by_name
    finally:
        for mod in made:
            sys.modules.pop(mod.__name__, None)
            mod.__dict__.clear()
        by_name.clear()


def collect_plugins(ctx):
    """after the last reference to harness-defined classes is gone: collect them and report what is still registered"""
    import gc
    import sys
    import pyroll.core.grooves as G
    gc.collect()

    def subclasses(c):
        for d in c.__subclasses__():
            yield d
            yield from subclasses(d)
    left = sorted({f"{c.__module__}.{c.__name__}" for c in subclasses(G.GrooveBase) if c.__module__.startswith(PLUGIN_PREFIX)})
    mods = sorted(m for m in sys.modules if m.startswith(PLUGIN_PREFIX))
    if mods:
        raise RuntimeError(f"harness modules left in sys.modules: {mods}")
    ctx.notes["plugin_classes_left_after_cleanup"] = left[:10]


# a plant-specific module re-using two class names of the core for grooves dimensioned in inches + a new type, and a
# second module loaded later that defines the new type again and another class of a core name that behaves the same
PLUGIN_CORPUS = [
    ("RoundGroove",
     [{"module": PLUGIN_PREFIX + "0", "classes": [
         {"name": "RoundGroove", "base": "RoundGroove", "mode": "scale", "factor": 25.4, "kind": "collide"},
         {"name": "BoxGroove", "base": "BoxGroove", "mode": "scale", "factor": 25.4, "kind": "collide"},
         {"name": "KeyholeGroove", "base": "RoundGroove", "mode": "same", "factor": 1.0, "kind": "new"}]},
      {"module": PLUGIN_PREFIX + "1", "classes": [
          {"name": "KeyholeGroove", "base": "CircularOvalGroove", "mode": "same", "factor": 1.0, "kind": "new"},
          {"name": "FlatGroove", "base": "FlatGroove", "mode": "same", "factor": 1.0, "kind": "collide"},
          {"name": "Tee2SlitGroove", "base": "BoxGroove", "mode": "same", "factor": 1.0, "kind": "new"}]}]),
]


def world_requests(rng, world, focus, corpus=False):
    """-> [(target, class to draw dimensions for, type name, kind)]: every class name the world defines + the focus class,
    each under two documented spellings (one of them with separated words)"""
    targets = [("core", focus, focus)]
    for m in world:
        for c in m["classes"]:
            t = ("core", c["name"], c["name"]) if c["kind"] == "collide" else ("extension", c["name"], c["base"])
            if t not in targets:
                targets.append(t)
    out = []
    for (tt, name, base) in targets:
        sp = [spelling(rng, name)]
        while True:
            w = spelling(rng, name)
            if w[1] == "words":
                sp.append(w)
                break
        if corpus:
            sp.append((name, "exact"))
        for via, kind in sp:
            out.append(((tt, name), base, via, kind))
    return out


def _plugin_stream(ctx, corr, log, n_worlds, only=None):
    """oracle (+ K on every generic constructor call) for the by-name factory while harness-defined modules are loaded"""
    rng = ctx.rng
    jobs = []
    if only is not None:
        jobs = [only]
    else:
        for focus, world in PLUGIN_CORPUS:
            jobs.append((world, None, focus, True))
        for _ in range(n_worlds):
            focus = rng.choice(ALL_CLASSES)
            jobs.append((draw_world(rng, focus), None, focus, False))
    try:
        for world, requests, focus, corpus in jobs:
            core = {c: _cls(c) for c in ALL_CLASSES}                  # the classes of the public API, before anything is loaded
            with plugin_world(world) as by_name:
                if requests is None:
                    requests = []
                    for target, base, via, kind in world_requests(rng, world, focus, corpus):
                        subset = rng.choice(subsets_of(base))
                        fixed, vals, info = draw(rng, base)
                        kw = dict(fixed, **{k: vals[k] for k in subset})
                        stream = "feasible"
                        if rng.random() < 0.2:
                            kw, stream = perturb(rng, kw), "perturbed"
                        requests.append((target, base, subset, kw, stream, via, kind))
                ctx.count("plugin:worlds")
                for target, base, subset, kw, stream, via, kind in requests:
                    expect = [core[target[1]]] if target[0] == "core" else list(by_name.get(target[1], []))
                    run_case(ctx, corr, log, base, subset, kw, stream, False, via=via, kind=kind, world=world,
                             target=target, expect=expect)
                expect = None
    finally:
        if ctx.model_available:
            corr.flush()                # the expectations hold groove objects, i.e. references to the harness classes
        collect_plugins(ctx)


class _Found(Exception):
    pass


def _lookup_stream(ctx, corr, n_worlds):
    """(K) the generated statement list of the factory (`Gen.C03Factory.steps`, run by the Lean driver's `lookup`) vs the
    real function, on worlds of STUB objects (no constructor runs): the package's exported classes are replaced by stub
    groove classes, 1-3 stub modules are loaded that bind core names and new names to stub groove classes, to other truthy
    objects (a function), to falsy objects, or to the package's own class (`from pyroll.core import RoundGroove`); now and
    then the package itself gets an additional binding.  Every stub raises `_Found(<owner>/<name>)` when called."""
    import sys
    import types
    import pyroll.core.grooves as G
    rng = ctx.rng

    def stub_class(ident, name):
        def new(cls, *a, **k):
            raise _Found(ident)
        return type(name, (G.GrooveBase,), {"__new__": new})

    def stub_other(ident):
        def f(*a, **k):
            raise _Found(ident)
        return f

    def make(kind, ident, name):
        return stub_class(ident, name) if kind == "g" else stub_other(ident) if kind == "t" else rng.choice([0, "", ()])

    exported = [c for c in G.__all__ if isinstance(getattr(G, c), type)]
    saved = {c: getattr(G, c) for c in exported}
    for c in exported:
        setattr(G, c, stub_class("pkg/" + c, c))
    extras, mods = [], []
    try:
        for _ in range(n_worlds):
            taken = set(dir(G))
            names = []
            # ---- an additional binding in the package itself
            for c in extras:
                delattr(G, c)
            extras = []
            if rng.random() < 0.3:
                nm = new_class_name(rng, taken)
                setattr(G, nm, make(rng.choice("gtf"), "pkg/" + nm, nm))
                extras.append(nm)
                names.append(nm)
            # ---- the loaded modules
            desc = []
            for i in range(rng.choice([1, 2, 2, 3])):
                label = f"{PLUGIN_PREFIX}stub{i}"
                mod = types.ModuleType(label)
                binds = []
                for _ in range(rng.choice([1, 2, 3, 4])):
                    nm = rng.choice(exported) if rng.random() < 0.5 else (
                        rng.choice(names) if names and rng.random() < 0.3 else new_class_name(rng, taken))
                    if hasattr(mod, nm):
                        continue
                    if nm in exported and rng.random() < 0.25:
                        setattr(mod, nm, getattr(G, nm))                  # the package's own class, imported by the module
                        binds.append(f"{nm}=g@pkg/{nm}")
                    else:
                        kind = rng.choice("ggggttff")
                        setattr(mod, nm, make(kind, f"{label}/{nm}", nm))
                        binds.append(f"{nm}={kind}")
                    names.append(nm)
                sys.modules[label] = mod
                mods.append(mod)
                desc.append(label + ":" + ",".join(binds))
            pkg = "pkg:" + ",".join(
                f"{a}={'g' if isinstance(v, type) and issubclass(v, G.GrooveBase) else 't' if v else 'f'}"
                for a, v in sorted(vars(G).items()) if a.isascii() and a.isidentifier())
            # ---- names: every bound name under documented spellings (+ one-character edits), as it is, and a few others
            asked = []
            for nm in dict.fromkeys(names + [rng.choice(exported) for _ in range(2)]):
                asked += [spelling(rng, nm)[0], spelling(rng, nm)[0], nm]
                v = asked[-2]
                if v and rng.random() < 0.3:
                    i = rng.randrange(len(v))
                    asked.append(rng.choice([v[:i] + v[i + 1:], v[:i] + v[i] + v[i:], v + rng.choice("_ -."), rng.choice("_ -.") + v]))
            asked += rng.sample(ADVERSARIAL_NAMES, 2)
            for name in asked:
                if not name.isascii():
                    continue
                try:
                    G.create_groove_by_type_name(name)
                    real = "?"
                except _Found as f:
                    real = "called " + str(f)
                except ValueError as ex:
                    real = "notfound" if "No groove class named" in str(ex) else "?"
                except TypeError:
                    real = "?"
                if real == "?":
                    ctx.count("K:lookup-skipped")
                    continue
                ctx.case(["lookup", name, pkg if extras else "", desc])
                where = "" if " " not in real else (":package" if real.split(" ")[1].startswith("pkg/") else ":module")
                ctx.count("lookup:" + real.split(" ")[0] + where)
                corr.lookup_case(name, pkg, desc, real)
            for mod in mods:
                sys.modules.pop(mod.__name__, None)
                mod.__dict__.clear()
            mods = []
    finally:
        for mod in mods:
            sys.modules.pop(mod.__name__, None)
            mod.__dict__.clear()
        for c in extras:
            delattr(G, c)
        for c, v in saved.items():
            setattr(G, c, v)
        import gc
        gc.collect()                    # the stub classes leave the subclass registry of the real GrooveBase


SPLINE_SHAPES = [
    (2, [[-2.0, 0.0], [-1.0, 1.0], [1.0, 1.0], [2.0, 0.0]]),
    (1, [[0.0, 1.0, 2.0]]),
    (2, [[-2.0, 0.0, 0.0], [0.0, 1.0, 0.0], [2.0, 0.0, 0.0]]),
    (2, [[-2.0, 0.5], [0.0, 1.0], [2.0, 0.0]]),
    (2, [[-2.0, 0.0], [0.0, 1.0], [2.0, 0.3]]),
    (2, [[-2.0, 1e-9], [-1.0, 1.0], [1.0, 1.0], [2.0, -1e-9]]),
    # the face tolerance a source may have is absolute (1e-8) or relative to the extent (1e-9 x): a contour of 4 mm in
    # metres and one of 4 m in millimetres, ends a little off the face line either way
    (2, [[-2e-3, 3e-9], [-1e-3, 1e-3], [1e-3, 1e-3], [2e-3, 0.0]]),
    (2, [[-2e3, 0.0], [-1e3, 1e3], [1e3, 1e3], [2e3, -3e-7]]),
    (2, [[-2e3, 0.0], [-1e3, 1e3], [1e3, 1e3], [2e3, 5e-5]]),
    # a non-finite vertex in between (the extent, hence a relative tolerance, is NaN then)
    (2, [[-2.0, 0.0], [-1.0, NAN], [1.0, 1.0], [2.0, 0.0]]),
    (2, [[-2.0, 0.0], [NAN, 1.0], [1.0, 1.0], [2.0, 0.0]]),
]
SPLINE_FACTORS = [0.0, 0.25, 0.5, 0.9, 1.1, 2.0, 4.0, 40.0]


def _spline_boundary_case(rng):
    """a six-vertex polyline `end, inner, top, top, inner, end` of extent L (1e-3 ... 3000 length units, not near 10 where
    1e-8 and 1e-9 x extent coincide; the larger extent is the width or the height) whose end ordinates and the ordinates
    next to them are a small factor below / above a tolerance the face test may have (1e-8, or 1e-9 x extent)"""
    import numpy as np
    while True:
        L = 10 ** rng.uniform(-3.0, 3.5)
        if not 2.0 < L < 50.0:
            break
    if rng.random() < 0.7:
        w, H = L / 2, L * rng.uniform(0.05, 0.6)         # extent = width
    else:
        w, H = L * rng.uniform(0.1, 0.45), L             # extent = height
    shift = rng.uniform(-1.0, 1.0) * L * rng.choice([0.0, 1.0])
    xs = [shift + f * w for f in (-1.0, -0.8, -0.5, 0.5, 0.8, 1.0)]
    rows = [[x, y] for x, y in zip(xs, (0.0, 0.0, H, H, 0.0, 0.0))]
    extent = float(np.max(np.ptp(np.asarray(rows), axis=0)))
    tol = rng.choice([1e-8, 1e-9 * extent])
    where = rng.choice(["first", "last", "both", "inner", "all", "none"])
    fs = {}
    for k, idx in (("first", 0), ("inner0", 1), ("inner1", 4), ("last", 5)):
        on = where in ("both", "all") and k in ("first", "last") or where == k or where in ("inner", "all") and k.startswith("inner")
        f = rng.choice(SPLINE_FACTORS[4:] if on and rng.random() < 0.6 else SPLINE_FACTORS[:4] if not on else SPLINE_FACTORS)
        fs[k] = f
        rows[idx][1] = rng.choice([-1.0, 1.0]) * f * tol
    return rows, extent, fs


def _spline_stream(ctx, corr, only=None):
    """SplineGroove.__init__ shape checks (the class itself is C10's subject; here only accept/reject of the shape):
    fixed shape cases + the boundary of the face test.  K: the model (with the face test read from the source) must accept /
    reject like the real constructor.  Oracle (property text): a contour with an end far off the face line (> 1e-3 x extent)
    is not a groove contour and must be rejected; a well-shaped finite contour whose ends lie exactly on the face line must
    not be refused by a shape check."""
    import numpy as np
    from pyroll.core.grooves import SplineGroove
    cases = [(nd, rows, "shape") for nd, rows in SPLINE_SHAPES] if only is None else only
    for _ in range(ctx.budget(60, 600) if only is None else 0):
        rows, extent, fs = _spline_boundary_case(ctx.rng)
        cases.append((2, rows, "boundary"))
    for ndim, rows, kind in cases:
        arg = rows[0] if ndim == 1 else rows
        try:
            with warnings.catch_warnings():
                warnings.simplefilter("ignore")
                SplineGroove(arg, classifiers=[])
            ok = True
        except Exception as ex:
            tb = traceback.extract_tb(ex.__traceback__)
            if not any(f.filename.endswith(os.path.join("grooves", "spline.py")) for f in tb):
                raise                   # raised by the harness itself
            if not (isinstance(ex, ValueError) and tb[-1].filename.endswith("spline.py")):
                ctx.count("spline:raised-further-down")
                continue                # raised further down (shapely, scipy): not one of the shape checks
            ok = False
        ctx.case(["spline", ndim, rows])
        ctx.count(f"spline:{kind}:" + ("accepted" if ok else "rejected"))
        well_shaped = ndim == 2 and len(rows) >= 3 and all(len(r) == 2 for r in rows) \
            and all(math.isfinite(v) for r in rows for v in r)
        if well_shaped:
            a = np.asarray(rows, dtype=float)
            extent = float(np.max(np.ptp(a, axis=0)))
            ends = max(abs(rows[0][1]), abs(rows[-1][1]))
            if (ends <= 1e-8) != (ends <= 1e-9 * extent):
                ctx.count("spline:between-absolute-and-relative-tolerance")
            if ok and ends > 1e-3 * extent:
                ctx.violation("accepted:spline-open-end", f"SplineGroove accepts a contour whose end ordinate {ends!r} is far off "
                              f"the face line (extent {extent!r})", {"class": "SplineGroove", "ndim": ndim, "rows": rows})
            if not ok and ends == 0.0:
                ctx.violation("rejected:spline-ends-on-face", "SplineGroove's shape checks refuse a finite two-column contour "
                              "whose first and last ordinate are exactly 0", {"class": "SplineGroove", "ndim": ndim, "rows": rows})
        if ctx.model_available:
            corr.spline_case(ndim, rows, ok)


def run(ctx):
    found = _extracted(ctx)
    corr = Corr(ctx, found)
    log = Log()
    rng = ctx.rng
    with instrumented(log):
        for (cname, kw, must, stream) in CORPUS:
            run_case(ctx, corr, log, cname, (), kw, stream, must)
        for (cname, via, kind) in FACTORY_CORPUS:
            fixed, vals, _ = draw(random_for(cname), cname)
            kw = dict(fixed, **{k: vals[k] for k in subsets_of(cname)[0]})
            run_case(ctx, corr, log, cname, subsets_of(cname)[0], kw, "feasible", False, via=via, kind=kind)
        _plugin_stream(ctx, corr, log, ctx.budget(40, 600))
        n0 = ctx.budget(60, 1500)
        for cname in ALL_CLASSES:
            subsets = subsets_of(cname)
            for subset in subsets:
                n = n0 * (3 if len(subsets) == 1 else 1)
                feasible_drawn = feasible_built = 0
                for i in range(n):
                    fixed, vals, info = draw(rng, cname)
                    kw = dict(fixed, **{k: vals[k] for k in subset})
                    r = rng.random()
                    stream, must = "feasible", False
                    if r < 0.40:
                        kw, stream = perturb(rng, kw), "perturbed"
                    elif r < 0.60:
                        kw, k, must = infeasible(rng, cname, subset, fixed, vals)
                        stream = "infeasible:" + k.split(":")[0]
                    elif r < 0.70:
                        kw, k = boundary(rng, cname, kw, info["scale"])
                        stream = "boundary:" + k
                    via = kind = None
                    if rng.random() < 0.3:
                        via, kind = spelling(rng, cname)
                    g = run_case(ctx, corr, log, cname, subset, kw, stream, must, via=via, kind=kind)
                    if stream == "feasible" and kind != "exact":
                        feasible_drawn += 1
                        feasible_built += g is not None
                    if len(corr.lines) >= 3000:
                        corr.flush()            # batches: the expectations hold the groove objects
                if feasible_drawn >= 8 and feasible_built < 0.6 * feasible_drawn:
                    # the unperturbed draws are realisable by construction; on the repaired tree every class/subset builds
                    # > 90 % of them (the rest: non-convergence of hybr, IndexError of the raster search)
                    ctx.disagreement(f"{cname} rejects {feasible_drawn - feasible_built} of {feasible_drawn} feasible "
                                     f"geometries given as {subset}", {"class": cname, "subset": list(subset)})
    if ctx.model_available:
        _name_stream(ctx, corr, ctx.budget(300, 6000))
        _lookup_stream(ctx, corr, ctx.budget(40, 600))
    _spline_stream(ctx, corr)
    if ctx.model_available:
        corr.flush()
    biased = lambda k: k.startswith(("stream:feasible:", "stream:perturbed:", "stream:corpus:"))
    built = sum(v for k, v in ctx.histogram.items() if biased(k) and k.endswith(":constructed"))
    total = sum(v for k, v in ctx.histogram.items() if biased(k))
    ctx.notes["feasibility_biased_stream_constructed"] = f"{built}/{total}"


def random_for(cname):
    import random
    return random.Random(sum(map(ord, cname)))


def replay(ctx, data):
    r = data.get("replay", data)
    found = _extracted(ctx)
    corr = Corr(ctx, found)
    log = Log()
    with instrumented(log):
        if "rows" in r:
            _spline_stream(ctx, corr, only=[(int(r.get("ndim", 2)), r["rows"], "replay")])
        elif "name" in r and "class" not in r:
            _name_stream(ctx, corr, 0)
        elif "lookup" in r:
            _lookup_stream(ctx, corr, 40)
        elif "world" in r:
            cname = r["class"]
            kw = {k: (float(v) if isinstance(v, str) and v in ("nan", "inf", "-inf", "NaN", "Infinity") else v)
                  for k, v in r["kwargs"].items()}
            opt = [k for s in subsets_of(cname) for k in s]
            subset = tuple(k for k in kw if k in opt)
            request = (tuple(r["target"]), cname, subset, kw, r.get("stream", "replay"), r["via"], r.get("kind", "words"))
            _plugin_stream(ctx, corr, log, 0, only=(r["world"], [request], cname, False))
        else:
            cname = r["class"]
            kw = {k: (float(v) if isinstance(v, str) and v in ("nan", "inf", "-inf", "NaN", "Infinity") else v)
                  for k, v in r["kwargs"].items()}
            opt = [k for s in subsets_of(cname) for k in s]
            subset = tuple(k for k in kw if k in opt)
            run_case(ctx, corr, log, cname, subset, kw, r.get("stream", "replay"), bool(r.get("must_reject")),
                     via=r.get("via"), kind=r.get("kind", "words"))
    if ctx.model_available:
        corr.flush()
