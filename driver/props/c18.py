"""C18 - pre-/post-processors run in hierarchy order and affect only what they should.

Tie: K (hand-written model lean/PyrollModel/Proc.lean, theorems lean/PyrollProps/C18.lean).

One case = one history over a REAL class hierarchy: classes are created with type() below the library classes
Unit / PassSequence / DiskElementUnit / Transport / Rotator (single and multiple inheritance, non-unit mix-ins,
classes with a cooperative or a swallowing __init_subclass__), factories are registered / removed / cleared on any
of these classes in any order (also on classes that get subclasses LATER), units are instantiated and solved alone
and as members of sequences, several times.  Factories return a processor, nothing, or depend on the unit; processors
write their mark in place, return a marked copy, or return what they got.  Everything observable is recorded by the
harness objects themselves (factory consultations, processor solve calls with the identity of what they received and
returned, the iterations of the unit's own solution, the three profiles at the end).

The same op lines go to the Lean model (Drivers/c18.lean); the outputs (class ids, error kinds, the lists every class
yields, the complete event trace of every solve with object identities renamed by first appearance) must be equal.

The independent oracle (Real.check_record / Real.check_walk_of, fed by Real.reglog) is written from the property
text: it keeps its own registration log and
checks, for every solve call and for the walk of every class after every change, scope (= class and subclasses only,
each registration exactly once), order (base before subclass, registration order within a class), None-skipping,
threading, in_profile = last pre-processor output, post-processors leave the unit's own outgoing state alone,
pre < own < post.
"""
import collections
import logging

ID = "C18"
LEAN_MODULES = ["PyrollProps.C18"]
MODEL = "c18"                                   # lean/Drivers/c18.lean
MODEL_MODULES = ["PyrollModel.ProcDriver"]
RULE = ("random histories over real class hierarchies built with type() below Unit/PassSequence/Transport/Rotator "
        "(MRO length up to ~10, diamonds, non-unit mix-ins; 15% of the cases contain a class whose __init_subclass__ does not call "
        "super() = malformed stream): class definitions interleaved with register/remove/clear on any class and with "
        "solves of leaf units and of sequences (re-solves included); factories always/never/unit-dependent, processors "
        "in-place/copying/identity. A case is non-trivial when some solve consulted >= 2 factories; distinct by the op lines.")
ASSUMPTIONS = [
    "CPython class semantics (C3 MRO - the real __mro__ is an input of the model -, attribute lookup along the MRO, "
    "the implicit __init_subclass__ call of type.__new__, list.append/remove/clear) are modelled, not verified",
    "the number of iterations of a unit's own solution loop is numeric and therefore an input of the model",
    "hierarchies in which a user class defines __init_subclass__ without calling super() are outside the contract of the "
    "scope/order theorems (hypothesis OwnLists); model and code are still compared on them (see notes/C18.md, O1)",
    "the model is tied to the code by sampled differential runs (every output line compared)",
]

NAMES = {"p": "pre_processors", "q": "post_processors"}
LIBNAMES = ["Unit", "PassSequence", "DiskElementUnit", "Transport", "Rotator"]


def _sub(a, b):
    """a is b or a subclass of b (plain MRO membership: no ABC virtual-subclass machinery, whose cost grows with the
    number of live subclasses of Unit)"""
    return b in a.__mro__


def _quiet():
    logging.getLogger("pyroll").setLevel(logging.ERROR)


class Ev:
    __slots__ = ("t", "kind", "w", "f", "p", "res", "recv", "ret", "recv_marks", "ret_marks", "unit_ok")

    def __init__(self, t, kind, **kw):
        self.t = t
        self.kind = kind
        for k in self.__slots__[2:]:
            setattr(self, k, kw.get(k))


class Rec:
    """everything recorded about ONE call of unit.solve"""

    def __init__(self, uid, unit, inp, is_seq):
        self.uid = uid
        self.unit = unit
        self.inp = inp
        self.inp_marks = tuple(getattr(inp, "marks", ()))
        self.is_seq = is_seq
        self.ev = []
        self.iters = 0
        self.in_marks_at_own = None
        self.in_obj_at_own = None
        self.out_marks_before_post = None
        self.out_obj_before_post = None
        self.ret = None
        self.later = False        # the unit's class was defined after a registration that applies to it
        self.sibling = False      # a registration exists on a sibling class (common made base, not a base of ours)


class Proc:
    """a processor: only .label and .solve are used by Unit.init_solve / Unit.solve"""

    def __init__(self, real, p, ev):
        self.real = real
        self.p = p
        self.label = f"proc{p}"
        self.consult = ev

    def solve(self, profile):
        return self.real.on_proc(self, profile)


class Real:
    """Executes op tuples on the real implementation and records what happens."""

    def __init__(self):
        import pyroll.core as pr
        _quiet()
        self.pr = pr
        self.lib = [getattr(pr, n) for n in LIBNAMES]
        self.classes = list(self.lib)
        self.cinfo = [{"isub": None, "mixin": False, "made": False} for _ in self.lib]
        self.saved = [(c, n, list(c.__dict__[n])) for c in self.lib for n in NAMES.values() if n in c.__dict__]
        self.fobj = {}
        self.fid = {}
        self.fdef = {}
        self.beh = {}
        self.units = []
        self.uflag = []
        self.useq = []
        self.uid = {}
        self.listed = set()
        self.named = []
        self.objs = {}
        self.keep = []
        self.stack = []
        self.trace = []
        self.records = []
        self.clock = 0
        self.serial = 0
        self.reglog = []          # the ORACLE's registration log: dicts(serial, w, cls, f)
        self.malformed = False    # a class with a swallowing __init_subclass__ exists
        self.problems = []        # (key, text) found by the oracle so far

    # ---- bookkeeping ---------------------------------------------------------------------
    def restore(self):
        for c, n, l in self.saved:
            c.__dict__[n][:] = l

    def tick(self):
        self.clock += 1
        return self.clock

    def oid(self, o):
        k = self.objs.get(id(o))
        if k is None:
            k = len(self.keep)
            self.objs[id(o)] = k
            self.keep.append(o)
        return k

    def is_unit_class(self, c):
        return isinstance(c, type) and _sub(c, self.pr.Unit)

    def tail_of(self, cls):
        ids = {id(c): i for i, c in enumerate(self.classes)}
        return [ids[id(k)] for k in cls.__mro__[1:] if id(k) in ids]

    @staticmethod
    def L(xs):
        return ",".join(map(str, xs)) if xs else "-"

    def preamble(self, ctx=None):
        """model lines that define the library classes, derived from the REAL classes"""
        pairs = []
        for i, c in enumerate(self.lib):
            own = "__init_subclass__" in c.__dict__
            if c is self.pr.Unit:
                isub = "u" if own else "a"
                body = 1
            else:
                isub = "c" if own else "a"     # a library class defining its own would have to be read; none does
                if own and ctx is not None:
                    ctx.tie_breaks.append(f"{c.__name__} defines __init_subclass__: not modelled")
                body = 0
            tail = [j for j, k in enumerate(self.lib) if k in c.__mro__[1:]]
            tail.sort(key=lambda j: c.__mro__.index(self.lib[j]))
            pairs.append((f"class {self.L(tail)} {isub} {body}", f"c{i}"))
        return pairs

    # ---- instrumentation (namespace of every class the harness creates) --------------------
    def namespace(self, isub):
        real = self

        def solve(self_, in_profile):
            return real.on_solve(self_, in_profile)

        def _solve_subunits(self_):
            real.on_iter(self_)
            return real.pr.Unit._solve_subunits(self_)

        ns = {"solve": solve, "_solve_subunits": _solve_subunits}
        holder = {}
        if isub == "c":
            def isc(cls, **kw):
                super(holder["c"], cls).__init_subclass__(**kw)
            ns["__init_subclass__"] = classmethod(isc)
        elif isub == "n":
            def isc(cls, **kw):
                pass
            ns["__init_subclass__"] = classmethod(isc)
        return ns, holder

    def on_solve(self, unit, in_profile):
        uid = self.uid[id(unit)]
        rec = Rec(uid, unit, in_profile, self.useq[uid])
        self.stack.append(rec)
        self.trace.append(f"E {uid} #{self.oid(in_profile)}")
        try:
            ret = self.pr.Unit.solve(unit, in_profile)
        finally:
            self.stack.pop()
        rec.ret = ret
        ip, op = unit.in_profile, unit.out_profile
        self.trace.append(f"L {uid} #{self.oid(ret)} #{self.oid(ip)} #{self.oid(op)} "
                          f"{self.show_marks(ret)} {self.show_marks(ip)} {self.show_marks(op)}")
        self.records.append(rec)
        self.check_record(rec)
        return ret

    def on_iter(self, unit):
        rec = self.stack[-1]
        if rec.unit is not unit:
            raise RuntimeError("harness: iteration of a unit that is not being solved")
        rec.iters += 1
        rec.ev.append(Ev(self.tick(), "O"))
        if rec.iters == 1:
            rec.in_obj_at_own = unit.in_profile
            rec.in_marks_at_own = tuple(unit.in_profile.marks)
            self.serial += 1
            unit.out_profile.marks = tuple(unit.out_profile.marks) + ((f"o{rec.uid}", self.serial),)
        if rec.is_seq or rec.iters == 1:
            self.trace.append(f"O {rec.uid}")

    def phase(self, rec):
        return "p" if rec.iters == 0 else "q"

    def on_factory(self, f, unit):
        if not self.stack:
            raise RuntimeError("harness: factory consulted outside a solve")
        rec = self.stack[-1]
        w = self.phase(rec)
        if w == "q" and rec.out_obj_before_post is None:
            rec.out_obj_before_post = rec.unit.out_profile
            rec.out_marks_before_post = tuple(rec.unit.out_profile.marks)
        kind, p = self.fdef[f]
        uid = self.uid.get(id(unit), -1)
        if kind == "always":
            give = True
        elif kind == "never":
            give = False
        else:
            give = uid >= 0 and self.uflag[uid]
        ev = Ev(self.tick(), "C", w=w, f=f, p=p if give else None, unit_ok=unit is rec.unit)
        rec.ev.append(ev)
        self.trace.append(f"C {w} {f} {uid}")
        return Proc(self, p, ev) if give else None

    def on_proc(self, proc, profile):
        rec = self.stack[-1]
        w = self.phase(rec)
        b = self.beh[proc.p]
        self.serial += 1
        mark = (f"p{proc.p}", self.serial)
        recv_marks = tuple(profile.marks)
        if b == "i":
            profile.marks = tuple(profile.marks) + (mark,)
            ret = profile
        elif b == "f":
            ret = self.pr.Profile(**{k: v for k, v in profile.__dict__.items() if not k.startswith("_")})
            ret.marks = tuple(profile.marks) + (mark,)
        else:
            ret = profile
        rec.ev.append(Ev(self.tick(), "P", w=w, p=proc.p, f=proc.consult.f, recv=profile, ret=ret, recv_marks=recv_marks,
                         ret_marks=tuple(ret.marks), res=mark))
        self.trace.append(f"P {w} {proc.p} #{self.oid(profile)} #{self.oid(ret)}")
        return ret

    @staticmethod
    def show_marks(o):
        m = getattr(o, "marks", ())
        return ",".join(t for (t, _) in m) if m else "-"

    # ---- ops -----------------------------------------------------------------------------
    def apply(self, op):
        """returns [(model line, expected output)]"""
        n = op[0]
        if n == "fac":
            _, f, kind, p = op
            self.fdef[f] = (kind, p)
            real = self

            def factory(unit, _f=f):
                return real.on_factory(_f, unit)
            factory.__name__ = f"factory{f}"
            self.fobj[f] = factory
            self.fid[id(factory)] = f
            return [(f"fac {f} {kind} {p}", "ok")]
        if n == "beh":
            self.beh[op[1]] = op[2]
            return [(f"beh {op[1]} {op[2]}", "ok")]
        if n == "class":
            _, bases, isub, mixin = op
            k = len(self.classes)
            if mixin:
                cls = type(f"M{k}", tuple(self.classes[b] for b in bases), {})
            else:
                ns, holder = self.namespace(isub)
                cls = type(f"K{k}", tuple(self.classes[b] for b in bases), ns)
                holder["c"] = cls
            self.classes.append(cls)
            self.serial += 1
            self.cinfo.append({"isub": isub, "mixin": mixin, "made": True, "serial": self.serial})
            if isub == "n":
                self.malformed = True
            out = [(f"class {self.L(self.tail_of(cls))} {isub} 0", f"c{k}")]
            return out + self.static_queries(k)
        if n in ("reg", "unreg", "clear"):
            w, c = op[1], op[2]
            cls = self.classes[c]
            line = f"{n} {w} {c}" + ("" if n == "clear" else f" {op[3]}")
            try:
                lst = getattr(cls, NAMES[w])
            except AttributeError:
                return [(line, "AttributeError")]
            if n == "reg":
                lst.append(self.fobj[op[3]])
                self.serial += 1
                self.reglog.append({"serial": self.serial, "w": w, "cls": cls, "f": op[3]})
            elif n == "unreg":
                try:
                    lst.remove(self.fobj[op[3]])
                except ValueError:
                    return [(line, "ValueError")]
                for r in self.reglog:            # the earliest live registration of f made on this class
                    if r["w"] == w and r["cls"] is cls and r["f"] == op[3]:
                        self.reglog.remove(r)
                        break
            else:
                lst.clear()
                self.reglog = [r for r in self.reglog if not (r["w"] == w and r["cls"] is cls)]
            return [(line, "ok")] + self.static_queries(c)
        if n == "unit":
            _, c, flag = op
            cls = self.classes[c]
            kw = {"duration": 0}
            if _sub(cls, self.pr.Rotator):
                kw["rotation"] = 0
            u = cls(label=f"u{len(self.units)}", **kw)
            return [(f"unit {c} {flag}", self.add_unit(u, flag, False))]
        if n == "seq":
            _, c, flag, subs = op
            cls = self.classes[c]
            for s in subs:
                if s in self.listed or self.useq[s]:
                    raise RuntimeError("harness: sequence member already listed / not a leaf")
            kw = {"duration": 0}
            if _sub(cls, self.pr.Rotator):
                kw["rotation"] = 0
            u = cls([self.units[s] for s in subs], label=f"u{len(self.units)}", **kw)
            self.listed.update(subs)
            return [(f"seq {c} {flag} {self.L(subs)}", self.add_unit(u, flag, True))]
        if n == "newprof":
            p = self.pr.Profile.round(radius=1, marks=())
            self.named.append(p)
            return [("newprof", f"#{self.oid(p)}")]
        if n in ("solve", "solveseq"):
            _, u, k = op
            unit = self.units[u]
            problems = self.check_walk_of(type(unit))
            if any(key.startswith("walk-foreign") for key, _ in problems):
                # a factory the harness does not own would be called with our unit: do not run it
                self.named.append(self.named[k])
                return [(f"{n} {u} {k}", "not-run:foreign-factory-in-walk")]
            self.trace = []
            ret = unit.solve(self.named[k])
            self.named.append(ret)
            top = self.records[-1]
            if n == "solve":
                return [(f"solve {u} {k}", ";".join(self.trace))]
            return [(f"solveseq {u} {top.iters} {k}", ";".join(self.trace))]
        raise ValueError(op)

    def add_unit(self, u, flag, is_seq):
        self.uid[id(u)] = len(self.units)
        self.units.append(u)
        self.uflag.append(bool(flag))
        self.useq.append(is_seq)
        return f"u{len(self.units) - 1}"

    def fids(self, lst):
        return [self.fid.get(id(x), -1) for x in lst]

    def static_queries(self, touched):
        """after a change: what every unit class yields + the own lists of the touched class"""
        out = []
        for w in "pq":
            own = self.classes[touched].__dict__.get(NAMES[w])
            out.append((f"own {w} {touched}", "_" if own is None else self.L(self.fids(own))))
        for c, cls in enumerate(self.classes):
            if not self.is_unit_class(cls):
                continue
            self.check_walk_of(cls)
            inst = object.__new__(cls)
            out.append((f"yield p {c}", self.L(self.fids(cls._yield_pre_processors(inst)))))
            out.append((f"yield q {c}", self.L(self.fids(cls._yield_post_processors(inst)))))
        return out

    # ---- the independent oracle: the property as stated ------------------------------------
    def applicable(self, cls, w):
        return [r for r in self.reglog if r["w"] == w and _sub(cls, r["cls"])]

    @staticmethod
    def order_ok(obs, regs):
        """is there an assignment of the observed factory ids to the registrations that respects
        'base class before subclass' and 'registration order within a class'?  (tiny backtracking search)"""
        n = len(obs)
        if n != len(regs):
            return False
        preds = []
        for r in regs:
            preds.append({i for i, s in enumerate(regs) if s is not r and (
                (s["cls"] is r["cls"] and s["serial"] < r["serial"]) or
                (s["cls"] is not r["cls"] and _sub(r["cls"], s["cls"])))})
        seen = set()

        def go(pos, used):
            if pos == n:
                return True
            if (pos, used) in seen:
                return False
            seen.add((pos, used))
            for i, r in enumerate(regs):
                if i in used or r["f"] != obs[pos] or not preds[i] <= used:
                    continue
                if go(pos + 1, used | {i}):
                    return True
            return False
        return go(0, frozenset())

    def check_sequence(self, prefix, cls, w, obs, none_seen_before_missing=False):
        """obs = factory ids consulted/yielded for a unit of class cls; compares with the registration log"""
        if self.malformed:
            return []
        exp = self.applicable(cls, w)
        co, ce = collections.Counter(obs), collections.Counter(r["f"] for r in exp)
        name = NAMES[w]
        if co != ce:
            extra = sorted((co - ce).elements())
            missing = sorted((ce - co).elements())
            if extra and all(ce[f] > 0 for f in extra):
                return [(f"{prefix}{name}-registration-runs-twice",
                         f"{cls.__name__}: factories {extra} of {name} consulted more often than registered")]
            if extra:
                return [(f"{prefix}{name}-outside-scope",
                         f"{cls.__name__}: factories {extra} of {name} apply although they were registered on no base "
                         f"class of it (expected {sorted(ce.elements())}, got {obs})")]
            if none_seen_before_missing:
                return [(f"{prefix}{name}-stops-after-none",
                         f"{cls.__name__}: factories {missing} not consulted after a factory returned None")]
            return [(f"{prefix}{name}-registration-lost",
                     f"{cls.__name__}: factories {missing} registered on a base class do not apply (got {obs})")]
        if not self.order_ok(tuple(obs), exp):
            return [(f"{prefix}{name}-order",
                     f"{cls.__name__}: {name} run in order {obs}; registrations (class, factory) in log order: "
                     f"{[(r['cls'].__name__, r['f']) for r in exp]}")]
        return []

    def check_walk_of(self, cls):
        probs = []
        inst = object.__new__(cls)
        for w, meth in (("p", cls._yield_pre_processors), ("q", cls._yield_post_processors)):
            lst = list(meth(inst))
            if any(id(x) not in self.fid for x in lst):
                probs.append((f"walk-foreign-{NAMES[w]}",
                              f"{cls.__name__} yields factories registered on unrelated library classes: "
                              f"{[getattr(x, '__name__', '?') for x in lst if id(x) not in self.fid]}"))
                continue
            probs += self.check_sequence("walk-", cls, w, self.fids(lst))
        self.problems += probs
        return probs

    def check_record(self, rec):
        probs = []
        unit, cls = rec.unit, type(rec.unit)
        born = self.cinfo[self.classes.index(cls)].get("serial", 0)
        rec.later = any(r["serial"] < born and _sub(cls, r["cls"]) for r in self.reglog)
        rec.sibling = any(not _sub(cls, r["cls"]) and r["cls"] not in self.lib and
                          any(k in r["cls"].__mro__ and k not in self.lib for k in cls.__mro__[1:])
                          for r in self.reglog)
        owns = [e.t for e in rec.ev if e.kind == "O"]
        if not owns:
            self.problems.append(("no-own-solution", f"u{rec.uid}: the solution loop did not run"))
            return
        pre = [e for e in rec.ev if e.kind != "O" and e.t < owns[0]]
        post = [e for e in rec.ev if e.kind != "O" and e.t > owns[-1]]
        if len(pre) + len(post) + len(owns) != len(rec.ev):
            probs.append(("processor-during-own-solution", f"u{rec.uid}: processors ran between the iterations"))
        for w, evs in (("p", pre), ("q", post)):
            cons = [e for e in evs if e.kind == "C"]
            if any(not e.unit_ok for e in cons):
                probs.append(("factory-got-wrong-unit", f"u{rec.uid}: a factory was called with another unit"))
            probs += self.check_sequence("", cls, w, [e.f for e in cons],
                                         none_seen_before_missing=any(e.p is None for e in cons))
            # a factory that returned a processor is followed by exactly that processor's solve; None by nothing
            want = [e.p for e in cons if e.p is not None]
            got = [e.p for e in evs if e.kind == "P"]
            if want != got:
                probs.append((f"{NAMES[w]}-not-all-run", f"u{rec.uid}: processors created {want}, solved {got}"))
        # threading of the pre-processors and the incoming profile
        cur, cur_marks = rec.inp, rec.inp_marks
        for e in (e for e in pre if e.kind == "P"):
            if e.recv is not cur:
                probs.append(("pre-processor-input-not-predecessor-output",
                              f"u{rec.uid}: pre-processor {e.p} did not receive what its predecessor returned"))
            cur, cur_marks = e.ret, e.ret_marks
        if rec.in_marks_at_own != cur_marks:
            probs.append(("in-profile-not-last-pre-processor-output",
                          f"u{rec.uid}: in_profile carries {[t for t, _ in rec.in_marks_at_own]}, the last pre-processor "
                          f"returned {[t for t, _ in cur_marks]}"))
        ip = rec.in_obj_at_own
        if not isinstance(ip, self.pr.Unit.InProfile) or ip.unit is not unit or unit.in_profile is not ip:
            probs.append(("in-profile-not-own-object", f"u{rec.uid}: in_profile is not an InProfile of the unit"))
        # post-processors
        pp = [e for e in post if e.kind == "P"]
        op = unit.out_profile
        if pp:
            first = pp[0]
            if first.recv is op or first.recv is unit.in_profile:
                probs.append(("post-processor-receives-unit-state",
                              f"u{rec.uid}: the first post-processor received the unit's own profile object"))
            if first.recv_marks != rec.out_marks_before_post:
                probs.append(("post-processor-input-not-out-state",
                              f"u{rec.uid}: the first post-processor did not receive a copy of the outgoing state"))
            cur = first.recv
            for e in pp:
                if e.recv is not cur:
                    probs.append(("post-processor-input-not-predecessor-output",
                                  f"u{rec.uid}: post-processor {e.p} did not receive what its predecessor returned"))
                cur = e.ret
            if rec.ret is not cur:
                probs.append(("returned-not-last-post-processor-output",
                              f"u{rec.uid}: solve did not return what the last post-processor returned"))
            if rec.ret is op:
                probs.append(("returned-profile-is-out-state", f"u{rec.uid}: solve returned unit.out_profile itself"))
            mine = {e.res for e in pp}
            if op is not rec.out_obj_before_post or any(m in mine for m in op.marks) \
                    or tuple(op.marks) != rec.out_marks_before_post:
                probs.append(("post-processor-changed-out-state",
                              f"u{rec.uid}: unit.out_profile changed while the post-processors ran: "
                              f"{[t for t, _ in rec.out_marks_before_post]} -> {[t for t, _ in op.marks]}"))
            if any(m in mine for m in unit.in_profile.marks):
                probs.append(("post-processor-changed-in-state", f"u{rec.uid}: unit.in_profile carries post marks"))
        else:
            if tuple(rec.ret.marks) != tuple(op.marks):
                probs.append(("returned-profile-not-out-state",
                              f"u{rec.uid}: without post-processors the returned profile differs from out_profile"))
        self.problems += probs


# -------------------------------------------------------------------------------------------
# canonical forms
# -------------------------------------------------------------------------------------------
def canon_objs(outputs):
    """rename object identities '#n' by first appearance (a bijection check between model and code)"""
    ren = {}
    res = []
    for line in outputs:
        toks = []
        for part in line.replace(";", " ; ").split(" "):
            if part.startswith("#"):
                part = "#" + str(ren.setdefault(part, len(ren)))
            toks.append(part)
        res.append(" ".join(toks))
    return res


def op_json(op):
    return [list(x) if isinstance(x, (list, tuple)) else x for x in op]


def op_tuple(o):
    return tuple(list(x) if isinstance(x, list) else x for x in o)


# -------------------------------------------------------------------------------------------
# generation (on the fly: the generator looks at the real objects it has built so far)
# -------------------------------------------------------------------------------------------
def gen_and_run(rng, n_ops, malformed, counter=None):
    """returns (ops, pairs, real) - the ops executed on a fresh Real, their (line, output) pairs"""
    cnt = counter if counter is not None else (lambda k: None)
    real = Real()
    ops, pairs = [], []

    def do(op):
        ops.append(op)
        got = real.apply(op)
        pairs.append(got)
        return got

    def pick_class(pool):
        # prefer classes to which many registrations apply (deep in the hierarchy): that is where order matters
        wts = [1 + 2 * sum(1 for r in real.reglog if _sub(real.classes[c], r["cls"])) for c in pool]
        return rng.choices(pool, weights=wts)[0]

    try:
        pairs.append(real.preamble())
        ops.append(("preamble",))
        nf = rng.randrange(3, 9)
        for f in range(nf):
            kind = rng.choice(["always", "always", "always", "never", "flag"])
            p = 50 + f
            do(("fac", f, kind, p))
            do(("beh", p, rng.choice("iffs")))
        do(("newprof",))
        unit_roots = [0, 0, 0, 3, 4, 2]
        n_ops += len(ops)
        while len(ops) < n_ops:
            r = rng.random()
            made = [i for i, ci in enumerate(real.cinfo) if ci["made"]]
            unitcls = [i for i in made if real.is_unit_class(real.classes[i])]
            leafcls = [i for i in unitcls if not _sub(real.classes[i], real.pr.PassSequence)]
            seqcls = [i for i in unitcls if real.classes[i].__init__ is real.pr.PassSequence.__init__]
            if r < 0.22 or not unitcls:
                # ---- class definition
                mixin = rng.random() < 0.08
                if mixin:
                    bases = []
                else:
                    pool = unitcls * 3 + unit_roots + [1] + [i for i in made if real.cinfo[i]["mixin"]]
                    bases = []
                    for _ in range(rng.choice([1, 1, 1, 2, 2, 3])):
                        b = rng.choice(pool)
                        if b not in bases:
                            bases.append(b)
                    if rng.random() < 0.5:
                        # unit classes first (usual style); otherwise mix-in first
                        bases.sort(key=lambda b: not real.is_unit_class(real.classes[b]))
                    if not any(real.is_unit_class(real.classes[b]) for b in bases):
                        bases.append(0)
                isub = "a"
                if not mixin:
                    x = rng.random()
                    if x < 0.15:
                        isub = "c"
                    elif x < 0.30 and malformed:
                        isub = "n"
                op = ("class", bases, isub, mixin)
                try:
                    type("probe", tuple(real.classes[b] for b in bases), {})
                except TypeError:
                    cnt("class:mro-conflict")
                    continue
                do(op)
                cnt("class:" + ("mixin" if mixin else {"a": "plain", "c": "coop-init_subclass", "n": "swallowing"}[isub]))
                cnt(f"class:bases={len(bases)}")
            elif r < 0.55:
                # ---- registration on any class (library classes included; mix-ins rarely = AttributeError)
                pool = unitcls * 4 + [0, 1, 3, 4] + [i for i in made if real.cinfo[i]["mixin"]]
                c = rng.choice(pool)
                w = rng.choice("ppq")
                got = do(("reg", w, c, rng.randrange(nf)))
                cnt("reg:" + got[0][1])
                cnt("reg-on:" + ("library" if c < len(LIBNAMES) else "made"))
            elif r < 0.61:
                if real.reglog and rng.random() < 0.8:
                    rr = rng.choice(real.reglog)
                    c = real.classes.index(rr["cls"])
                    # through the class itself or through one of its subclasses (attribute lookup finds the same list)
                    got = do(("unreg", rr["w"], c, rr["f"]))
                else:
                    got = do(("unreg", rng.choice("pq"), rng.choice(unitcls + [0]), rng.randrange(nf)))
                cnt("unreg:" + got[0][1])
            elif r < 0.64:
                do(("clear", rng.choice("pq"), rng.choice(unitcls + [0, 1])))
                cnt("clear")
            elif r < 0.85:
                # ---- a leaf unit solved alone (new unit, or again an old one that is not listed in a sequence)
                free = [u for u in range(len(real.units)) if not real.useq[u] and u not in real.listed]
                if free and rng.random() < 0.3:
                    u = rng.choice(free)
                    cnt("solve:again")
                elif leafcls:
                    do(("unit", pick_class(leafcls), int(rng.random() < 0.5)))
                    u = len(real.units) - 1
                else:
                    continue
                if rng.random() < 0.35:
                    do(("newprof",))
                    k = len(real.named) - 1
                else:
                    k = rng.randrange(len(real.named))
                do(("solve", u, k))
                cnt("solve:leaf")
            else:
                # ---- a sequence of 0..3 fresh leaves, or an old sequence again
                seqs = [u for u in range(len(real.units)) if real.useq[u]]
                if seqs and rng.random() < 0.3:
                    s = rng.choice(seqs)
                    cnt("solve:seq-again")
                elif seqcls and leafcls:
                    subs = []
                    for _ in range(rng.choice([0, 1, 2, 2, 3])):
                        do(("unit", pick_class(leafcls), int(rng.random() < 0.5)))
                        subs.append(len(real.units) - 1)
                    do(("seq", pick_class(seqcls), int(rng.random() < 0.5), subs))
                    s = len(real.units) - 1
                else:
                    continue
                k = rng.randrange(len(real.named))
                do(("solveseq", s, k))
                cnt("solve:seq")
    finally:
        real.restore()
    return ops, pairs, real


def execute(ops):
    """re-execute recorded ops on a fresh Real (corpus, shrinking, replay)"""
    real = Real()
    pairs = []
    firsts = []
    try:
        for op in ops:
            if op[0] == "preamble":
                pairs.append(real.preamble())
            else:
                pairs.append(real.apply(op))
            firsts.append(len(real.problems))
    finally:
        real.restore()
    return pairs, real, firsts


def first_problem(ops):
    pairs, real, firsts = execute(ops)
    if not real.problems:
        return None, None
    idx = next(i for i, n in enumerate(firsts) if n > 0)
    return idx, real.problems[0]


def shrink(ops, key):
    """greedy removal of ops that do not allocate ids while a problem with the same key persists"""
    idx, prob = first_problem(ops)
    if idx is None:
        return ops
    ops = list(ops[:idx + 1])
    changed = True
    rounds = 0
    while changed and rounds < 200:
        changed = False
        rounds += 1
        for i in range(len(ops) - 1, 0, -1):
            if ops[i][0] not in ("reg", "unreg", "clear", "solve", "solveseq"):
                continue
            cand = ops[:i] + ops[i + 1:]
            try:
                j, p2 = first_problem(cand)
            except Exception:
                continue
            if j is not None and p2[0] == key:
                ops = cand[:j + 1]
                changed = True
                break
    return ops


# -------------------------------------------------------------------------------------------
# corpus: written-out histories that run first
# -------------------------------------------------------------------------------------------
def _facs(spec):
    ops = [("preamble",)]
    for f, (kind, beh) in enumerate(spec):
        ops += [("fac", f, kind, 50 + f), ("beh", 50 + f, beh)]
    return ops + [("newprof",)]


CORPUS = [
    # the probe of DESIGN.md: Unit <- A <- B <- C (C defined AFTER the registrations), sibling S of B, a None factory
    _facs([("always", "i"), ("always", "f"), ("always", "i"), ("never", "i"), ("always", "f"), ("always", "i")]) + [
        ("class", [0], "a", False), ("class", [5], "a", False), ("class", [5], "a", False),       # A=5 B=6 S=7
        ("reg", "p", 0, 0), ("reg", "p", 5, 1), ("reg", "p", 5, 2), ("reg", "p", 6, 3), ("reg", "p", 6, 4),
        ("reg", "q", 5, 5), ("reg", "q", 6, 1),
        ("class", [6], "a", False),                                                                 # C=8
        ("unit", 6, 0), ("solve", 0, 0), ("unit", 8, 0), ("solve", 1, 0), ("unit", 7, 0), ("solve", 2, 1),
        ("solve", 1, 2)],
    # diamond D(B, C), B(A), C(A): registrations made in the order C, B, A, D; units inside a sequence
    _facs([("always", "f"), ("always", "i"), ("flag", "f"), ("always", "s")]) + [
        ("class", [0], "a", False), ("class", [5], "c", False), ("class", [5], "a", False), ("class", [6, 7], "a", False),
        ("class", [1], "a", False),                                                                 # SQ=9
        ("reg", "p", 7, 0), ("reg", "p", 6, 1), ("reg", "q", 5, 2), ("reg", "p", 8, 3), ("reg", "q", 8, 0),
        ("reg", "p", 9, 1), ("reg", "q", 9, 0),
        ("unit", 8, 1), ("unit", 6, 0), ("unit", 8, 0), ("seq", 9, 1, [0, 1, 2]), ("solveseq", 3, 0),
        ("solveseq", 3, 1)],
    # removal through a subclass name, clear, error kinds, mix-in without lists
    _facs([("always", "i"), ("never", "i"), ("always", "f")]) + [
        ("class", [], "a", True), ("class", [5, 0], "a", False), ("class", [0, 5], "a", False),
        ("reg", "p", 5, 0), ("reg", "p", 6, 0), ("reg", "p", 6, 2), ("reg", "p", 6, 0), ("unreg", "p", 6, 0),
        ("unreg", "q", 6, 0), ("reg", "q", 0, 1), ("reg", "q", 0, 2), ("unit", 6, 0), ("solve", 0, 0),
        ("clear", "p", 6), ("unit", 7, 1), ("solve", 1, 1), ("clear", "q", 0)],
    # O1 (notes/C18.md): a class below a swallowing __init_subclass__ has no lists of its own - the getattr walk
    # yields the inherited list a second time.  Same history as `getattr_walk_consults_twice` in PyrollProps/C18.lean;
    # model and code must AGREE here (the scope/order oracle is silent on this malformed stream).
    _facs([("always", "i"), ("always", "f")]) + [
        ("class", [0], "n", False), ("class", [5], "a", False),                                     # A=5 (swallows), B=6
        ("reg", "p", 5, 0), ("reg", "q", 6, 1), ("unit", 6, 0), ("solve", 0, 0), ("unit", 5, 0), ("solve", 1, 0)],
]


# -------------------------------------------------------------------------------------------
# library facts (the only built-in processor)
# -------------------------------------------------------------------------------------------
def check_library(ctx):
    import pyroll.core as pr
    from pyroll.core.roll_pass.base import rotator_factory
    probs = []
    for cls in (pr.Unit, pr.PassSequence, pr.Transport, pr.Rotator, pr.DiskElementUnit, pr.CoolingPipe):
        inst = object.__new__(cls)
        for name, meth in (("pre_processors", cls._yield_pre_processors), ("post_processors", cls._yield_post_processors)):
            got = list(meth(inst))
            if got:
                probs.append(f"{cls.__name__} yields {name} {[getattr(x, '__name__', '?') for x in got]} although "
                             "nothing is registered on it or its bases")
    own = pr.BaseRollPass.__dict__.get("pre_processors")
    if own != [rotator_factory]:
        probs.append(f"BaseRollPass's own pre_processors are {own}, expected exactly the auto-rotator factory")
    for cls in (pr.TwoRollPass, pr.ThreeRollPass):
        if getattr(cls, "__abstractmethods__", None):
            continue
        inst = object.__new__(cls)
        got = list(cls._yield_pre_processors(inst))
        if got != [rotator_factory]:
            probs.append(f"{cls.__name__} yields pre_processors {[getattr(x, '__name__', '?') for x in got]}, expected "
                         "exactly the auto-rotator registered on BaseRollPass")
        if list(cls._yield_post_processors(inst)):
            probs.append(f"{cls.__name__} yields post-processors although none is registered")
    ctx.case(["library"], True)
    if probs:
        ctx.violation("library-auto-rotator-scope", probs[0],
                      {"check": "library", "problems": probs,
                       "how": "list(cls._yield_pre_processors(object.__new__(cls))) for the classes of pyroll.core"})


# -------------------------------------------------------------------------------------------
# run
# -------------------------------------------------------------------------------------------
def report(ctx, ops, problems):
    key, text = problems[0]
    try:
        small = shrink([o for o in ops], key)
    except Exception:
        small = ops
    pairs, real, _ = execute(small)
    lines = [ln for grp in pairs for (ln, _) in grp if not ln.startswith(("yield", "own"))]
    probs = real.problems or problems
    k2 = key if any(k == key for k, _ in probs) else probs[0][0]
    ctx.violation(k2, next(t for k, t in probs if k == k2),
                  {"ops": [op_json(o) for o in small], "lines": lines, "problems": [t for _, t in probs[:6]],
                   "how": "driver/props/c18.py: execute(ops) applies the ops to real classes/units (Real.apply) and "
                          "Real.problems holds what the oracle found; `./check C18 --replay <this file>`"})


def _digest(ctx, ops, pairs, real, stream, reported):
    """counters, samples and violations of one executed case; nothing of `real` is kept afterwards (the classes it
    created must be collectable: the cost of class creation grows with the number of live subclasses of Unit)"""
    lines = [ln for grp in pairs for (ln, _) in grp]
    hist = [ln for ln in lines if not ln.startswith(("yield", "own"))]
    nontrivial = any(sum(1 for e in r.ev if e.kind == "C") >= 2 for r in real.records)
    ctx.case(hist, nontrivial)
    ctx.count("stream:" + stream)
    for r in real.records:
        nc = sum(1 for e in r.ev if e.kind == "C")
        ctx.count("solve:consulted=" + (str(nc) if nc < 6 else "6+"))
        if any(e.kind == "C" and e.p is None for e in r.ev):
            ctx.count("solve:with-none-factory")
        if r.is_seq:
            ctx.count(f"seq:iterations={r.iters}")
        if r.later:
            ctx.count("solve:class-defined-after-applicable-registration")
        if r.sibling:
            ctx.count("solve:registrations-on-sibling-class-exist")
    for b in real.beh.values():
        ctx.count("processor:" + {"i": "in-place", "f": "copy", "s": "identity"}[b])
    depth = max((len(real.tail_of(c)) for c in real.classes), default=0)
    ctx.count(f"hierarchy:max-mro-length={depth + 1}")
    if len(ctx.samples) < 3 and nontrivial and stream == "cooperative":
        ctx.sample({"history": hist[:60]})
    if real.problems:
        key0 = real.problems[0][0]
        ctx.count("oracle:" + key0)
        if key0 not in reported and len(reported) < 6:        # shrink and write out one replay per kind
            reported.add(key0)
            report(ctx, ops, real.problems)
    return lines, [o for grp in pairs for (_, o) in grp]


def _compare(ctx, cases, state):
    """pipe the cases of one batch to the Lean model and compare every output line"""
    lean_lines = []
    for ops, lines, outs in cases:
        lean_lines.append("reset")
        lean_lines += lines
    out = ctx.lean_model(MODEL, lean_lines)
    pos = 0
    for ops, lines, outs in cases:
        pos += 1
        m_out = out[pos:pos + len(lines)]
        pos += len(lines)
        want = canon_objs(outs)
        got = canon_objs(m_out)
        if want == got:
            ctx.validated()
            continue
        state["n"] += 1
        if state["n"] > 20:
            ctx.count("disagreements-not-listed")
            continue
        i = next((i for i in range(len(lines)) if i >= len(got) or want[i] != got[i]), len(lines))
        ctx.disagreement(f"model and implementation differ at line #{i} ({lines[min(i, len(lines) - 1)]})",
                         {"lines": lines[:i + 1], "ops": [op_json(o) for o in ops],
                          "impl": want[i] if i < len(want) else None, "model": got[i] if i < len(got) else None})
    if pos != len(out):
        ctx.disagreement("model output length mismatch", {"expected": pos, "got": len(out)})


def run(ctx):
    import gc
    check_library(ctx)
    n_cases = ctx.budget(1500, 20000)
    use_model = getattr(ctx, "model_available", True)
    reported = set()
    state = {"n": 0}
    cases = []                      # (ops, lines, expected outputs) of the current batch
    for ops in CORPUS:
        pairs, real, _ = execute(ops)
        cases.append((ops,) + _digest(ctx, ops, pairs, real, "corpus", reported))
    for i in range(n_cases):
        malformed = ctx.rng.random() < 0.15
        n_ops = ctx.rng.randrange(14, 34 if ctx.tier == "quick" else 48)
        ops, pairs, real = gen_and_run(ctx.rng, n_ops, malformed, ctx.count)
        case = (ops,) + _digest(ctx, ops, pairs, real, "malformed" if malformed else "cooperative", reported)
        del real, pairs
        if use_model:
            cases.append(case)
        if i % 50 == 49:
            gc.collect()
        if len(cases) >= 2000:
            _compare(ctx, cases, state)
            cases = []
    if use_model and cases:
        _compare(ctx, cases, state)


def replay(ctx, data):
    r = data.get("replay", data)
    if r.get("check") == "library":
        check_library(ctx)
        return
    ops = [op_tuple(o) for o in r["ops"]]
    pairs, real, _ = execute(ops)
    for key, text in real.problems[:1]:
        ctx.violation(data.get("key", key), text, r)
