"""C18 - pre-/post-processors run in hierarchy order and affect only what they should.

Tie: T + K (hand-written model lean/PyrollModel/Proc.lean, theorems lean/PyrollProps/C18.lean).

T: driver/translate/c18_procs.py re-reads, on every run, the class attributes `pre_processors` / `post_processors`,
`Unit.__init_subclass__`, `_yield_pre_processors` / `_yield_post_processors`, `init_solve` (with its re-use branch for an existing out profile),
`solve`, `_solve_subunits` (pyroll/core/unit/unit.py), the library's own registration (pyroll/core/roll_pass/base.py) and the inventory of
overrides in pyroll/core, writes them as programs over a small instruction set (lean/PyrollModel/Gen/C18.lean,
interpreter lean/PyrollModel/ProcProg.lean); section 10 of lean/PyrollProps/C18.lean proves that running those programs
equals the hand-written model (`*_program_refines_*`, `library_as_modelled`).  A source change either leaves the
proofs intact, breaks the build, or leaves the translated subset (`ctx.tie_breaks`): broken tie -> extended search for a
failing input.  `check_generated` compares the statically read class table / overrides / registrations with the
running classes.

K (below):

One case = one history over a REAL class hierarchy: classes are created with type() below the library classes
Unit / PassSequence / DiskElementUnit / Transport / Rotator (single and multiple inheritance, non-unit mix-ins,
classes with a cooperative or a swallowing __init_subclass__), factories are registered / removed / cleared on any
of these classes in any order (also on classes that get subclasses LATER), units are instantiated and solved alone
and as members of sequences, several times.  Factories return a processor, nothing, or depend on the unit; processors
write their mark in place, return a marked copy, or return what they got.  Everything observable is recorded by the
harness objects themselves (factory consultations, processor solve calls with the identity of what they received and
returned, the iterations of the unit's own solution, the three profiles at the end).

The same op lines go to the Lean model (Drivers/c18.lean); the outputs (class ids, error kinds, the lists every class
yields, the complete event trace of every solve with object identities renamed by first appearance) must be equal.

The independent oracle (Real.check_record / Real.check_walk_of, fed by Real.reglog) is written from the property
text: it keeps its own registration log and
checks, for every solve call and for the walk of every class after every change, scope (= class and subclasses only,
each registration exactly once), order (base before subclass, registration order within a class), None-skipping,
threading, in_profile = last pre-processor output, post-processors leave the unit's own outgoing state alone,
pre < own < post.

Round 2 (seeded changes C18-5..7) added:
  * the library's roll pass classes (DeformationUnit, BaseRollPass, SymmetricRollPass, TwoRollPass, ThreeRollPass) and
    CoolingPipe are part of the hierarchy; the registrations the LIBRARY makes (the auto-rotator factory on BaseRollPass)
    are entries of the oracle's registration log and of the model (preamble lines derived from the real class dicts);
    classes below TwoRollPass are instantiated as real roll passes (groove, roll, gap) and solved - alone and inside
    sequences - with registrations on their base classes, on BaseRollPass and below.  A library factory is observed
    with sys.monitoring on its code object (nothing of the library is replaced), the processor it returns through an
    instance attribute on that (transient) object;
  * unit state the factories look at changes BETWEEN solves of the same unit (`setflag`; for a roll pass: its
    rotation), so a factory answers differently at a later solve;
  * oracle clauses for units inside sequences (what a member receives, a member's own outgoing state after its
    solve) and for processors that run without their factory having been asked at this solve;
  * an exception raised from inside pyroll while solving is an oracle finding (`solve-raised`), not a crash.

Round 3 (seeded change C18-9: the hand-over into a RE-USED out profile read the profile as the caller passed it) added:
  * processors that hand back a NEW profile object in which they ADDED a value (`c18_add_<p>`), CHANGED one (`c18_val`)
    or did not take the added ones over, next to the same done in place (`BEHS`); the harness-owned values (`owned`:
    marks and every `c18_*` entry - no hook, no unit of pyroll computes them) are snapshotted at every processor call,
    when the own solution starts (in profile; out profile BEFORE the own-solution mark is written), before the
    post-processing, and at the end;
  * oracle clauses from "the unit's incoming profile is what the last pre-processor returned" and what is derived from
    it: in profile = last pre-processor output in EVERY owned value; the out profile when the own solution starts =
    the same (first solve: new object; every later solve - second solve(), every round of an enclosing sequence -
    re-used object); the out state before the post-processing = that + the own mark; the returned profile = last
    pre-processor output, own mark, the post-processors of this solve; what the next member of a sequence receives and
    what a member keeps, in every owned value (keys `out-profile-…`, `in-profile-…-value-…`,
    `out-state-not-own-solution-on-last-pre-processor-output`, `returned-profile-…`);
  * sequences inside sequences (12 % of the histories allow them; the members of the inner one are solved >= 4
    times per solve of the outer one): not in the Lean model (one level) - such histories are checked by the oracle only.

Round 4 (seeded changes C18-10: the walks yield nothing for a unit that names a parent without being one of its
sub-units; C18-11: no post-processing when the solution loop ends by the iteration limit) added:
  * units solved AS processors of another unit are units like every other: the auto-rotator the library's factory makes
    (`Rotator(parent=roll_pass)`) gets a record of its own solve (instance attributes `solve` / `_solve_subunits` on the
    transient object), the harness's factories registered on Unit / Rotator are consulted for it, recorded and checked
    with every clause of `check_record` (keys prefixed `unit-used-as-processor-`); in ordinary histories they answer
    None for it (nothing changes for the model), in `helpermode` histories (15 %, oracle only) they make processors
    for it, and `hfac` factories make helper units of classes of the history the same way (`cls(parent=<owner>)`, no
    sub-unit of the owner) as pre- and post-processors, with registrations on the helper's own class hierarchy;
  * `maxit u k`: max_iteration_count of a unit (2: one round, the loop ends by the limit; 3: two rounds; 0: default) for
    leaf units, members, sequences and real roll passes; clause `no-post-processing-when-iteration-limit-reached` next
    to the existing scope / pre-own-post clauses, which hold on every way out of the solution loop;
  * the walk of a class is looked at on an instance that went through `Unit.__init__` (`_probe`), not a bare one.
"""
import collections
import inspect
import logging
import sys

ID = "C18"
LEAN_MODULES = ["PyrollProps.C18"]
MODEL = "c18"                                   # lean/Drivers/c18.lean
MODEL_MODULES = ["PyrollModel.ProcDriver"]
RULE = ("random histories over real class hierarchies built with type() below Unit/PassSequence/Transport/Rotator/"
        "DiskElementUnit/DeformationUnit/CoolingPipe/TwoRollPass/ThreeRollPass "
        "(MRO length up to ~14, diamonds, non-unit mix-ins; 15% of the cases contain a class whose __init_subclass__ does not call "
        "super() = malformed stream): class definitions interleaved with register/remove/clear on any class (library "
        "classes included: the bases and subclasses of BaseRollPass around the library's own auto-rotator registration) and with "
        "solves of leaf units and of sequences, re-solves of the same unit after its state (flag; rotation of a roll "
        "pass) changed included; 30% of the histories contain real two-roll passes (groove, roll, gap, real workpiece) "
        "solved alone and as members of sequences; 12% of the histories allow sequences as members of sequences "
        "(oracle only); 15% of the histories are `helpermode` ones (oracle only): factories that make a real UNIT of a "
        "class of the history with parent=<the unit it works for> (the pattern of the library's rotator_factory) as pre-/"
        "post-processor, registrations on the helper's own class hierarchy, and the library's auto-rotator gets the "
        "processors registered on Rotator/Unit - in every other history those factories are consulted for the auto-rotator "
        "too (recorded, checked) and answer None; about 12% of the solves follow a `maxit` (max_iteration_count 2 / 3 / "
        "default: the solution loop ends by the limit or by convergence) on leaf units, members, sequences, roll passes; "
        "factories always/never/unit-state-dependent, processors in-place/new-object/identity, the "
        "first two also adding, changing or dropping a value besides their mark (9 behaviours); about a quarter of "
        "the solve calls re-use an existing out profile (second solve of a unit, later rounds of a sequence). "
        "A case is non-trivial when some solve consulted >= 2 factories; distinct by the op lines.")
TRUSTED_EXTRA = ["AST pattern matcher for the processor code (driver/translate/c18_procs.py) and the meaning given to its "
                 "instructions (lean/PyrollModel/ProcProg.lean: attribute lookup along the MRO, `yield from`, what a `None` "
                 "processor does to `p.solve`, public copy = new object with the same marks)"]
ASSUMPTIONS = [
    "the statements of Unit's class body, __init_subclass__, _yield_pre/_post_processors, init_solve, solve and "
    "_solve_subunits are tied to the model by the programs translated from the source (refinement theorems, all inputs); "
    "the inventory of overrides, the init_solve overrides of BaseRollPass / DiskElementUnit, the library's registration and "
    "the class table are pinned (library_as_modelled)",
    "CPython class semantics (C3 MRO - the real __mro__ is an input of the model -, attribute lookup along the MRO, "
    "the implicit __init_subclass__ call of type.__new__, list.append/remove/clear) are modelled, not verified",
    "the number of iterations of a unit's own solution loop is numeric and therefore an input of the model",
    "hierarchies in which a user class defines __init_subclass__ without calling super() are outside the contract of the "
    "scope/order theorems (hypothesis OwnLists); model and code are still compared on them (see notes/C18.md, O1)",
    "the model is tied to the code by sampled differential runs (every output line compared)",
    "the library's own factories (auto-rotator) are observed with sys.monitoring on their code objects and their "
    "processors through an instance attribute `solve` on the returned object; the model treats such a factory as "
    "'answers by the unit's flag' (flag of a roll pass = it has a rotation) with a copying processor - what the rotator "
    "does to the geometry is C14's business",
    "ThreeRollPass-derived and abstract classes take part in the class-level (walk) checks only; a sequence of the "
    "harness holds at most one real roll pass",
    "the Lean model's profile state is the mark list: a processor that also adds / changes / drops another value is "
    "`fresh` or `inplace` there; those values are checked by the oracle on the real objects and, for the re-use "
    "branch of init_solve, by `refreshEntry` on the literals read from the source "
    "(source_reuse_branch_hands_over_every_entry); sequences inside sequences are checked by the oracle only",
    "the Lean model's processors are no units: a unit solved as processor of another unit (the library's auto-rotator, "
    "helper units made with parent=<owner>) is, in the model, a copying processor; that the processors registered on ITS "
    "class hierarchy are consulted / run for it is checked by the oracle on the real code (in ordinary histories the "
    "harness's factories answer None for it, so the model's trace is unaffected; `helpermode` histories are oracle only); "
    "the walk of a class is observed on an instance initialised by Unit.__init__ only (no parent, no sub-units)",
]

NAMES = {"p": "pre_processors", "q": "post_processors"}
LIBNAMES = ["Unit", "PassSequence", "DiskElementUnit", "Transport", "Rotator",
            "DeformationUnit", "BaseRollPass", "SymmetricRollPass", "TwoRollPass", "ThreeRollPass", "CoolingPipe"]
(C_UNIT, C_SEQ, C_DEU, C_TRANSPORT, C_ROTATOR, C_DEFU, C_BRP, C_SRP, C_TWO, C_THREE, C_COOL) = range(11)
M0 = len(LIBNAMES)            # id of the first class a history defines
LIBFAC0 = 900                 # factory / processor ids of the registrations the library itself makes
HELPER0 = 1000                # ids of units that are solved AS processors of another unit (created with parent=<owner>,
#                               not listed in owner.subunits): the library's auto-rotator, helper units of the harness


# what a processor of the harness does with the profile it receives (op `beh p <letter>`).  Every behaviour except "s"
# writes its mark (the value `marks` CHANGES); the upper-case ones work IN PLACE on the received object, the
# lower-case ones (except "i", "s") return a NEW profile object holding the public entries of the received one - as
# every real unit used as processor does (`Unit.solve` returns a fresh profile):
#   i  in place: mark                      f  new object: mark                     s  returns what it got, untouched
#   A  in place: mark + ADDS a value       a  new object: mark + ADDS a value      (attribute `c18_add_<p>`)
#   C  in place: mark + CHANGES a value    c  new object: mark + CHANGES a value   (attribute `c18_val`, every workpiece has it)
#   D  in place: mark + DROPS the added    d  new object: mark, the added values are not taken over
# The Lean model's state is the marks: there a/c/d are `fresh`, A/C/D `inplace` (lean/PyrollModel/ProcDriver.lean: beh?).
BEHS = "ifsaAcCdD"
NEW_OBJECT_BEHS = "facd"
ADD_PREFIX = "c18_add_"
VAL_ATTR = "c18_val"


def owned(o):
    """the values of a profile object that belong to the harness (no unit of pyroll computes them, no hook has their
    names): `marks` and every `c18_*` entry - as a sorted tuple of (name, value)"""
    d = getattr(o, "__dict__", None) or {}
    return tuple(sorted((k, v) for k, v in d.items() if k == "marks" or k.startswith("c18_")))


def _short(v):
    if isinstance(v, tuple) and v and all(isinstance(x, tuple) and len(x) == 2 for x in v):
        return [t for t, _ in v]
    return v


def owned_diff(got, want):
    """first difference between two `owned` snapshots: (kind, text), kind in marks / lacks / holds / value; or None"""
    g, w = dict(got), dict(want)
    if tuple(g.get("marks", ())) != tuple(w.get("marks", ())):
        return "marks", f"carries the marks {_short(tuple(g.get('marks', ())))}, expected {_short(tuple(w.get('marks', ())))}"
    for k in sorted(w):
        if k not in g:
            return "lacks", f"lacks the value `{k}` = {_short(w[k])}"
    for k in sorted(g):
        if k not in w:
            return "holds", f"holds a value `{k}` = {_short(g[k])} that is not there"
    for k in sorted(w):
        if g[k] != w[k]:
            return "value", f"has `{k}` = {_short(g[k])}, expected {_short(w[k])}"
    return None


class HarnessError(RuntimeError):
    """raised by the harness about its own mistakes (never an oracle finding)"""


def _raised_by_harness(e):
    """did this exception come out of harness code (this file) rather than out of pyroll?"""
    seen = 0
    while e is not None and seen < 10:
        if isinstance(e, HarnessError):
            return True
        tb = e.__traceback__
        last = None
        while tb is not None:
            last = tb
            tb = tb.tb_next
        if last is not None and last.tb_frame.f_code.co_filename == __file__:
            return True
        e = e.__cause__
        seen += 1
    return False


# ---- observation of library factories: sys.monitoring on their code objects (python >= 3.12) -------------------
_MON = {"tool": None, "active": None}


def _cb_start(code, offset):
    r = _MON["active"]
    if r is not None:
        r.mon_start(code, sys._getframe(1))


def _cb_return(code, offset, retval):
    r = _MON["active"]
    if r is not None:
        r.mon_return(code, retval)


def _mon_tool():
    """tool id of the harness (claimed once per process), None if the interpreter has no sys.monitoring"""
    mon = getattr(sys, "monitoring", None)
    if mon is None:
        return None
    if _MON["tool"] is None:
        for tid in (3, 4):
            try:
                mon.use_tool_id(tid, "verif-c18")
            except ValueError:
                continue
            mon.register_callback(tid, mon.events.PY_START, _cb_start)
            mon.register_callback(tid, mon.events.PY_RETURN, _cb_return)
            _MON["tool"] = tid
            break
    return _MON["tool"]


def _sub(a, b):
    """a is b or a subclass of b (plain MRO membership: no ABC virtual-subclass machinery, whose cost grows with the
    number of live subclasses of Unit)"""
    return b in a.__mro__


def _probe(cls):
    """an instance of a unit class for looking at its walks without its constructor (abstract methods, required
    arguments): the state every unit has (`Unit.__init__`: label, no parent, no sub-units, no profiles) and nothing else"""
    import pyroll.core as pr
    inst = object.__new__(cls)
    try:
        pr.Unit.__init__(inst, label="probe")
    except Exception:
        pass
    return inst


def _quiet():
    logging.getLogger("pyroll").setLevel(logging.ERROR)


class Ev:
    __slots__ = ("t", "kind", "w", "f", "p", "res", "recv", "ret", "recv_marks", "ret_marks", "unit_ok", "asked",
                 "recv_attrs", "ret_attrs", "beh", "unitproc")

    def __init__(self, t, kind, **kw):
        self.t = t
        self.kind = kind
        for k in self.__slots__[2:]:
            setattr(self, k, kw.get(k))


class Rec:
    """everything recorded about ONE call of unit.solve"""

    def __init__(self, uid, unit, inp, is_seq):
        self.uid = uid
        self.unit = unit
        self.inp = inp
        self.inp_marks = tuple(getattr(inp, "marks", ()))
        self.inp_attrs = owned(inp)   # the harness-owned values (marks, c18_*) of the handed-in profile at entry
        self.is_seq = is_seq
        self.ev = []
        self.iters = 0
        self.in_marks_at_own = None
        self.in_obj_at_own = None
        self.out_marks_before_post = None
        self.out_obj_before_post = None
        self.ret = None
        self.ret_marks = None
        self.out_marks_at_leave = None
        self.in_attrs_at_own = None       # harness-owned values of in_profile / out_profile when the own solution starts
        self.out_attrs_at_own = None      # (the out profile BEFORE the harness writes the own-solution mark on it)
        self.out_obj_at_own = None
        self.own_mark = None              # the mark the own solution of THIS solve wrote on out_profile
        self.out_attrs_before_post = None
        self.ret_attrs = None
        self.out_attrs_at_leave = None
        self.parent_in_attrs = None
        self.reused_out = False           # the unit had an out profile already when this solve was entered (re-solve)
        self.depth = 0                    # nesting depth (0 = the solve the harness called)
        self.flag = None          # the unit's flag while this solve ran
        self.children = []        # records of the members solved inside this solve, in order
        self.parent_iter = None   # iteration of the enclosing solve in which this one ran
        self.parent_in_marks = None   # marks of the enclosing unit's in_profile when this solve was entered
        self.later = False        # the unit's class was defined after a registration that applies to it
        self.helper = False       # the unit is solved as a processor of another unit (parent=<owner>, no sub-unit of it)
        self.mute = False         # ... in a history in which the harness's factories have nothing for such units: they
        #                           are consulted (and recorded) and answer None; no trace line, no own-solution mark
        self.limit = None         # max_iteration_count the harness set on the unit (None: the library's default)
        self.sibling = False      # a registration exists on a sibling class (common made base, not a base of ours)


class Proc:
    """a processor: only .label and .solve are used by Unit.init_solve / Unit.solve"""

    def __init__(self, real, p, ev):
        self.real = real
        self.p = p
        self.label = f"proc{p}"
        self.consult = ev
        self.rec = None           # the solve call whose consultation created this processor
        self.used = False

    def solve(self, profile):
        return self.real.on_proc(self, profile)


class Real:
    """Executes op tuples on the real implementation and records what happens."""

    def __init__(self):
        import pyroll.core as pr
        _quiet()
        self.pr = pr
        self.lib = [getattr(pr, n) for n in LIBNAMES]
        self.classes = list(self.lib)
        self.cinfo = [{"isub": None, "mixin": False, "made": False} for _ in self.lib]
        self.saved = [(c, n, list(c.__dict__[n])) for c in self.lib for n in NAMES.values() if n in c.__dict__]
        self.fobj = {}
        self.fid = {}
        self.fdef = {}
        self.beh = {}
        self.units = []
        self.uflag = []
        self.useq = []
        self.uid = {}
        self.listed = set()
        self.members = {}         # sequence unit id -> member unit ids
        self.named = []
        self.objs = {}
        self.keep = []
        self.stack = []
        self.trace = []
        self.records = []
        self.clock = 0
        self.serial = 0
        self.reglog = []          # the ORACLE's registration log: dicts(serial, w, cls, f)
        self.malformed = False    # a class with a swallowing __init_subclass__ exists
        self.problems = []        # (key, text) found by the oracle so far
        self.named_deformed = []  # per named profile: did it pass a roll pass (geometry no longer the fresh one)?
        self.foreign_depth = 0    # > 0 while a library processor (a real unit) solves itself
        self.pending = []         # library factory calls entered and not yet returned: (code, argument)
        self.flag_changed = set() # units whose flag changed since their last solve
        self.nested = False       # a sequence of this history has a sequence as member (not in the Lean model: oracle only)
        self.helper_mode = False  # op `helpermode`: units solved as processors of another unit get the processors the
        #                           harness's factories registered on THEIR classes make (not in the Lean model: oracle only)
        self.hunits = {}          # id(unit) -> helper id (>= HELPER0)
        self.hkeep = []           # the helper units (kept alive: ids must not be re-used)
        self.howner = {}          # helper id -> uid of the unit it works for
        self.hcls = {}            # factory id -> class id of the helper units it makes (op `hfac`)
        self.limits = {}          # uid -> max_iteration_count set by op `maxit`
        # registrations the LIBRARY itself made (the auto-rotator on BaseRollPass): part of the log, serial = scan order
        self.libfac = {}          # factory id -> the library's factory object
        self.libreg = []          # (w, class id, factory id)
        self.codefid = {}         # code object -> factory id
        self.unobservable = set() # library factory ids whose calls cannot be observed
        for ci, c in enumerate(self.lib):
            for w, n in NAMES.items():
                for x in c.__dict__.get(n) or ():
                    f = self.fid.get(id(x))
                    if f is None:
                        f = LIBFAC0 + len(self.libfac)
                        self.libfac[f] = x
                        self.fobj[f] = x
                        self.fid[id(x)] = f
                        self.fdef[f] = ("flag", f)     # what the model assumes of it: answers by the unit's flag
                        self.beh[f] = "f"              # ... with a processor that returns a new profile
                        code = getattr(x, "__code__", None)
                        if code is None or not code.co_argcount:
                            self.unobservable.add(f)
                        else:
                            self.codefid[code] = f
                    self.serial += 1
                    self.libreg.append((w, ci, f))
                    self.reglog.append({"serial": self.serial, "w": w, "cls": c, "f": f})
        self.tool = _mon_tool() if self.codefid else None
        if self.codefid and self.tool is None:
            self.unobservable.update(self.codefid.values())
        if self.tool is not None:
            mon = sys.monitoring
            _MON["active"] = self
            for code in self.codefid:
                mon.set_local_events(self.tool, code, mon.events.PY_START | mon.events.PY_RETURN)

    # ---- bookkeeping ---------------------------------------------------------------------
    def restore(self):
        if self.tool is not None:
            for code in self.codefid:
                sys.monitoring.set_local_events(self.tool, code, 0)
            if _MON["active"] is self:
                _MON["active"] = None
        for c, n, l in self.saved:
            c.__dict__[n][:] = l

    def is_rollpass_class(self, c):
        return _sub(c, self.pr.BaseRollPass)

    def solvable(self, c):
        """can the harness make and solve instances?  not abstract classes; ThreeRollPass (it would need an own
        family of incoming profiles) takes part in the class-level checks only"""
        return self.is_unit_class(c) and not inspect.isabstract(c) and not _sub(c, self.pr.ThreeRollPass)

    def gives(self, f, uid):
        """what factory f of the harness answers for unit uid in its CURRENT state"""
        kind, _p = self.fdef[f]
        if uid >= HELPER0:
            # a unit solved as processor of another unit: the harness's factories know it only in `helpermode`
            # histories; a helper never gets helpers itself (no recursion)
            return self.helper_mode and kind == "always"
        return kind == "always" or (kind == "flag" and uid >= 0 and self.uflag[uid]) or (kind == "helper" and uid >= 0)

    def gives_at(self, f, rec):
        """the same for the unit as it was while the solve call `rec` ran"""
        kind, _p = self.fdef[f]
        if rec.helper:
            return self.helper_mode and kind == "always"
        return kind in ("always", "helper") or (kind == "flag" and bool(rec.flag))

    def add_helper(self, unit, owner_uid):
        hid = HELPER0 + len(self.hkeep)
        self.hunits[id(unit)] = hid
        self.hkeep.append(unit)
        self.howner[hid] = owner_uid
        return hid

    def any_uid(self, unit):
        uid = self.uid.get(id(unit))
        return self.hunits.get(id(unit), -1) if uid is None else uid

    def tick(self):
        self.clock += 1
        return self.clock

    def oid(self, o):
        k = self.objs.get(id(o))
        if k is None:
            k = len(self.keep)
            self.objs[id(o)] = k
            self.keep.append(o)
        return k

    def is_unit_class(self, c):
        return isinstance(c, type) and _sub(c, self.pr.Unit)

    def tail_of(self, cls):
        ids = {id(c): i for i, c in enumerate(self.classes)}
        return [ids[id(k)] for k in cls.__mro__[1:] if id(k) in ids]

    @staticmethod
    def L(xs):
        return ",".join(map(str, xs)) if xs else "-"

    def preamble(self, ctx=None):
        """model lines that define the library classes, derived from the REAL classes"""
        pairs = []
        for i, c in enumerate(self.lib):
            own = "__init_subclass__" in c.__dict__
            if c is self.pr.Unit:
                isub = "u" if own else "a"
                body = 1
            else:
                isub = "c" if own else "a"     # a library class defining its own would have to be read; none does
                if own and ctx is not None:
                    ctx.tie_breaks.append(f"{c.__name__} defines __init_subclass__: not modelled")
                body = 0
            tail = [j for j, k in enumerate(self.lib) if k in c.__mro__[1:]]
            tail.sort(key=lambda j: c.__mro__.index(self.lib[j]))
            pairs.append((f"class {self.L(tail)} {isub} {body}", f"c{i}"))
        for f in self.libfac:
            pairs.append((f"fac {f} flag {f}", "ok"))
            pairs.append((f"beh {f} f", "ok"))
            if f in self.unobservable and ctx is not None:
                ctx.tie_breaks.append(f"library factory {getattr(self.libfac[f], '__name__', '?')} cannot be observed "
                                      "(no python function / no sys.monitoring): units in its scope are not solved")
        for w, ci, f in self.libreg:
            pairs.append((f"reg {w} {ci} {f}", "ok"))
        return pairs

    # ---- instrumentation (namespace of every class the harness creates) --------------------
    def namespace(self, isub):
        real = self

        def solve(self_, in_profile):
            return real.on_solve(self_, in_profile)

        def _solve_subunits(self_):
            real.on_iter(self_)
            return real.pr.Unit._solve_subunits(self_)

        ns = {"solve": solve, "_solve_subunits": _solve_subunits}
        holder = {}
        if isub == "c":
            def isc(cls, **kw):
                super(holder["c"], cls).__init_subclass__(**kw)
            ns["__init_subclass__"] = classmethod(isc)
        elif isub == "n":
            def isc(cls, **kw):
                pass
            ns["__init_subclass__"] = classmethod(isc)
        return ns, holder

    def on_solve(self, unit, in_profile, call=None):
        uid = self.uid.get(id(unit))
        helper = uid is None
        if helper:
            uid = self.hunits.get(id(unit))
            if uid is None:
                raise HarnessError("harness: solve of a unit the harness does not know")
            rec = Rec(uid, unit, in_profile, False)
            rec.flag = False
            rec.helper = True
            rec.mute = not self.helper_mode
        else:
            rec = Rec(uid, unit, in_profile, self.useq[uid])
            rec.flag = self.uflag[uid]
            rec.limit = self.limits.get(uid)
        rec.reused_out = unit.out_profile is not None
        rec.depth = len(self.stack)
        if self.stack and not helper:
            parent = self.stack[-1]
            rec.parent_iter = parent.iters
            rec.parent_in_marks = tuple(getattr(parent.unit.in_profile, "marks", ()))
            rec.parent_in_attrs = owned(parent.unit.in_profile)
            parent.children.append(rec)
        self.stack.append(rec)
        if not rec.mute:
            self.trace.append(f"E {uid} #{self.oid(in_profile)}")
        try:
            ret = self.pr.Unit.solve(unit, in_profile) if call is None else call(in_profile)
        finally:
            self.stack.pop()
        rec.ret = ret
        rec.ret_marks = tuple(getattr(ret, "marks", ()))
        rec.ret_attrs = owned(ret)
        ip, op = unit.in_profile, unit.out_profile
        rec.out_marks_at_leave = tuple(getattr(op, "marks", ()))
        rec.out_attrs_at_leave = owned(op)
        self.flag_changed.discard(uid)
        if not rec.mute:
            self.trace.append(f"L {uid} #{self.oid(ret)} #{self.oid(ip)} #{self.oid(op)} "
                              f"{self.show_marks(ret)} {self.show_marks(ip)} {self.show_marks(op)}")
        self.records.append(rec)
        self.check_record(rec)
        return ret

    def on_iter(self, unit):
        rec = self.stack[-1]
        if rec.unit is not unit:
            raise HarnessError("harness: iteration of a unit that is not being solved")
        rec.iters += 1
        rec.ev.append(Ev(self.tick(), "O"))
        if rec.iters == 1:
            rec.in_obj_at_own = unit.in_profile
            rec.in_marks_at_own = tuple(unit.in_profile.marks)
            rec.in_attrs_at_own = owned(unit.in_profile)
            rec.out_obj_at_own = unit.out_profile
            rec.out_attrs_at_own = owned(unit.out_profile)      # what init_solve handed over, before the own solution
            if not rec.mute:
                self.serial += 1
                rec.own_mark = (f"o{rec.uid}", self.serial)
                unit.out_profile.marks = tuple(getattr(unit.out_profile, "marks", ())) + (rec.own_mark,)
        if (rec.is_seq or rec.iters == 1) and not rec.mute:
            self.trace.append(f"O {rec.uid}")

    def phase(self, rec):
        return "p" if rec.iters == 0 else "q"

    def snapshot_out_before_post(self, rec, w):
        """the unit's outgoing state when the first thing of the post-processing happens"""
        if w == "q" and rec.out_obj_before_post is None:
            rec.out_obj_before_post = rec.unit.out_profile
            rec.out_marks_before_post = tuple(getattr(rec.unit.out_profile, "marks", ()))
            rec.out_attrs_before_post = owned(rec.unit.out_profile)

    def on_factory(self, f, unit):
        if not self.stack:
            raise HarnessError("harness: factory consulted outside a solve")
        uid = self.any_uid(unit)
        if uid < 0 and self.foreign_depth:
            # a processor the LIBRARY created that could not be instrumented is solving itself and asks the
            # factories registered on its own classes: the harness's factories have nothing for units they do not know
            return None
        rec = self.stack[-1]
        w = self.phase(rec)
        self.snapshot_out_before_post(rec, w)
        kind, p = self.fdef[f]
        # (a unit solved as processor of another unit - the auto-rotator the library creates, a helper unit of the
        # harness - is a unit like every other: the factories registered on ITS classes are consulted, the consultation
        # is recorded in the record of ITS solve; outside `helpermode` histories they have nothing for it)
        give = self.gives(f, uid)
        ev = Ev(self.tick(), "C", w=w, f=f, p=p if give else None, unit_ok=unit is rec.unit)
        rec.ev.append(ev)
        if not rec.mute:
            self.trace.append(f"C {w} {f} {uid}")
        if not give:
            return None
        if kind == "helper":
            return self.make_helper(f, p, ev, rec, unit, uid)
        proc = Proc(self, p, ev)
        proc.rec = rec
        return proc

    def make_helper(self, f, p, ev, rec, owner, owner_uid):
        """the processor is a REAL unit of a class of the history, created the way the library creates its auto-rotator:
        `parent=<the unit it works for>`, not one of that unit's sub-units; solved by the standard `Unit.solve`"""
        cls = self.classes[self.hcls[f]]
        h = cls(label=f"h{len(self.hkeep)}", parent=owner, **self.unit_kwargs(cls, 0))
        self.add_helper(h, owner_uid)
        d = h.__dict__
        d["_c18_consult"] = (ev, rec, [False])
        real = self

        def solve(profile, _h=h, _p=p, _f=f):
            return real.on_unit_proc(_h, _f, _p, lambda prof: type(_h).solve(_h, prof), profile)
        d["solve"] = solve
        return h

    # ---- a factory of the library (observed through sys.monitoring, see _cb_start/_cb_return) -----------------
    def mon_start(self, code, frame):
        try:
            arg = frame.f_locals.get(code.co_varnames[0])
        except Exception:
            arg = None
        self.pending.append((code, arg))

    def mon_return(self, code, retval):
        arg = None
        while self.pending:
            c, a = self.pending.pop()
            if c is code:
                arg = a
                break
        f = self.codefid.get(code)
        if f is None or not self.stack or self.foreign_depth:
            return
        rec = self.stack[-1]
        w = self.phase(rec)
        self.snapshot_out_before_post(rec, w)
        uid = self.uid.get(id(arg), -1)
        ev = Ev(self.tick(), "C", w=w, f=f, p=f if retval is not None else None, unit_ok=arg is rec.unit)
        rec.ev.append(ev)
        self.trace.append(f"C {w} {f} {uid}")
        if retval is None:
            return
        d = getattr(retval, "__dict__", None)
        if d is None:
            self.unobservable.add(f)
            return
        d["_c18_consult"] = (ev, rec, [False])
        if "_c18_solve" not in d:
            real = self
            orig = retval.solve
            # the library's processor is a unit (the auto-rotator: `Rotator(parent=roll_pass)`, no sub-unit of the
            # pass) solved by the standard `Unit.solve`: it gets a record of its own like every unit the harness
            # solves (instance attributes on this transient object; nothing of the library is replaced)
            is_unit = isinstance(retval, self.pr.Unit) and type(retval).solve is self.pr.Unit.solve \
                and type(retval)._solve_subunits is self.pr.Unit._solve_subunits and type(retval) in self.classes
            if is_unit:
                self.add_helper(retval, uid)
                orig_ss = retval._solve_subunits

                def _solve_subunits(_proc=retval, _orig_ss=orig_ss):
                    real.on_iter(_proc)
                    return _orig_ss()
                d["_solve_subunits"] = _solve_subunits

            def solve(profile, _proc=retval, _orig=orig, _f=f, _is_unit=is_unit):
                return real.on_lib_proc(_proc, _f, _orig, profile, _is_unit)
            d["_c18_solve"] = True
            d["solve"] = solve

    def on_lib_proc(self, proc, f, orig, profile, is_unit=False):
        if _MON["active"] is not self or not self.stack:
            return orig(profile)
        if is_unit:
            return self.on_unit_proc(proc, f, f, lambda prof: self.on_solve(proc, prof, call=orig), profile)

        def call(prof):
            self.foreign_depth += 1
            try:
                return orig(prof)
            finally:
                self.foreign_depth -= 1
        return self.on_unit_proc(proc, f, f, call, profile)

    def on_unit_proc(self, proc, f, p, call, profile):
        """a processor that is itself a unit (made by the library or by a `helper` factory of the harness) runs"""
        rec = self.stack[-1]
        w = self.phase(rec)
        self.snapshot_out_before_post(rec, w)
        ev0, rec0, used = proc.__dict__["_c18_consult"]
        asked = rec0 is rec and not used[0]
        used[0] = True
        recv_marks = tuple(getattr(profile, "marks", ()))
        recv_attrs = owned(profile)
        ret = call(profile)
        self.serial += 1
        mark = (f"p{p}", self.serial)
        # instrumentation (like the own-solution mark): what the unit used as processor returned carries its mark
        ret.marks = tuple(getattr(ret, "marks", ())) + (mark,)
        rec.ev.append(Ev(self.tick(), "P", w=w, p=p, f=f, recv=profile, ret=ret, recv_marks=recv_marks,
                         ret_marks=tuple(ret.marks), res=mark, asked=asked, recv_attrs=recv_attrs,
                         ret_attrs=owned(ret), beh="f", unitproc=True))
        if not rec.mute:
            self.trace.append(f"P {w} {p} #{self.oid(profile)} #{self.oid(ret)}")
        return ret

    def on_proc(self, proc, profile):
        rec = self.stack[-1]
        w = self.phase(rec)
        self.snapshot_out_before_post(rec, w)
        asked = proc.rec is rec and not proc.used
        proc.used = True
        b = self.beh[proc.p]
        self.serial += 1
        mark = (f"p{proc.p}", self.serial)
        recv_marks = tuple(profile.marks)
        recv_attrs = owned(profile)
        if b == "s":
            ret = profile
        else:
            if b in NEW_OBJECT_BEHS:
                # a NEW profile object, as every real unit returns one; "d": the added values are not taken over
                ret = self.pr.Profile(**{k: v for k, v in profile.__dict__.items() if not k.startswith("_")
                                         and not (b == "d" and k.startswith(ADD_PREFIX))})
            else:
                ret = profile
                if b == "D":
                    for k in [k for k in profile.__dict__ if k.startswith(ADD_PREFIX)]:
                        delattr(profile, k)
            ret.marks = tuple(profile.marks) + (mark,)
            if b in "aA":
                setattr(ret, f"{ADD_PREFIX}{proc.p}", ("added", proc.p, self.serial))
            elif b in "cC":
                setattr(ret, VAL_ATTR, ("changed", proc.p, self.serial))
        rec.ev.append(Ev(self.tick(), "P", w=w, p=proc.p, f=proc.consult.f, recv=profile, ret=ret, recv_marks=recv_marks,
                         ret_marks=tuple(ret.marks), res=mark, asked=asked, recv_attrs=recv_attrs,
                         ret_attrs=owned(ret), beh=b))
        self.trace.append(f"P {w} {proc.p} #{self.oid(profile)} #{self.oid(ret)}")
        return ret

    @staticmethod
    def show_marks(o):
        m = getattr(o, "marks", ())
        return ",".join(t for (t, _) in m) if m else "-"

    # ---- ops -----------------------------------------------------------------------------
    def apply(self, op):
        """returns [(model line, expected output)]"""
        n = op[0]
        if n == "fac":
            _, f, kind, p = op
            self.fdef[f] = (kind, p)
            real = self

            def factory(unit, _f=f):
                return real.on_factory(_f, unit)
            factory.__name__ = f"factory{f}"
            self.fobj[f] = factory
            self.fid[id(factory)] = f
            return [(f"fac {f} {kind} {p}", "ok")]
        if n == "helpermode":
            # from here on the harness's factories know the units that are solved as processors of another unit (the
            # auto-rotator the library makes, the helper units of `hfac` factories): what is registered on THEIR
            # classes makes processors for them.  Not in the Lean model (its processors are no units): oracle only
            self.helper_mode = True
            return []
        if n == "hfac":
            # a factory whose processor is a real unit of class c created with parent=<the unit it works for> - the
            # pattern of the library's rotator_factory; for a unit that is itself such a helper it returns nothing
            _, f, c, p = op
            if not self.helper_mode:
                raise HarnessError("harness: hfac outside a helpermode history")
            cls = self.classes[c]
            if not self.solvable(cls) or self.is_rollpass_class(cls) or _sub(cls, self.pr.PassSequence):
                raise HarnessError("harness: helper units are plain leaf units")
            self.fdef[f] = ("helper", p)
            self.hcls[f] = c
            self.beh[p] = "f"
            real = self

            def factory(unit, _f=f):
                return real.on_factory(_f, unit)
            factory.__name__ = f"helper_factory{f}"
            self.fobj[f] = factory
            self.fid[id(factory)] = f
            return []
        if n == "maxit":
            # the unit's solution loop may end by the iteration limit instead of by convergence (2: one round, nothing
            # to compare with; 3: two rounds); 0: back to the library's default.  The number of rounds is an input of
            # the model, so nothing is sent to it
            _, u, k = op
            if k:
                self.units[u].max_iteration_count = k
                self.limits[u] = k
            else:
                self.units[u].__dict__.pop("max_iteration_count", None)
                self.limits.pop(u, None)
            return []
        if n == "beh":
            if op[2] not in BEHS:
                raise HarnessError(f"harness: unknown processor behaviour {op[2]!r}")
            self.beh[op[1]] = op[2]
            return [(f"beh {op[1]} {op[2]}", "ok")]
        if n == "class":
            _, bases, isub, mixin = op
            k = len(self.classes)
            if mixin:
                cls = type(f"M{k}", tuple(self.classes[b] for b in bases), {})
            else:
                ns, holder = self.namespace(isub)
                cls = type(f"K{k}", tuple(self.classes[b] for b in bases), ns)
                holder["c"] = cls
            self.classes.append(cls)
            self.serial += 1
            self.cinfo.append({"isub": isub, "mixin": mixin, "made": True, "serial": self.serial})
            if isub == "n":
                self.malformed = True
            out = [(f"class {self.L(self.tail_of(cls))} {isub} 0", f"c{k}")]
            return out + self.static_queries(k)
        if n in ("reg", "unreg", "clear"):
            w, c = op[1], op[2]
            cls = self.classes[c]
            line = f"{n} {w} {c}" + ("" if n == "clear" else f" {op[3]}")
            try:
                lst = getattr(cls, NAMES[w])
            except AttributeError:
                return [(line, "AttributeError")]
            if n == "reg":
                lst.append(self.fobj[op[3]])
                self.serial += 1
                self.reglog.append({"serial": self.serial, "w": w, "cls": cls, "f": op[3]})
            elif n == "unreg":
                try:
                    lst.remove(self.fobj[op[3]])
                except ValueError:
                    return [(line, "ValueError")]
                for r in self.reglog:            # the earliest live registration of f made on this class
                    if r["w"] == w and r["cls"] is cls and r["f"] == op[3]:
                        self.reglog.remove(r)
                        break
            else:
                lst.clear()
                self.reglog = [r for r in self.reglog if not (r["w"] == w and r["cls"] is cls)]
            return [(line, "ok")] + self.static_queries(c)
        if n == "unit":
            _, c, flag = op
            cls = self.classes[c]
            if not self.solvable(cls):
                raise HarnessError("harness: unit of a class that is abstract / not solved by the harness")
            u = cls(label=f"u{len(self.units)}", **self.unit_kwargs(cls, flag))
            return [(f"unit {c} {flag}", self.add_unit(u, flag, False))]
        if n == "setflag":
            # the unit state the unit-dependent factories look at changes between two solves of the same unit
            # (for a roll pass: its rotation, which is what the library's auto-rotator factory decides from)
            _, u, flag = op
            if bool(flag) != self.uflag[u]:
                self.flag_changed.add(u)
            self.uflag[u] = bool(flag)
            if self.is_rollpass_class(type(self.units[u])):
                self.units[u].rotation = 90 if flag else 0
            return [(f"setflag {u} {int(bool(flag))}", "ok")]
        if n == "seq":
            _, c, flag, subs = op
            cls = self.classes[c]
            for s in subs:
                if s in self.listed:
                    raise HarnessError("harness: sequence member already listed")
                if self.useq[s]:
                    # a sequence as member of a sequence: the real recursion is the same Unit.solve; the Lean model
                    # has one level of sequences, so such a history is checked by the oracle only
                    self.nested = True
            if sum(1 for s in subs for x in self.descendants(s) if self.is_rollpass_class(type(self.units[x]))) > 1:
                raise HarnessError("harness: more than one roll pass in a sequence")
            kw = {"duration": 0}
            if _sub(cls, self.pr.Rotator):
                kw["rotation"] = 0
            u = cls([self.units[s] for s in subs], label=f"u{len(self.units)}", **kw)
            self.listed.update(subs)
            self.members[len(self.units)] = list(subs)
            return [(f"seq {c} {flag} {self.L(subs)}", self.add_unit(u, flag, True))]
        if n == "newprof":
            # a real workpiece (the roll passes need geometry, temperature, flow stress), marks = what the processors write
            p = self.pr.Profile.round(diameter=30e-3, temperature=1400, material="steel", length=1, strain=0,
                                      flow_stress=50e6, marks=())
            self.serial += 1
            setattr(p, VAL_ATTR, ("initial", self.serial))      # a value the processors of kind c / C change
            self.named.append(p)
            self.named_deformed.append(False)
            return [("newprof", f"#{self.oid(p)}")]
        if n in ("solve", "solveseq"):
            _, u, k = op
            unit = self.units[u]
            involved = [self.units[x] for x in self.descendants(u)]
            has_pass = any(self.is_rollpass_class(type(x)) for x in involved)
            if has_pass and self.named_deformed[k]:
                raise HarnessError("harness: a roll pass is fed only with a workpiece of the fresh geometry")
            why = None
            for x in involved:
                problems = self.check_walk_of(type(x))
                if any(key.startswith("walk-foreign") for key, _ in problems):
                    # a factory the harness does not own would be called with our unit: do not run it
                    why = "foreign-factory-in-walk"
                lf = [self.fid.get(id(f)) for w in "pq" for f in self.walk_of(type(x), w)]
                lf = [f for f in lf if f in self.libfac]
                if any(not any(r["f"] == f and _sub(type(x), r["cls"]) for r in self.reglog) for f in lf):
                    # a library factory (written for roll passes) would be called with a unit outside its scope
                    why = why or "library-factory-outside-its-scope-in-walk"
                if any(f in self.unobservable for f in lf):
                    why = why or "unobservable-library-factory-in-walk"
            if why:
                self.named.append(self.named[k])
                self.named_deformed.append(self.named_deformed[k])
                return [(f"{n} {u} {k}", "not-run:" + why)]
            self.trace = []
            self.pending = []
            n_rec = len(self.records)
            try:
                ret = unit.solve(self.named[k])
            except Exception as e:
                if _raised_by_harness(e):
                    raise
                # the code under test raised while solving (the harness's units, factories and processors never do)
                del self.stack[:]
                self.foreign_depth = 0
                cause = e
                while cause.__cause__ is not None:
                    cause = cause.__cause__
                self.problems.append(("solve-raised", f"u{u} ({type(unit).__mro__[1].__name__}-based): solve raised "
                                                      f"{type(cause).__name__}: {str(cause)[:160]}"))
                self.named.append(self.named[k])
                self.named_deformed.append(self.named_deformed[k])
                line = f"solve {u} {k}" if n == "solve" else f"solveseq {u} 1 {k}"
                return [(line, f"raised:{type(cause).__name__}")]
            self.named.append(ret)
            self.named_deformed.append(self.named_deformed[k] or has_pass)
            top = self.records[-1]
            if top.unit is not unit or len(self.records) == n_rec:
                raise HarnessError("harness: the outermost record is not the solved unit's")
            if n == "solve":
                return [(f"solve {u} {k}", ";".join(self.trace))]
            return [(f"solveseq {u} {top.iters} {k}", ";".join(self.trace))]
        raise ValueError(op)

    def descendants(self, u):
        """the unit and everything solved inside it"""
        out = [u]
        for m in self.members.get(u, ()):
            out += self.descendants(m)
        return out

    def unit_kwargs(self, cls, flag):
        pr = self.pr
        if self.is_rollpass_class(cls):
            # a real two-roll pass; flag = "has a rotation" (what the auto-rotator factory of the library looks at)
            return {"roll": pr.Roll(groove=pr.CircularOvalGroove(depth=8e-3, r1=6e-3, r2=40e-3), nominal_radius=160e-3,
                                    rotational_frequency=1),
                    "gap": 2e-3, "rotation": 90 if flag else 0}
        kw = {"duration": 0}
        if _sub(cls, pr.Rotator):
            kw["rotation"] = 0
        return kw

    def walk_of(self, cls, w):
        inst = _probe(cls)
        return list(cls._yield_pre_processors(inst) if w == "p" else cls._yield_post_processors(inst))

    def add_unit(self, u, flag, is_seq):
        self.uid[id(u)] = len(self.units)
        self.units.append(u)
        self.uflag.append(bool(flag))
        self.useq.append(is_seq)
        return f"u{len(self.units) - 1}"

    def fids(self, lst):
        return [self.fid.get(id(x), -1) for x in lst]

    def static_queries(self, touched):
        """after a change: what every unit class yields + the own lists of the touched class"""
        out = []
        for w in "pq":
            own = self.classes[touched].__dict__.get(NAMES[w])
            out.append((f"own {w} {touched}", "_" if own is None else self.L(self.fids(own))))
        for c, cls in enumerate(self.classes):
            if not self.is_unit_class(cls) or inspect.isabstract(cls):
                continue              # (an abstract class - BaseRollPass, SymmetricRollPass - has no instances)
            walks = {}
            self.check_walk_of(cls, walks)
            out.append((f"yield p {c}", self.L(self.fids(walks["p"]))))
            out.append((f"yield q {c}", self.L(self.fids(walks["q"]))))
        return out

    # ---- the independent oracle: the property as stated ------------------------------------
    def applicable(self, cls, w):
        return [r for r in self.reglog if r["w"] == w and _sub(cls, r["cls"])]

    @staticmethod
    def order_ok(obs, regs):
        """is there an assignment of the observed factory ids to the registrations that respects
        'base class before subclass' and 'registration order within a class'?  (tiny backtracking search)"""
        n = len(obs)
        if n != len(regs):
            return False
        preds = []
        for r in regs:
            preds.append({i for i, s in enumerate(regs) if s is not r and (
                (s["cls"] is r["cls"] and s["serial"] < r["serial"]) or
                (s["cls"] is not r["cls"] and _sub(r["cls"], s["cls"])))})
        seen = set()

        def go(pos, used):
            if pos == n:
                return True
            if (pos, used) in seen:
                return False
            seen.add((pos, used))
            for i, r in enumerate(regs):
                if i in used or r["f"] != obs[pos] or not preds[i] <= used:
                    continue
                if go(pos + 1, used | {i}):
                    return True
            return False
        return go(0, frozenset())

    def check_sequence(self, prefix, cls, w, obs, none_seen_before_missing=False):
        """obs = factory ids consulted/yielded for a unit of class cls; compares with the registration log"""
        if self.malformed:
            return []
        exp = self.applicable(cls, w)
        if exp:
            # shortcut: one particular order that satisfies the statement (classes by MRO position, bases first, each
            # class's registrations in log order); everything else goes through the general comparison below
            mro = cls.__mro__
            if list(obs) == [r["f"] for r in sorted(exp, key=lambda r: (-mro.index(r["cls"]), r["serial"]))]:
                return []
        elif not obs:
            return []
        co, ce = collections.Counter(obs), collections.Counter(r["f"] for r in exp)
        name = NAMES[w]
        if co != ce:
            extra = sorted((co - ce).elements())
            missing = sorted((ce - co).elements())
            if extra and all(ce[f] > 0 for f in extra):
                return [(f"{prefix}{name}-registration-runs-twice",
                         f"{cls.__name__}: factories {extra} of {name} consulted more often than registered")]
            if extra:
                return [(f"{prefix}{name}-outside-scope",
                         f"{cls.__name__}: factories {extra} of {name} apply although they were registered on no base "
                         f"class of it (expected {sorted(ce.elements())}, got {obs})")]
            if none_seen_before_missing:
                return [(f"{prefix}{name}-stops-after-none",
                         f"{cls.__name__}: factories {missing} not consulted after a factory returned None")]
            return [(f"{prefix}{name}-registration-lost",
                     f"{cls.__name__}: factories {missing} registered on a base class do not apply (got {obs})")]
        if not self.order_ok(tuple(obs), exp):
            return [(f"{prefix}{name}-order",
                     f"{cls.__name__}: {name} run in order {obs}; registrations (class, factory) in log order: "
                     f"{[(r['cls'].__name__, r['f']) for r in exp]}")]
        return []

    def check_walk_of(self, cls, walks=None):
        probs = []
        inst = _probe(cls)
        for w, meth in (("p", cls._yield_pre_processors), ("q", cls._yield_post_processors)):
            lst = list(meth(inst))
            if walks is not None:
                walks[w] = lst
            if any(id(x) not in self.fid for x in lst):
                probs.append((f"walk-foreign-{NAMES[w]}",
                              f"{cls.__name__} yields factories registered on unrelated library classes: "
                              f"{[getattr(x, '__name__', '?') for x in lst if id(x) not in self.fid]}"))
                continue
            probs += self.check_sequence("walk-", cls, w, self.fids(lst))
        self.problems += probs
        return probs

    def check_record(self, rec):
        probs = []
        unit, cls = rec.unit, type(rec.unit)
        born = self.cinfo[self.classes.index(cls)].get("serial", 0)
        rec.later = any(r["serial"] < born and _sub(cls, r["cls"]) for r in self.reglog)
        rec.sibling = any(not _sub(cls, r["cls"]) and r["cls"] not in self.lib and
                          any(k in r["cls"].__mro__ and k not in self.lib for k in cls.__mro__[1:])
                          for r in self.reglog)
        owns = [e.t for e in rec.ev if e.kind == "O"]
        if not owns:
            self.problems.append(("no-own-solution", f"u{rec.uid}: the solution loop did not run"))
            return
        pre = [e for e in rec.ev if e.kind != "O" and e.t < owns[0]]
        post = [e for e in rec.ev if e.kind != "O" and e.t > owns[-1]]
        if len(pre) + len(post) + len(owns) != len(rec.ev):
            probs.append(("processor-during-own-solution", f"u{rec.uid}: processors ran between the iterations"))
        # a unit solved AS processor of another unit (created with parent=<owner>, not one of the owner's sub-units: the
        # library's auto-rotator, a helper unit) is a unit of its class like every other: "every processor registered
        # for the unit's class or a base runs" - the same clauses, keys with their own prefix
        kp = "unit-used-as-processor-" if rec.helper else ""
        who = ""
        if rec.helper:
            who = (f" [{cls.__name__} unit created with parent=u{self.howner.get(rec.uid)} and solved as its "
                   f"{'pre' if self.stack and self.stack[-1].iters == 0 else 'post'}-processor"
                   f"{'' if cls not in self.lib else ' by the library (auto-rotator)'}]")
        # every way out of the solution loop leads through the post-processing: also the one taken when the maximum
        # iteration count is reached ("continuing anyway")
        if rec.limit is not None and len(owns) >= rec.limit - 1 and not post and not self.malformed \
                and self.applicable(cls, "q"):
            probs.append(("no-post-processing-when-iteration-limit-reached",
                          f"u{rec.uid}: max_iteration_count={rec.limit}, the solution loop made {len(owns)} round(s) "
                          f"(all the limit allows) and NO post-processor factory was consulted afterwards although "
                          f"{[r['f'] for r in self.applicable(cls, 'q')]} are registered for {cls.__name__}"))
        for w, evs in (("p", pre), ("q", post)):
            cons = [e for e in evs if e.kind == "C"]
            # what runs at THIS solve is what the factories return at THIS solve: a processor whose factory was not
            # asked now (kept from an earlier solve of the unit) must not run
            stale = [e.p for e in evs if e.kind == "P" and not e.asked]
            if stale:
                probs.append((f"{NAMES[w]}-processor-run-but-factory-not-asked-at-this-solve",
                              f"u{rec.uid}: processors {stale} ran although their factories were not consulted at this "
                              f"solve (consulted: {[e.f for e in cons]})"))
            if any(not e.unit_ok for e in cons):
                probs.append(("factory-got-wrong-unit", f"u{rec.uid}: a factory was called with another unit"))
            found = self.check_sequence(kp, cls, w, [e.f for e in cons],
                                        none_seen_before_missing=any(e.p is None for e in cons) and not rec.mute)
            probs += [(k, t + who) for k, t in found]
            # a factory that returned a processor is followed by exactly that processor's solve; None by nothing
            want = [e.p for e in cons if e.p is not None]
            got = [e.p for e in evs if e.kind == "P"]
            if want != got:
                probs.append((f"{NAMES[w]}-not-all-run", f"u{rec.uid}: processors created {want}, solved {got}"))
            # factories that return nothing FOR THE UNIT AS IT IS NOW are skipped, the others' processors run
            # (the harness's own factories are functions of their kind and the unit's flag; independent of the
            # consultations recorded above)
            if not self.malformed:
                exp = [r["f"] for r in self.applicable(cls, w) if r["f"] not in self.libfac]
                now = collections.Counter(self.fdef[f][1] for f in exp if self.gives_at(f, rec))
                ran = collections.Counter(e.p for e in evs if e.kind == "P" and e.p not in self.libfac)
                if ran - now:
                    probs.append((f"{NAMES[w]}-processor-of-factory-that-returns-nothing-now",
                                  f"u{rec.uid}: processors {sorted((ran - now).elements())} ran although no applicable "
                                  f"factory returns them for the unit's current state (flag={int(bool(rec.flag))})"))
                elif now - ran:
                    probs.append((f"{NAMES[w]}-processor-not-run-although-factory-returns-one",
                                  f"u{rec.uid}: processors {sorted((now - ran).elements())} did not run although their "
                                  f"factories return them for the unit's current state (flag={int(bool(rec.flag))})"))
        # threading of the pre-processors and the incoming profile
        cur, cur_marks, cur_attrs = rec.inp, rec.inp_marks, rec.inp_attrs
        for e in (e for e in pre if e.kind == "P"):
            if e.recv is not cur:
                probs.append(("pre-processor-input-not-predecessor-output",
                              f"u{rec.uid}: pre-processor {e.p} did not receive what its predecessor returned"))
            cur, cur_marks, cur_attrs = e.ret, e.ret_marks, e.ret_attrs
        if rec.in_marks_at_own != cur_marks:
            probs.append(("in-profile-not-last-pre-processor-output",
                          f"u{rec.uid}: in_profile carries {[t for t, _ in rec.in_marks_at_own]}, the last pre-processor "
                          f"returned {[t for t, _ in cur_marks]}"))
        ip = rec.in_obj_at_own
        if not isinstance(ip, self.pr.Unit.InProfile) or ip.unit is not unit or unit.in_profile is not ip:
            probs.append(("in-profile-not-own-object", f"u{rec.uid}: in_profile is not an InProfile of the unit"))
        # "the unit's incoming profile is what the last pre-processor returned" - with EVERYTHING it returned: values a
        # processor added or changed on a NEW profile object it handed back (as every real unit does) just as the ones
        # written in place; and the unit's own solution starts from it: whatever the unit does not compute itself
        # (the harness-owned values: no hook, no unit of pyroll knows them) is found on the unit's outgoing profile
        # when the own solution begins - at the first solve (new out profile) and at EVERY later solve of the unit
        # (re-used out profile: second solve(), every iteration of an enclosing sequence) alike
        last = "the last pre-processor's output" if any(e.kind == "P" for e in pre) else \
            "the profile handed to solve (no pre-processor ran)"
        how = ("re-solve, out profile re-used" if rec.reused_out else "first solve") + \
            (f", inside a sequence at depth {rec.depth}" if rec.depth else "")
        d = owned_diff(rec.in_attrs_at_own, cur_attrs)
        if d is not None and d[0] != "marks":
            probs.append(({"lacks": "in-profile-lacks-value-of-last-pre-processor-output",
                           "holds": "in-profile-holds-value-absent-from-last-pre-processor-output",
                           "value": "in-profile-value-differs-from-last-pre-processor-output"}[d[0]],
                          f"u{rec.uid} ({how}): in_profile {d[1]} in {last}"))
        op0 = rec.out_obj_at_own
        if not isinstance(op0, self.pr.Unit.OutProfile) or op0.unit is not unit:
            probs.append(("out-profile-not-own-object", f"u{rec.uid}: out_profile is not an OutProfile of the unit"))
        d = owned_diff(rec.out_attrs_at_own, cur_attrs)
        if d is not None:
            probs.append(({"marks": "out-profile-not-last-pre-processor-output",
                           "lacks": "out-profile-lacks-value-of-last-pre-processor-output",
                           "holds": "out-profile-holds-value-absent-from-last-pre-processor-output",
                           "value": "out-profile-value-differs-from-last-pre-processor-output"}[d[0]],
                          f"u{rec.uid} ({how}): when the own solution starts, out_profile {d[1]} as in {last}"))
        # ... and nobody but the own solution writes there until the post-processing starts (members of a sequence and
        # their processors included): the outgoing state then is the handed-over one plus the own solution's mark
        own = () if rec.own_mark is None else (rec.own_mark,)      # (no mark is written on a `mute` unit)
        want_out = tuple(sorted(dict(cur_attrs, marks=tuple(cur_marks) + own).items()))
        out_end = rec.out_attrs_before_post if rec.out_attrs_before_post is not None else rec.out_attrs_at_leave
        if d is None:
            d2 = owned_diff(out_end, want_out)
            if d2 is not None:
                probs.append(("out-state-not-own-solution-on-last-pre-processor-output",
                              f"u{rec.uid} ({how}): after the own solution out_profile {d2[1]} "
                              f"(= {last} + the own solution's mark)"))
        # post-processors
        pp = [e for e in post if e.kind == "P"]
        op = unit.out_profile
        if pp:
            first = pp[0]
            if first.recv is op or first.recv is unit.in_profile:
                probs.append(("post-processor-receives-unit-state",
                              f"u{rec.uid}: the first post-processor received the unit's own profile object"))
            if first.recv_marks != rec.out_marks_before_post or first.recv_attrs != rec.out_attrs_before_post:
                probs.append(("post-processor-input-not-out-state",
                              f"u{rec.uid}: the first post-processor did not receive a copy of the outgoing state"))
            cur = first.recv
            for e in pp:
                if e.recv is not cur:
                    probs.append(("post-processor-input-not-predecessor-output",
                                  f"u{rec.uid}: post-processor {e.p} did not receive what its predecessor returned"))
                cur = e.ret
            if rec.ret is not cur:
                probs.append(("returned-not-last-post-processor-output",
                              f"u{rec.uid}: solve did not return what the last post-processor returned"))
            if rec.ret is op:
                probs.append(("returned-profile-is-out-state", f"u{rec.uid}: solve returned unit.out_profile itself"))
            mine = {e.res for e in pp}
            if op is not rec.out_obj_before_post or any(m in mine for m in op.marks) \
                    or tuple(op.marks) != rec.out_marks_before_post or owned(op) != rec.out_attrs_before_post:
                probs.append(("post-processor-changed-out-state",
                              f"u{rec.uid}: unit.out_profile changed while the post-processors ran: "
                              f"{[t for t, _ in rec.out_marks_before_post]} -> {[t for t, _ in op.marks]}"))
            if any(m in mine for m in unit.in_profile.marks):
                probs.append(("post-processor-changed-in-state", f"u{rec.uid}: unit.in_profile carries post marks"))
        else:
            if tuple(rec.ret.marks) != tuple(op.marks) or rec.ret_attrs != owned(op):
                probs.append(("returned-profile-not-out-state",
                              f"u{rec.uid}: without post-processors the returned profile differs from out_profile"))
        # the returned profile as a whole: the last pre-processor's output, then the own solution, then the
        # post-processors that ran at this solve, in that order (marks are unique per invocation) - nothing of an
        # earlier solve, nothing of the state before the pre-processors
        def wrote(e):
            # a post-processor that is itself a unit hands back what ITS pre-processors, own solution and
            # post-processors wrote (checked in the record of its own solve), then the harness's mark for it
            if e.unitproc and e.ret_marks[:len(e.recv_marks)] == e.recv_marks and e.ret_marks[-1:] == (e.res,):
                return tuple(e.ret_marks[len(e.recv_marks):])
            return (e.res,) if e.beh != "s" else ()
        want_ret = tuple(cur_marks) + own + tuple(m for e in pp for m in wrote(e))
        if tuple(rec.ret_marks) != want_ret:
            probs.append(("returned-profile-not-pre-own-post",
                          f"u{rec.uid} ({how}): the returned profile carries {[t for t, _ in rec.ret_marks]}, expected "
                          f"{[t for t, _ in want_ret]} (= {last}, the own solution, the post-processors)"))
        elif not any(e.beh in "aAcCdD" or e.unitproc for e in pp):
            # (post-processors that only write their mark: every other value is still the last pre-processor's)
            d = owned_diff(tuple(kv for kv in rec.ret_attrs if kv[0] != "marks"),
                           tuple(kv for kv in cur_attrs if kv[0] != "marks"))
            if d is not None:
                probs.append(({"lacks": "returned-profile-lacks-value-of-last-pre-processor-output",
                               "holds": "returned-profile-holds-value-absent-from-last-pre-processor-output",
                               "value": "returned-profile-value-differs-from-last-pre-processor-output"}[d[0]],
                              f"u{rec.uid} ({how}): the returned profile {d[1]} in {last}"))
        # units solved INSIDE this one (members of a sequence): the same rules hold - what a member returns (the
        # output of its post-processors) is what its successor and the successor's pre-processors receive, and
        # nobody else's processors write into a member's own outgoing state
        last_iter = []
        for it in sorted({c.parent_iter for c in rec.children}):
            group = [c for c in rec.children if c.parent_iter == it]
            last_iter = group
            prev = None
            for ch in group:
                if prev is None:
                    if ch.inp_marks != ch.parent_in_marks or ch.inp_attrs != ch.parent_in_attrs:
                        probs.append(("sequence-first-member-input-not-in-profile",
                                      f"u{rec.uid}: its first member u{ch.uid} did not receive the sequence's incoming "
                                      f"profile (the output of the sequence's last pre-processor)"))
                else:
                    if ch.inp is prev.unit.out_profile or ch.inp is prev.unit.in_profile:
                        probs.append(("sequence-member-receives-predecessor-own-state",
                                      f"u{rec.uid}: member u{ch.uid} was handed the own "
                                      f"{'out' if ch.inp is prev.unit.out_profile else 'in'}_profile object of its "
                                      f"predecessor u{prev.uid} instead of the profile that unit's solve returned"))
                    if ch.inp_marks != prev.ret_marks or ch.inp_attrs != prev.ret_attrs:
                        probs.append(("sequence-member-input-not-predecessor-return",
                                      f"u{rec.uid}: member u{ch.uid} received {[t for t, _ in ch.inp_marks]}, its "
                                      f"predecessor u{prev.uid} returned {[t for t, _ in prev.ret_marks]} (output of "
                                      f"its post-processors)"))
                prev = ch
        for ch in last_iter:
            if tuple(getattr(ch.unit.out_profile, "marks", ())) != ch.out_marks_at_leave \
                    or owned(ch.unit.out_profile) != ch.out_attrs_at_leave:
                probs.append(("member-out-state-changed-after-its-solve",
                              f"u{rec.uid}: out_profile of member u{ch.uid} carried "
                              f"{[t for t, _ in ch.out_marks_at_leave]} when its solve returned and "
                              f"{[t for t, _ in ch.unit.out_profile.marks]} at the end of the sequence's solve"))
        self.problems += probs


# -------------------------------------------------------------------------------------------
# canonical forms
# -------------------------------------------------------------------------------------------
def canon_objs(outputs):
    """rename object identities '#n' by first appearance (a bijection check between model and code)"""
    ren = {}
    res = []
    for line in outputs:
        toks = []
        for part in line.replace(";", " ; ").split(" "):
            if part.startswith("#"):
                part = "#" + str(ren.setdefault(part, len(ren)))
            toks.append(part)
        res.append(" ".join(toks))
    return res


def op_json(op):
    return [list(x) if isinstance(x, (list, tuple)) else x for x in op]


def op_tuple(o):
    return tuple(list(x) if isinstance(x, list) else x for x in o)


# -------------------------------------------------------------------------------------------
# generation (on the fly: the generator looks at the real objects it has built so far)
# -------------------------------------------------------------------------------------------
def gen_and_run(rng, n_ops, malformed, counter=None):
    """returns (ops, pairs, real) - the ops executed on a fresh Real, their (line, output) pairs"""
    cnt = counter if counter is not None else (lambda k: None)
    real = Real()
    ops, pairs = [], []

    def do(op):
        ops.append(op)
        got = real.apply(op)
        pairs.append(got)
        return got

    def pick_class(pool):
        # prefer classes to which many registrations apply (deep in the hierarchy): that is where order matters
        wts = [1 + 2 * sum(1 for r in real.reglog if _sub(real.classes[c], r["cls"])) for c in pool]
        return rng.choices(pool, weights=wts)[0]

    try:
        pairs.append(real.preamble())
        ops.append(("preamble",))
        nf = rng.randrange(3, 9)
        for f in range(nf):
            kind = rng.choice(["always", "always", "always", "never", "flag"])
            p = 50 + f
            do(("fac", f, kind, p))
            # in place / new object / untouched; new-object and in-place processors that also add, change or drop a value
            do(("beh", p, rng.choice("iiifffssaacdACDa")))
        do(("newprof",))
        fac_ids = list(range(nf))
        hfacs = []
        # units solved AS processors of another unit (the library's auto-rotator; helper units made by `hfac` factories
        # the way rotator_factory makes its Rotator: parent=<owner>, no sub-unit of it) get the processors registered on
        # THEIR class hierarchy: not in the Lean model (its processors are no units), such a history is oracle only.
        # (In every other history the factories registered on the auto-rotator's classes are consulted for it too -
        # and recorded and checked - but answer None.)
        helper_mode = rng.random() < 0.15
        if helper_mode:
            do(("helpermode",))
        unit_roots = [C_UNIT, C_UNIT, C_UNIT, C_TRANSPORT, C_ROTATOR, C_DEU, C_DEFU, C_THREE, C_COOL]
        # sequences inside sequences (every member of the inner one is solved at least twice per iteration of the
        # outer one): not in the Lean model, such a history is checked by the oracle only
        allow_nested = rng.random() < 0.12
        if rng.random() < 0.3:
            # a history with real (solvable) roll passes: they cost ~10 ms per solve, the synthetic units ~1 ms
            unit_roots += [C_TWO, C_TWO, C_TWO, C_TWO]
        pr = real.pr
        # kinds of library units that are not mixed in one class (their constructors / solutions do not combine):
        # a roll pass class combines only with plain Unit classes, DeformationUnit / DiskElementUnit ones and mix-ins
        heavy = (pr.PassSequence, pr.Transport, pr.Rotator)

        def compatible(bs):
            cl = [real.classes[b] for b in bs]
            if any(real.is_rollpass_class(c) for c in cl):
                if any(_sub(c, h) for c in cl for h in heavy):
                    return False
                if any(_sub(c, pr.TwoRollPass) for c in cl) and any(_sub(c, pr.ThreeRollPass) for c in cl):
                    return False
            return True

        def fresh_profile():
            ks = [k for k, d in enumerate(real.named_deformed) if not d]
            if ks and rng.random() < 0.6:
                return rng.choice(ks)
            do(("newprof",))
            return len(real.named) - 1

        def toggle(u):
            do(("setflag", u, int(not real.uflag[u])))
            cnt("setflag")

        def limit(u):
            # the solution loop of this unit ends by the iteration limit (2: one round; 3: two rounds, which is
            # convergence for a unit without feedback) or by convergence again (0: the library's default)
            k = rng.choice([2, 2, 2, 3, 3, 0])
            do(("maxit", u, k))
            cnt(f"maxit:{k}")

        n_ops += len(ops)
        while len(ops) < n_ops:
            r = rng.random()
            made = [i for i, ci in enumerate(real.cinfo) if ci["made"]]
            unitcls = [i for i in made if real.is_unit_class(real.classes[i])]
            leafcls = [i for i in unitcls if not _sub(real.classes[i], pr.PassSequence) and real.solvable(real.classes[i])]
            passcls = [i for i in leafcls if real.is_rollpass_class(real.classes[i])]
            seqcls = [i for i in unitcls if real.classes[i].__init__ is pr.PassSequence.__init__]
            if r < 0.22 or not unitcls:
                # ---- class definition
                mixin = rng.random() < 0.08
                if mixin:
                    bases = []
                else:
                    pool = unitcls * 3 + unit_roots + [C_SEQ] + [i for i in made if real.cinfo[i]["mixin"]]
                    bases = []
                    for _ in range(rng.choice([1, 1, 1, 2, 2, 3])):
                        b = rng.choice(pool)
                        if b not in bases and compatible(bases + [b]):
                            bases.append(b)
                    if rng.random() < 0.5:
                        # unit classes first (usual style); otherwise mix-in first
                        bases.sort(key=lambda b: not real.is_unit_class(real.classes[b]))
                    if not any(real.is_unit_class(real.classes[b]) for b in bases):
                        bases.append(0)
                isub = "a"
                if not mixin:
                    x = rng.random()
                    if x < 0.15:
                        isub = "c"
                    elif x < 0.30 and malformed:
                        isub = "n"
                op = ("class", bases, isub, mixin)
                try:
                    type("probe", tuple(real.classes[b] for b in bases), {})
                except TypeError:
                    cnt("class:mro-conflict")
                    continue
                do(op)
                cnt("class:" + ("mixin" if mixin else {"a": "plain", "c": "coop-init_subclass", "n": "swallowing"}[isub]))
                cnt(f"class:bases={len(bases)}")
            elif r < 0.55:
                # ---- registration on any class (library classes included; mix-ins rarely = AttributeError)
                pool = unitcls * 4 + [C_UNIT, C_SEQ, C_TRANSPORT, C_ROTATOR] + [i for i in made if real.cinfo[i]["mixin"]]
                if passcls:
                    # the bases of the roll pass classes: around the library's own registration on BaseRollPass
                    # (and the class of the unit the library's factory makes: the auto-rotator)
                    pool += [C_UNIT, C_DEU, C_DEFU, C_BRP, C_BRP, C_SRP, C_TWO] * 2 + [C_ROTATOR]
                    if helper_mode:
                        pool += [C_ROTATOR, C_ROTATOR, C_UNIT]
                else:
                    # (classes whose walk is only looked at, not solved: rarely)
                    pool += [rng.choice([C_DEU, C_DEFU, C_BRP, C_SRP, C_TWO, C_THREE, C_COOL])]
                c = rng.choice(pool)
                w = rng.choice("ppq")
                f = rng.choice(fac_ids)
                plain = [x for x in leafcls if x not in passcls]
                if helper_mode and plain and len(hfacs) < 3 and rng.random() < 0.35:
                    # a factory that makes a helper UNIT of a class of this history, registered on a unit class
                    f = nf + len(hfacs)
                    hc = pick_class(plain)
                    do(("hfac", f, hc, 50 + f))
                    hfacs.append(f)
                    fac_ids += [f, f]
                    cnt("hfac")
                    if rng.random() < 0.6:
                        # registrations on the helper's own hierarchy are what it is about
                        do(("reg", rng.choice("pq"), rng.choice([hc] + real.tail_of(real.classes[hc])[:2]),
                            rng.randrange(nf)))
                    c = rng.choice(unitcls + [C_UNIT])
                    w = rng.choice("pq")
                got = do(("reg", w, c, f))
                cnt("reg:" + got[0][1])
                cnt("reg-on:" + ("library" if c < len(LIBNAMES) else "made"))
            elif r < 0.61:
                if real.reglog and rng.random() < 0.8:
                    rr = rng.choice(real.reglog)
                    c = real.classes.index(rr["cls"])
                    # through the class itself or through one of its subclasses (attribute lookup finds the same list)
                    got = do(("unreg", rr["w"], c, rr["f"]))
                else:
                    got = do(("unreg", rng.choice("pq"), rng.choice(unitcls + [C_UNIT]), rng.randrange(nf)))
                cnt("unreg:" + got[0][1])
            elif r < 0.64:
                # (the library's own registration can be cleared / removed like any other: rarely)
                do(("clear", rng.choice("pq"), rng.choice(unitcls * 2 + [C_UNIT, C_SEQ, C_UNIT, C_SEQ, C_BRP, C_TWO])))
                cnt("clear")
            elif r < 0.85:
                # ---- a leaf unit solved alone (new unit, or again an old one that is not listed in a sequence)
                free = [u for u in range(len(real.units)) if not real.useq[u] and u not in real.listed]
                if free and rng.random() < 0.35:
                    u = rng.choice(free)
                    cnt("solve:again")
                    if rng.random() < 0.6:
                        # the unit's state changed since its last solve: the factories may answer differently now
                        toggle(u)
                elif leafcls:
                    plain = [c for c in leafcls if c not in passcls]
                    c = rng.choice(passcls) if passcls and (not plain or rng.random() < 0.3) else pick_class(plain)
                    do(("unit", c, int(rng.random() < 0.5)))
                    u = len(real.units) - 1
                else:
                    continue
                if real.is_rollpass_class(type(real.units[u])):
                    k = fresh_profile()
                    cnt("solve:roll-pass")
                elif rng.random() < 0.35:
                    do(("newprof",))
                    k = len(real.named) - 1
                else:
                    k = rng.randrange(len(real.named))
                if rng.random() < (0.5 if u in real.limits else 0.12):
                    limit(u)
                do(("solve", u, k))
                cnt("solve:leaf")
            else:
                # ---- a sequence of 0..3 fresh leaves, or an old sequence again
                seqs = [u for u in range(len(real.units)) if real.useq[u]]
                if seqs and rng.random() < 0.3:
                    s = rng.choice(seqs)
                    cnt("solve:seq-again")
                    if rng.random() < 0.5:
                        toggle(rng.choice(real.descendants(s)))
                elif seqcls and leafcls:
                    subs = []
                    plain = [c for c in leafcls if c not in passcls]
                    n_sub = rng.choice([0, 1, 2, 2, 3, 3])
                    at = rng.randrange(n_sub) if n_sub and passcls and rng.random() < 0.25 else -1
                    for j in range(n_sub):
                        if j == at:
                            c = rng.choice(passcls)           # at most one real roll pass per sequence
                        elif plain:
                            c = pick_class(plain)
                        else:
                            continue
                        do(("unit", c, int(rng.random() < 0.5)))
                        subs.append(len(real.units) - 1)
                    inner = [u for u in seqs if u not in real.listed]
                    if allow_nested and inner and rng.random() < 0.6:
                        u_in = rng.choice(inner)
                        n_pass = sum(1 for x in subs + real.descendants(u_in)
                                     if real.is_rollpass_class(type(real.units[x])))
                        if n_pass <= 1:
                            subs.insert(rng.randrange(len(subs) + 1), u_in)
                            cnt("seq:nested")
                    do(("seq", pick_class(seqcls), int(rng.random() < 0.5), subs))
                    s = len(real.units) - 1
                else:
                    continue
                if any(real.is_rollpass_class(type(real.units[m])) for m in real.descendants(s)):
                    k = fresh_profile()
                    cnt("solve:seq-with-roll-pass")
                else:
                    k = rng.randrange(len(real.named))
                if rng.random() < 0.15:
                    limit(rng.choice(real.descendants(s)))
                do(("solveseq", s, k))
                cnt("solve:seq")
    finally:
        real.restore()
    return ops, pairs, real


def execute(ops):
    """re-execute recorded ops on a fresh Real (corpus, shrinking, replay)"""
    real = Real()
    pairs = []
    firsts = []
    try:
        for op in ops:
            if op[0] == "preamble":
                pairs.append(real.preamble())
            else:
                pairs.append(real.apply(op))
            firsts.append(len(real.problems))
    finally:
        real.restore()
    return pairs, real, firsts


def first_problem(ops):
    pairs, real, firsts = execute(ops)
    if not real.problems:
        return None, None
    idx = next(i for i, n in enumerate(firsts) if n > 0)
    return idx, real.problems[0]


def shrink(ops, key):
    """greedy removal of ops that do not allocate ids while a problem with the same key persists"""
    idx, prob = first_problem(ops)
    if idx is None:
        return ops
    ops = list(ops[:idx + 1])
    changed = True
    rounds = 0
    while changed and rounds < 200:
        changed = False
        rounds += 1
        for i in range(len(ops) - 1, 0, -1):
            if ops[i][0] not in ("reg", "unreg", "clear", "solve", "solveseq", "setflag", "maxit"):
                continue
            cand = ops[:i] + ops[i + 1:]
            try:
                j, p2 = first_problem(cand)
            except Exception:
                continue
            if j is not None and p2[0] == key:
                ops = cand[:j + 1]
                changed = True
                break
    return ops


# -------------------------------------------------------------------------------------------
# corpus: written-out histories that run first
# -------------------------------------------------------------------------------------------
def _facs(spec):
    ops = [("preamble",)]
    for f, (kind, beh) in enumerate(spec):
        ops += [("fac", f, kind, 50 + f), ("beh", 50 + f, beh)]
    return ops + [("newprof",)]


def _lib5(ops):
    """histories written when the preamble held only the first five library classes (made classes from id 5)"""
    m = lambda c: c if c < 5 else c + (M0 - 5)
    out = []
    for op in ops:
        if op[0] == "class":
            op = ("class", [m(b) for b in op[1]], op[2], op[3])
        elif op[0] in ("reg", "unreg", "clear"):
            op = op[:2] + (m(op[2]),) + op[3:]
        elif op[0] in ("unit", "seq"):
            op = (op[0], m(op[1])) + op[2:]
        out.append(op)
    return out


CORPUS = [_lib5(h) for h in [
    # the probe of DESIGN.md: Unit <- A <- B <- C (C defined AFTER the registrations), sibling S of B, a None factory
    _facs([("always", "i"), ("always", "f"), ("always", "i"), ("never", "i"), ("always", "f"), ("always", "i")]) + [
        ("class", [0], "a", False), ("class", [5], "a", False), ("class", [5], "a", False),       # A=5 B=6 S=7
        ("reg", "p", 0, 0), ("reg", "p", 5, 1), ("reg", "p", 5, 2), ("reg", "p", 6, 3), ("reg", "p", 6, 4),
        ("reg", "q", 5, 5), ("reg", "q", 6, 1),
        ("class", [6], "a", False),                                                                 # C=8
        ("unit", 6, 0), ("solve", 0, 0), ("unit", 8, 0), ("solve", 1, 0), ("unit", 7, 0), ("solve", 2, 1),
        ("solve", 1, 2)],
    # diamond D(B, C), B(A), C(A): registrations made in the order C, B, A, D; units inside a sequence
    _facs([("always", "f"), ("always", "i"), ("flag", "f"), ("always", "s")]) + [
        ("class", [0], "a", False), ("class", [5], "c", False), ("class", [5], "a", False), ("class", [6, 7], "a", False),
        ("class", [1], "a", False),                                                                 # SQ=9
        ("reg", "p", 7, 0), ("reg", "p", 6, 1), ("reg", "q", 5, 2), ("reg", "p", 8, 3), ("reg", "q", 8, 0),
        ("reg", "p", 9, 1), ("reg", "q", 9, 0),
        ("unit", 8, 1), ("unit", 6, 0), ("unit", 8, 0), ("seq", 9, 1, [0, 1, 2]), ("solveseq", 3, 0),
        ("solveseq", 3, 1)],
    # removal through a subclass name, clear, error kinds, mix-in without lists
    _facs([("always", "i"), ("never", "i"), ("always", "f")]) + [
        ("class", [], "a", True), ("class", [5, 0], "a", False), ("class", [0, 5], "a", False),
        ("reg", "p", 5, 0), ("reg", "p", 6, 0), ("reg", "p", 6, 2), ("reg", "p", 6, 0), ("unreg", "p", 6, 0),
        ("unreg", "q", 6, 0), ("reg", "q", 0, 1), ("reg", "q", 0, 2), ("unit", 6, 0), ("solve", 0, 0),
        ("clear", "p", 6), ("unit", 7, 1), ("solve", 1, 1), ("clear", "q", 0)],
    # O1 (notes/C18.md): a class below a swallowing __init_subclass__ has no lists of its own - the getattr walk
    # yields the inherited list a second time.  Same history as `getattr_walk_consults_twice` in PyrollProps/C18.lean;
    # model and code must AGREE here (the scope/order oracle is silent on this malformed stream).
    _facs([("always", "i"), ("always", "f")]) + [
        ("class", [0], "n", False), ("class", [5], "a", False),                                     # A=5 (swallows), B=6
        ("reg", "p", 5, 0), ("reg", "q", 6, 1), ("unit", 6, 0), ("solve", 0, 0), ("unit", 5, 0), ("solve", 1, 0)],
]] + [
    # a factory answers differently at a LATER solve of the same unit (flag factory 1: processor -> nothing, flag factory
    # 3: nothing -> processor after the flag changed); `resolve_asks_factories_again` in PyrollProps/C18.lean
    _facs([("always", "i"), ("flag", "f"), ("always", "f"), ("flag", "i")]) + [
        ("class", [C_UNIT], "a", False), ("class", [M0], "a", False),                              # A=M0, B=M0+1
        ("reg", "p", C_UNIT, 0), ("reg", "p", M0 + 1, 1), ("reg", "q", C_UNIT, 2), ("reg", "q", M0 + 1, 3),
        ("unit", M0 + 1, 1), ("solve", 0, 0), ("setflag", 0, 0), ("solve", 0, 0), ("setflag", 0, 1), ("solve", 0, 1)],
    # members with post-processors inside a sequence: the successor (in-place pre-processor) receives what the
    # predecessor's post-processors returned, not the predecessor's own outgoing state
    _facs([("always", "i"), ("never", "i"), ("always", "i"), ("always", "i")]) + [
        ("class", [C_UNIT], "a", False), ("class", [C_UNIT], "a", False), ("class", [C_SEQ], "a", False),
        ("reg", "q", M0, 0), ("reg", "q", M0, 1), ("reg", "q", M0, 2), ("reg", "p", M0 + 1, 3),
        ("unit", M0, 0), ("unit", M0 + 1, 0), ("unit", M0, 0), ("seq", M0 + 2, 0, [0, 1, 2]), ("solveseq", 3, 0),
        ("solveseq", 3, 1)],
    # real roll passes K(TwoRollPass), L(K): registrations on the bases of BaseRollPass (Unit, DeformationUnit,
    # DiskElementUnit) run BEFORE the library's auto-rotator registered on BaseRollPass, those on BaseRollPass (made
    # later), SymmetricRollPass, TwoRollPass, K, L after it; with and without rotation, alone and inside a sequence,
    # re-solved after the rotation was switched off / on; `library_rotator_between_base_and_subclass_registrations`
    _facs([("always", "f"), ("always", "i"), ("always", "f"), ("never", "i"), ("always", "f"), ("flag", "f")]) + [
        ("class", [C_TWO], "a", False), ("class", [M0], "a", False), ("class", [C_SEQ], "a", False),
        ("class", [C_TRANSPORT], "a", False),
        ("reg", "p", C_TWO, 4), ("reg", "p", C_DEFU, 1), ("reg", "p", C_UNIT, 0), ("reg", "p", C_BRP, 2),
        ("reg", "p", C_DEU, 3), ("reg", "p", M0 + 1, 5), ("reg", "q", C_SRP, 2), ("reg", "q", C_UNIT, 1),
        ("unit", M0 + 1, 1), ("solve", 0, 0), ("setflag", 0, 0), ("solve", 0, 0), ("setflag", 0, 1), ("solve", 0, 0),
        ("unit", M0, 0), ("solve", 1, 0),
        ("unit", M0 + 3, 0), ("unit", M0, 1), ("unit", M0 + 3, 1), ("seq", M0 + 2, 0, [2, 3, 4]), ("solveseq", 5, 0),
        ("setflag", 3, 0), ("solveseq", 5, 0)],
    # pre-processors that hand back a NEW profile object in which they ADDED (a) or CHANGED (c) a value, next to ones
    # working in place (A) and a factory returning nothing; one that does not take the added values over (d); the unit
    # solved once, AGAIN on the same workpiece, on what it returned itself, on a new workpiece: in_profile, the re-used
    # out profile and the returned profile come from the last pre-processor's output of THAT solve
    # (`out_profile_is_last_pre_output`, `resolve_out_profile_is_last_pre_output` in PyrollProps/C18.lean)
    _facs([("always", "a"), ("always", "c"), ("always", "A"), ("never", "i"), ("always", "d"), ("always", "f")]) + [
        ("class", [C_UNIT], "a", False), ("class", [M0], "a", False), ("class", [C_UNIT], "a", False),
        ("reg", "p", M0, 0), ("reg", "p", M0, 3), ("reg", "p", M0 + 1, 1), ("reg", "q", M0, 2), ("reg", "q", M0 + 1, 5),
        ("reg", "p", M0 + 2, 0), ("reg", "p", M0 + 2, 4), ("reg", "p", M0 + 2, 1), ("reg", "q", M0 + 2, 0),
        ("unit", M0 + 1, 0), ("solve", 0, 0), ("solve", 0, 0), ("solve", 0, 1), ("newprof",), ("solve", 0, 4),
        ("unit", M0 + 2, 0), ("solve", 1, 2), ("solve", 1, 5), ("solve", 1, 0)],
    # the same inside a sequence (its loop solves every member at least twice: each member's out profile is re-used
    # from the second round on), the sequence having such a pre-processor itself; solved again with another workpiece
    # and after a member's state changed
    _facs([("always", "a"), ("always", "c"), ("always", "i"), ("always", "f"), ("flag", "a")]) + [
        ("class", [C_UNIT], "a", False), ("class", [C_TRANSPORT], "a", False), ("class", [C_SEQ], "a", False),
        ("reg", "p", M0, 0), ("reg", "q", M0, 3), ("reg", "p", M0 + 1, 1), ("reg", "p", M0 + 1, 4),
        ("reg", "q", M0 + 1, 2), ("reg", "p", M0 + 2, 0),
        ("unit", M0, 0), ("unit", M0 + 1, 1), ("unit", M0, 0), ("seq", M0 + 2, 0, [0, 1, 2]), ("solveseq", 3, 0),
        ("newprof",), ("solveseq", 3, 2), ("setflag", 1, 0), ("solveseq", 3, 1)],
    # a sequence inside a sequence (oracle only: the model has one level): the inner sequence is solved twice per round
    # of the outer one and solves its members twice each time; then the inner one alone
    _facs([("always", "a"), ("always", "c"), ("always", "f"), ("always", "A")]) + [
        ("class", [C_UNIT], "a", False), ("class", [C_SEQ], "a", False), ("class", [C_SEQ], "a", False),
        ("reg", "p", M0, 0), ("reg", "q", M0, 1), ("reg", "p", M0 + 1, 2), ("reg", "q", M0 + 1, 3), ("reg", "p", M0 + 2, 1),
        ("unit", M0, 0), ("unit", M0, 0), ("seq", M0 + 1, 0, [0, 1]), ("unit", M0, 0), ("seq", M0 + 2, 0, [2, 3]),
        ("solveseq", 4, 0), ("solveseq", 4, 1), ("solveseq", 2, 0)],
    # the solution loop ends by the ITERATION LIMIT instead of by convergence (max_iteration_count 2: one round and
    # nothing to compare with; 3: two rounds): pre-processors, own solution, post-processors all the same - a unit
    # alone, a member of a sequence, the sequence itself, a real roll pass (its auto-rotator consults what is
    # registered on Unit / Rotator), then with the default limit again
    _facs([("always", "f"), ("never", "i"), ("always", "i"), ("always", "a"), ("flag", "f")]) + [
        ("class", [C_UNIT], "a", False), ("class", [M0], "a", False), ("class", [C_SEQ], "a", False),
        ("class", [C_TWO], "a", False),
        ("reg", "p", M0, 0), ("reg", "q", M0, 2), ("reg", "q", M0, 1), ("reg", "q", M0 + 1, 3), ("reg", "q", C_UNIT, 0),
        ("reg", "q", C_BRP, 2), ("reg", "p", M0 + 2, 3), ("reg", "q", M0 + 2, 0), ("reg", "p", C_ROTATOR, 2),
        ("unit", M0 + 1, 0), ("maxit", 0, 2), ("solve", 0, 0), ("maxit", 0, 3), ("solve", 0, 0), ("maxit", 0, 0),
        ("solve", 0, 1),
        ("unit", M0, 0), ("unit", M0 + 1, 1), ("seq", M0 + 2, 0, [1, 2]), ("maxit", 2, 2), ("solveseq", 3, 0),
        ("maxit", 3, 2), ("solveseq", 3, 0), ("maxit", 2, 0), ("solveseq", 3, 0),
        ("unit", M0 + 3, 1), ("maxit", 4, 2), ("solve", 4, 0), ("unit", M0 + 3, 0), ("maxit", 5, 3), ("solve", 5, 0)],
    # units solved AS processors of another unit (oracle only): `hfac` factories make a real unit of a class of the
    # history with parent=<owner> (the pattern of the library's rotator_factory); what is registered on the helper's
    # class, its base and Unit runs for it - as pre- and as post-processor of the owner, at a re-solve, for a member of
    # a sequence; the same for the library's auto-rotator of a real roll pass (registrations on Rotator / Unit)
    _facs([("always", "f"), ("always", "a"), ("never", "i"), ("always", "i"), ("flag", "c")]) + [
        ("helpermode",),
        ("class", [C_UNIT], "a", False), ("class", [C_UNIT], "a", False), ("class", [M0 + 1], "a", False),
        ("class", [C_TWO], "a", False), ("class", [C_SEQ], "a", False),     # Owner, Stamp, SubStamp(Stamp), K, SQ
        ("hfac", 5, M0 + 2, 55), ("hfac", 6, M0 + 1, 56),
        ("reg", "p", M0, 5), ("reg", "q", M0, 6), ("reg", "p", M0, 3),
        ("reg", "p", M0 + 1, 0), ("reg", "p", M0 + 1, 2), ("reg", "q", M0 + 1, 1), ("reg", "p", M0 + 2, 3),
        ("reg", "q", M0 + 2, 0), ("reg", "q", C_UNIT, 3),
        ("reg", "p", C_ROTATOR, 1), ("reg", "q", C_ROTATOR, 0), ("reg", "p", C_BRP, 3),
        ("unit", M0, 0), ("solve", 0, 0), ("solve", 0, 1),
        ("unit", M0 + 3, 1), ("solve", 1, 0), ("setflag", 1, 0), ("solve", 1, 0),
        ("unit", M0, 1), ("unit", M0 + 1, 0), ("seq", M0 + 4, 0, [2, 3]), ("solveseq", 4, 0)],
]


# -------------------------------------------------------------------------------------------
# library facts (the only built-in processor)
# -------------------------------------------------------------------------------------------
def check_library(ctx):
    import pyroll.core as pr
    from pyroll.core.roll_pass.base import rotator_factory
    probs = []
    for cls in (pr.Unit, pr.PassSequence, pr.Transport, pr.Rotator, pr.DiskElementUnit, pr.CoolingPipe):
        inst = _probe(cls)
        for name, meth in (("pre_processors", cls._yield_pre_processors), ("post_processors", cls._yield_post_processors)):
            got = list(meth(inst))
            if got:
                probs.append(f"{cls.__name__} yields {name} {[getattr(x, '__name__', '?') for x in got]} although "
                             "nothing is registered on it or its bases")
    own = pr.BaseRollPass.__dict__.get("pre_processors")
    if own != [rotator_factory]:
        probs.append(f"BaseRollPass's own pre_processors are {own}, expected exactly the auto-rotator factory")
    for cls in (pr.TwoRollPass, pr.ThreeRollPass):
        if getattr(cls, "__abstractmethods__", None):
            continue
        inst = _probe(cls)
        got = list(cls._yield_pre_processors(inst))
        if got != [rotator_factory]:
            probs.append(f"{cls.__name__} yields pre_processors {[getattr(x, '__name__', '?') for x in got]}, expected "
                         "exactly the auto-rotator registered on BaseRollPass")
        if list(cls._yield_post_processors(inst)):
            probs.append(f"{cls.__name__} yields post-processors although none is registered")
    # every unit class the library defines (nested disk element classes included) yields exactly what the classes
    # along its MRO hold themselves, bases first - whatever a library class overrides
    seen = [pr.Unit]
    todo = [pr.Unit]
    while todo:
        for sub in todo.pop().__subclasses__():
            if sub not in seen and (sub.__module__ or "").startswith("pyroll.core"):
                seen.append(sub)
                todo.append(sub)
    for cls in seen:
        if inspect.isabstract(cls):
            continue
        inst = _probe(cls)
        for name, meth in (("pre_processors", cls._yield_pre_processors), ("post_processors", cls._yield_post_processors)):
            want = [f for k in reversed(cls.__mro__) for f in (k.__dict__.get(name) or ())]
            got = list(meth(inst))
            if [id(x) for x in got] != [id(x) for x in want]:
                probs.append(f"{cls.__qualname__} yields {name} {[getattr(x, '__name__', '?') for x in got]}, the "
                             f"classes of its MRO hold (bases first) {[getattr(x, '__name__', '?') for x in want]}")
    ctx.case(["library"], True)
    if probs:
        ctx.violation("library-auto-rotator-scope", probs[0],
                      {"check": "library", "problems": probs,
                       "how": "list(cls._yield_pre_processors(object.__new__(cls))) for the classes of pyroll.core"})


def check_generated(ctx):
    """(T vs the running code) what driver/translate/c18_procs.py read statically - the class table with its C3 MRO
    tails, which unit classes define one of the watched names, the library's own registrations - compared with the
    REAL classes; a difference is a translator defect or a class built in a way `ast` does not show (decorator,
    metaclass, monkey patch): reported as a disagreement (tie broken), never as a violation"""
    from driver import core
    from driver.translate import c18_procs
    import pyroll.core as pr
    try:
        inv = c18_procs.inventory(core.REPO, LIBNAMES)
    except c18_procs.Gap as e:
        ctx.tie_breaks.append(f"c18_procs: {e}")
        return
    diffs = []
    lib = [getattr(pr, n, None) for n in LIBNAMES]
    for i, (name, tail, hook, _rel, _ln) in enumerate(inv["table"]):
        cls = lib[i]
        if cls is None:
            diffs.append(f"{name}: no such class in pyroll.core")
            continue
        real_tail = sorted((j for j, k in enumerate(lib) if k is not None and k in cls.__mro__[1:]),
                           key=lambda j: cls.__mro__.index(lib[j]))
        if real_tail != list(tail):
            diffs.append(f"{name}: MRO tail read from the class statements {list(tail)}, real {real_tail}")
        if ("__init_subclass__" in cls.__dict__) != hook:
            diffs.append(f"{name}: defines __init_subclass__: read {hook}, real {not hook}")
    seen, todo = [pr.Unit], [pr.Unit]
    while todo:
        for sub in todo.pop().__subclasses__():
            if sub not in seen and (sub.__module__ or "").startswith("pyroll.core"):
                seen.append(sub)
                todo.append(sub)
    # (the two list attributes are in every subclass's __dict__ at run time - `__init_subclass__` puts them there -, a
    # class statement binding them would be in the read list only: compared through the registrations below)
    lists = set(c18_procs.KINDS)
    real_over = sorted((c.__qualname__, n) for c in seen if c is not pr.Unit for n in c18_procs.WATCH
                       if n in c.__dict__ and n not in lists)
    if real_over != sorted(o for o in inv["overrides"] if o[1] not in lists):
        diffs.append(f"overrides read {sorted(inv['overrides'])}, real {real_over}")
    real_regs = sorted((c.__qualname__, kind, getattr(f, "__name__", "?")) for c in seen
                       for attr, kind in c18_procs.KINDS.items() for f in (c.__dict__.get(attr) or ()))
    read_regs = sorted((c, k, a) for (c, k, m, a, _rel, _ln) in inv["regs"] if m == "append")
    if real_regs != read_regs:
        diffs.append(f"library registrations read {read_regs}, real {real_regs}")
    ctx.count("generated-table-checked")
    if diffs:
        ctx.disagreement("the tables generated from the source differ from the running classes: " + diffs[0],
                         {"check": "generated", "differences": diffs})


# -------------------------------------------------------------------------------------------
# run
# -------------------------------------------------------------------------------------------
def report(ctx, ops, problems):
    key, text = problems[0]
    try:
        small = shrink([o for o in ops], key)
    except Exception:
        small = ops
    pairs, real, _ = execute(small)
    lines = [ln for grp in pairs for (ln, _) in grp if not ln.startswith(("yield", "own"))]
    probs = real.problems or problems
    k2 = key if any(k == key for k, _ in probs) else probs[0][0]
    ctx.violation(k2, next(t for k, t in probs if k == k2),
                  {"ops": [op_json(o) for o in small], "lines": lines, "problems": [t for _, t in probs[:6]],
                   "how": "driver/props/c18.py: execute(ops) applies the ops to real classes/units (Real.apply) and "
                          "Real.problems holds what the oracle found; `./check C18 --replay <this file>`"})


def _digest(ctx, ops, pairs, real, stream, reported):
    """counters, samples and violations of one executed case; nothing of `real` is kept afterwards (the classes it
    created must be collectable: the cost of class creation grows with the number of live subclasses of Unit)"""
    lines = [ln for grp in pairs for (ln, _) in grp]
    hist = [ln for ln in lines if not ln.startswith(("yield", "own"))]
    nontrivial = any(sum(1 for e in r.ev if e.kind == "C") >= 2 for r in real.records)
    ctx.case(hist, nontrivial)
    ctx.count("stream:" + stream)
    for r in real.records:
        nc = sum(1 for e in r.ev if e.kind == "C")
        ctx.count("solve:consulted=" + (str(nc) if nc < 6 else "6+"))
        if any(e.kind == "C" and e.p is None for e in r.ev):
            ctx.count("solve:with-none-factory")
        if r.is_seq:
            ctx.count(f"seq:iterations={r.iters}")
        if r.later:
            ctx.count("solve:class-defined-after-applicable-registration")
        if r.reused_out:
            ctx.count("solve:out-profile-re-used" + ("-inside-sequence" if r.depth else ""))
            if any(e.kind == "P" and e.w == "p" and e.beh in NEW_OBJECT_BEHS for e in r.ev):
                ctx.count("solve:out-profile-re-used-after-new-object-pre-processor")
        if r.depth >= 2 and not r.helper:
            ctx.count("solve:inside-nested-sequence")
        if r.helper:
            ctx.count("solve:unit-used-as-processor" + ("" if r.mute else "-with-its-own-processors"))
            if nc:
                ctx.count("solve:unit-used-as-processor-consulting-factories")
        if r.limit is not None:
            ctx.count("solve:iteration-limit-set")
            if r.iters >= r.limit - 1:
                ctx.count("solve:all-rounds-the-limit-allows")
        if r.sibling:
            ctx.count("solve:registrations-on-sibling-class-exist")
    for b in real.beh.values():
        ctx.count("processor:" + {"i": "in-place", "f": "copy", "s": "identity", "a": "new-object-adds-value",
                                  "c": "new-object-changes-value", "d": "new-object-drops-values",
                                  "A": "in-place-adds-value", "C": "in-place-changes-value",
                                  "D": "in-place-drops-values"}[b])
    depth = max((len(real.tail_of(c)) for c in real.classes), default=0)
    ctx.count(f"hierarchy:max-mro-length={depth + 1}")
    if len(ctx.samples) < 3 and nontrivial and stream == "cooperative":
        ctx.sample({"history": hist[:60]})
    if real.problems:
        key0 = real.problems[0][0]
        ctx.count("oracle:" + key0)
        if key0 not in reported and len(reported) < 6:        # shrink and write out one replay per kind
            reported.add(key0)
            report(ctx, ops, real.problems)
    return lines, [o for grp in pairs for (_, o) in grp]


def _compare(ctx, cases, state):
    """pipe the cases of one batch to the Lean model and compare every output line"""
    lean_lines = []
    for ops, lines, outs in cases:
        lean_lines.append("reset")
        lean_lines += lines
    out = ctx.lean_model(MODEL, lean_lines)
    pos = 0
    for ops, lines, outs in cases:
        pos += 1
        m_out = out[pos:pos + len(lines)]
        pos += len(lines)
        want = canon_objs(outs)
        got = canon_objs(m_out)
        if want == got:
            ctx.validated()
            continue
        state["n"] += 1
        if state["n"] > 20:
            ctx.count("disagreements-not-listed")
            continue
        i = next((i for i in range(len(lines)) if i >= len(got) or want[i] != got[i]), len(lines))
        ctx.disagreement(f"model and implementation differ at line #{i} ({lines[min(i, len(lines) - 1)]})",
                         {"lines": lines[:i + 1], "ops": [op_json(o) for o in ops],
                          "impl": want[i] if i < len(want) else None, "model": got[i] if i < len(got) else None})
    if pos != len(out):
        ctx.disagreement("model output length mismatch", {"expected": pos, "got": len(out)})


def translate(ctx):
    """(T) regenerate lean/PyrollModel/Gen/C18.lean from the working tree; statements outside the subset -> tie_breaks"""
    from driver import core
    from driver.translate import c18_procs
    try:
        c18_procs.emit(ctx, core.REPO, core.LEAN_DIR, LIBNAMES)
    except c18_procs.Gap as e:         # a class / file is missing altogether
        ctx.tie_breaks.append(f"c18_procs: {e}")


def run(ctx):
    import gc
    check_library(ctx)
    check_generated(ctx)
    n_cases = ctx.budget(1500, 15000)      # (thorough: 17000 took 11.6 min on a loaded machine with the nested sequences of
    #                                          round 3, 20000 took 12.8 min with the real roll passes of round 2)
    use_model = getattr(ctx, "model_available", True)
    reported = set()
    state = {"n": 0}
    cases = []                      # (ops, lines, expected outputs) of the current batch
    for ops in CORPUS:
        pairs, real, _ = execute(ops)
        case = (ops,) + _digest(ctx, ops, pairs, real, "corpus", reported)
        if not (real.nested or real.helper_mode):   # (sequences inside sequences, units used as processors with their
            cases.append(case)                       #  own processors are not in the Lean model: oracle only)
    for i in range(n_cases):
        malformed = ctx.rng.random() < 0.15
        n_ops = ctx.rng.randrange(14, 34 if ctx.tier == "quick" else 48)
        ops, pairs, real = gen_and_run(ctx.rng, n_ops, malformed, ctx.count)
        case = (ops,) + _digest(ctx, ops, pairs, real, "malformed" if malformed else "cooperative", reported)
        nested = real.nested or real.helper_mode
        if real.helper_mode:
            ctx.count("stream:units-as-processors-oracle-only")
        if real.nested:
            ctx.count("stream:nested-sequences-oracle-only")
        del real, pairs
        if nested:
            pass
        elif use_model:
            cases.append(case)
        if i % 50 == 49:
            gc.collect()
        if len(cases) >= 2000:
            _compare(ctx, cases, state)
            cases = []
    if use_model and cases:
        _compare(ctx, cases, state)


def replay(ctx, data):
    r = data.get("replay", data)
    if r.get("check") == "library":
        check_library(ctx)
        return
    ops = [op_tuple(o) for o in r["ops"]]
    pairs, real, _ = execute(ops)
    for key, text in real.problems[:1]:
        ctx.violation(data.get("key", key), text, r)
