"""C07 - a failed hook evaluation raises the documented error and leaves no residue.

Tie: T + K (hand-written model lean/PyrollModel/Failure.lean, theorems lean/PyrollProps/C07.lean).
T: `translate` re-reads pyroll/core/hooks.py (driver/translate/hooks_skeleton.py -> lean/PyrollModel/Gen/C07Hooks.lean): the
model CONSUMES the conversions of Hook.__get__ (which outcome of get_result becomes which exception, in order), the position of
the store among them, and where / under which guard HookFunction.__call__ discards the re-entrancy mark; the statements of
_all_finite, HookFunction.__call__, Hook.__get__ (explicit / remembered part), get_result, has_value are pinned by
`hooks_source_as_modelled`.  The ERROR PATHS are read too (driver/translate/c07_errpath.py -> Gen/C07ErrPath.lean): what each
block of Hook.__get__ that raises evaluates (format fields of the message, arguments of the exception and of logger calls, other
statements; `str(instance)` resolved against every `__str__` of the host classes); the model's Hook.__get__ ends with an
error-path step (`Failure.errTask` / `finish`) that consumes the table: an evaluation ON the instance there ({instance!r},
instance.__attrs__, ...) stops `errTask_gen`, and with it every theorem, from building.

The harness builds real `HookHost` subclasses with `type()`, registers implementations that are small
first-order programs (the `Body` language of the model: return a value / the accumulator, raise, read a hook of
self or of another instance, branch on `cycle`, branch on `has_value`), and drives the real descriptor
`Hook.__get__` / `HookHost.has_value` and the Lean model with the same lines.  Compared after every operation:
the outcome (value / exception type / bool), the complete `__cache__` and `__dict__` of every instance and the
re-entrancy marks of every registered implementation.

The independent oracle is written from the property statement (it does not know the model):
  * every read, at every nesting depth, is bracketed by the harness; from what the implementations of the chain
    returned or raised it derives the outcome the statement demands (no value -> AttributeError, a value that is or
    contains nan/inf -> ValueError, RecursionError -> AttributeError, any other exception unchanged, otherwise the
    value) and compares;
  * after every read (whatever its outcome, whatever the depth) the marks of every implementation must be exactly
    the activations that are on the harness' own call stack, and the `cycle` argument an implementation receives
    must say whether it is re-entered on that instance;
  * a cache entry that differs after a read must be the value of a successful computed read that happened inside it
    (the failing read itself contributes nothing); `__dict__` never changes;
  * twin: the same history without the designated failing reads (each replaced by the successful nested reads that
    happened inside it - those are reads of their own and are remembered) must give the same outcomes for all
    other operations and the same final state.  Claimed only while no implementation branched on `cycle=True`
    and no `has_value` guard met the recursion limit (the explicit hypotheses of the theorems `no_residue` and
    `no_residue_coherent`; outside them the statement is false of the code: `no_residue_full_false`).
Stream `hosts` (oracle only): the failing read is made on REAL objects of the library - roll passes given by gap / height /
inscribed circle / neither, their rolls and in / out profiles, free rolls, profiles, transports, sequences and their units -
whose repr / `__attrs__` / `__str__` are stateful: documented error kind, snapshot of `__dict__` / `__cache__` of the whole
reachable object graph against a failure-free twin, executing-marks, later reads after a legitimate edit (see `host_case`).
"""
import math

ID = "C07"
LEAN_MODULES = ["PyrollProps.C07"]
MODEL = "c07"
MODEL_MODULES = ["PyrollModel.FailureDriver"]
RULE = ("a case = one generated class (1-4 hooks, 1-3 instances, 1-10 implementations that are random first-order "
        "programs: nested reads of self/other instances to depth 6, has_value guards, cycle branches, every result "
        "kind, every exception kind) + a history of 3-14 operations (read/has_value/set/del/clear) into which "
        "designated fault reads are inserted; non-trivial = at least one read failed or an implementation was "
        "invoked below the top level; distinct by the canonical program+history lines. Streams: corpus, nested, "
        "values (result-kind zoo), runaway (mutual recursion with/without guards), exotic (oracle only: numpy "
        "scalars, object/2-d arrays), wrappers (oracle only), hosts (oracle only: a case = a real pyroll object graph - "
        "two-/three-roll pass given by gap, height, inscribed circle, both or neither, bare / after init_solve / solved, a "
        "free roll, profile, transport, a three-unit sequence - described by its constructor arguments, a target object "
        "of the graph (root, roll, in/out profile, unit of a sequence), a probe hook or a real hook of the target, a "
        "fault (None, 8 non-finite shapes, runaway recursion, 6 exception kinds), read or has_value, 0-2 reads before, "
        "0-4 reads nested in the failing implementation, an edit (set / del / clear / reevaluate_cache) and 5-8 later "
        "reads; non-trivial = the designated read failed; a fixed corpus of 60 such cases runs first).")
ASSUMPTIONS = [
    "source tie (T): pyroll/core/hooks.py is read with ast into canonical role lines and typed facts (driver/translate/hooks_skeleton.py, trusted); the facts the model consumes are also executed against the imported pyroll.core.hooks on every run (self_check), the role lines are compared with the hand-written shape lean/PyrollModel/HookSource.lean by the theorem hooks_source_as_modelled",
    "np.isfinite classification by value kind is modelled (Failure.shape/allNumeric/npIsFiniteAll), validated by the "
    "correspondence on every generated value; ints are small (no object-dtype big ints)",
    "CPython try/finally, hasattr (swallows exactly AttributeError) and the recursion limit (= fuel) are modelled; "
    "outcomes that depend on the exact depth at which the limit strikes (guarded runaway recursion) are compared "
    "only for the documented exception type and the absence of residue, not for the value",
    "wrapper implementations are not in the C07 model (C01 models them); the oracle exercises them on the real code",
    "sets, dicts and geometry objects are not searched for numbers (the statement lists them as non-numeric)",
    "error paths (T): driver/translate/c07_errpath.py (trusted) reads what the raising blocks of Hook.__get__ evaluate and "
    "classifies it (self.name, type(instance).__name__: effect-free; str(instance): resolved against the __str__ definitions "
    "of the host classes of pyroll/core, effect-free when built from the type name and plain data attributes; repr(instance), "
    "attributes and calls on the instance: evaluations ON the instance); evaluations on the RESULT value ({result!r}) are "
    "listed, not counted; the table is executed against the imported module with an instrumented host (self_check)",
    "stream hosts: the twin is a second graph built from the same description; values are compared up to 1e-9 relative "
    "(identical computations), library objects by their position in the graph; the class of the target object is replaced "
    "by a fresh subclass (probe hooks, failing implementations) - nothing is registered on the library's classes",
]



def translate(ctx):
    """(T) re-read pyroll/core/hooks.py of the working tree -> lean/PyrollModel/Gen/C07Hooks.lean (role lines of _all_finite,
    HookFunction.__call__, Hook.__get__, get_result, has_value + the facts the model consumes: the conversions of __get__ and
    their order, the position of the store among them, where and under which guard the re-entrancy mark is discarded)"""
    from ..translate import hooks_skeleton, c07_errpath
    info = hooks_skeleton.emit_for(ctx, ID)
    ctx.notes["hooks_source"] = {k: v for k, v in info["facts"].items() if k in hooks_skeleton.SELECTION[ID]["fact_names"]}
    # the error paths of Hook.__get__: what building the exception evaluates on the instance -> Gen/C07ErrPath.lean
    err = c07_errpath.emit(ctx)
    ctx.notes["error_paths"] = {"raises": err["raises"], "on_instance": err["onInstance"], "on_result": err["onResult"],
                                "str_evaluates": err["strEvaluates"], "call_handlers": err["callHandlers"]}


FUEL = 700            # model fuel; 3..7 per nesting level -> 100..233 levels
HIT_DEPTH = 60        # the implementation is said to have run away when more than this many activations nest
STEP_BUDGET = 4000    # implementation calls per top-level operation (exponential guarded runaways are discarded)
DEEP = 40             # nodes deeper than this are not judged (harness code itself may hit the recursion limit)

OTHER = None          # exception classes of Exc.other k, created lazily


class _Budget(BaseException):
    pass


class C07Error(Exception):
    pass


class C07Base(BaseException):
    pass


def _others():
    return [ZeroDivisionError, TypeError, KeyError, RuntimeError, C07Error, C07Base]


EXC_NAMES = ["AttributeError", "ValueError", "RecursionError", "StopIteration"] + ["Other%d" % k for k in range(6)]
WRAPPER_EXC = [e for e in EXC_NAMES if e != "StopIteration"]   # inside a generator python turns it into RuntimeError


def exc_class(name):
    if name.startswith("Other"):
        return _others()[int(name[5:])]
    return {"AttributeError": AttributeError, "ValueError": ValueError, "RecursionError": RecursionError,
            "StopIteration": StopIteration}[name]


def exc_name(e):
    t = type(e)
    for k, c in enumerate(_others()):
        if t is c:
            return "Other%d" % k
    if t in (AttributeError, ValueError, RecursionError, StopIteration):
        return t.__name__
    return "?" + t.__name__


# ---------------------------------------------------------------------------------------------------------
# values: tuple form  ("N",) ("I",n) ("B",b) ("F",k|"nan"|"inf"|"ninf") ("S",n) ("A",[f..]) ("T",n) ("G",n) ("C",n)
#                     ("L",[v..]) ("U",[v..])   (list / tuple)
# ---------------------------------------------------------------------------------------------------------
def fval(k):
    if k == "nan":
        return float("nan")
    if k == "inf":
        return float("inf")
    if k == "ninf":
        return float("-inf")
    return k + 0.5


def ftok(x):
    x = float(x)
    if math.isnan(x):
        return "Fnan"
    if math.isinf(x):
        return "Finf" if x > 0 else "Fninf"
    k = x - 0.5
    if k != int(k):
        return "F?%r" % x
    return "F%d" % int(k)


def _callable(n):
    def c07_callable():
        return n
    c07_callable._c07_n = n
    return c07_callable


def mkval(v):
    """a FRESH python object for a value in tuple form"""
    import numpy as np
    k = v[0]
    if k == "N":
        return None
    if k == "I":
        return int(v[1])
    if k == "B":
        return bool(v[1])
    if k == "F":
        return fval(v[1])
    if k == "S":
        return "s%d" % v[1]
    if k == "A":
        return np.array([fval(x) for x in v[1]], dtype=float)
    if k == "T":
        return {float("nan"), v[1]}          # a set is not searched for numbers: passes although it holds nan
    if k == "G":
        from shapely.geometry import Point
        return Point(float(v[1]), 0.0)
    if k == "C":
        return _callable(v[1])
    if k == "L":
        return [mkval(x) for x in v[1]]
    if k == "U":
        return tuple(mkval(x) for x in v[1])
    # exotic kinds (oracle only, never sent to the model)
    if k == "X":
        return mk_exotic(v[1])
    raise ValueError(v)


EXOTIC = ["f64nan", "f64fin", "f32inf", "i64", "arr2d_nan", "arr2d_fin", "objarr_nan", "objarr_fin", "intarr",
          "tuple_arr_nan", "strarr", "objarr0", "list_f64inf", "boolarr", "nested_objarr_inf"]


def mk_exotic(name):
    import numpy as np
    nan = float("nan")
    return {
        "f64nan": lambda: np.float64("nan"), "f64fin": lambda: np.float64(1.5), "f32inf": lambda: np.float32("inf"),
        "i64": lambda: np.int64(3), "arr2d_nan": lambda: np.array([[1.0, 2.0], [3.0, nan]]),
        "arr2d_fin": lambda: np.array([[1.0, 2.0], [3.0, 4.0]]),
        "objarr_nan": lambda: np.array([nan, None], dtype=object), "objarr_fin": lambda: np.array([1.5, None], dtype=object),
        "intarr": lambda: np.array([1, 2, 3]), "tuple_arr_nan": lambda: (np.array([1.0, nan]), "x"),
        "strarr": lambda: np.array(["a", "b"]), "objarr0": lambda: np.array(None, dtype=object),
        "list_f64inf": lambda: [np.float64("inf"), "x"], "boolarr": lambda: np.array([True, False]),
        "nested_objarr_inf": lambda: ["s", np.array([[1.5, None], [float("-inf"), None]], dtype=object)],
    }[name]()


def vtok(v):
    """token form of a value in tuple form (the line protocol of the model)"""
    k = v[0]
    if k == "N":
        return "N"
    if k == "I":
        return "I%d" % v[1]
    if k == "B":
        return "B1" if v[1] else "B0"
    if k == "F":
        return "F" + str(v[1])
    if k in "STGC":
        return "%s%d" % (k, v[1])
    if k == "A":
        return "A[ " + "".join("F%s " % x for x in v[1]) + "]"
    if k == "L":
        return "[ " + "".join(vtok(x) + " " for x in v[1]) + "]"
    if k == "U":
        return "( " + "".join(vtok(x) + " " for x in v[1]) + ")"
    if k == "X":
        return "X:" + v[1]                  # exotic values never cross the line protocol
    raise ValueError(v)


def pytok(x):
    """token form of a python object produced by `mkval` or by an accumulator"""
    import numpy as np
    if x is None:
        return "N"
    if isinstance(x, bool):
        return "B1" if x else "B0"
    if type(x) is int:
        return "I%d" % x
    if type(x) is float:
        return ftok(x)
    if isinstance(x, str):
        return "S" + x[1:] if x[:1] == "s" and x[1:].isdigit() else "?str"
    if isinstance(x, np.ndarray) and x.ndim == 1 and x.dtype == float:
        return "A[ " + "".join(ftok(y) + " " for y in x) + "]"
    if isinstance(x, (set, frozenset)):
        fin = [y for y in x if not (isinstance(y, float) and math.isnan(y))]
        return "T%d" % fin[0] if len(fin) == 1 else "?set"
    if callable(x) and hasattr(x, "_c07_n"):
        return "C%d" % x._c07_n
    if type(x).__name__ == "Point":
        return "G%d" % int(x.x)
    if isinstance(x, list):
        return "[ " + "".join(pytok(y) + " " for y in x) + "]"
    if isinstance(x, tuple):
        return "( " + "".join(pytok(y) + " " for y in x) + ")"
    return "?" + type(x).__name__ + ":" + repr(x)[:40]


def contains_nonfinite(x):
    """the statement: the value IS or CONTAINS (list, tuple, array) a non-finite number"""
    import numpy as np
    if isinstance(x, (bool, int, str, bytes)) or x is None:
        return False
    if isinstance(x, float):
        return math.isnan(x) or math.isinf(x)
    if isinstance(x, np.generic):
        if isinstance(x, (np.floating, np.complexfloating)):
            return not bool(np.isfinite(x))
        return False
    if isinstance(x, np.ndarray):
        if x.dtype.kind in "fc":
            return not bool(np.isfinite(x).all())
        if x.dtype.kind == "O":
            return any(contains_nonfinite(y) for y in x.flat)
        return False
    if isinstance(x, (list, tuple)):
        return any(contains_nonfinite(y) for y in x)
    return False


def has_non_numeric_leaf(x):
    import numpy as np
    if isinstance(x, (list, tuple)):
        return any(has_non_numeric_leaf(y) for y in x)
    if isinstance(x, np.ndarray):
        return x.dtype.kind not in "fiub"
    return not isinstance(x, (bool, int, float, np.number))


# ---------------------------------------------------------------------------------------------------------
# bodies: ("ret", v) ("acc", c) ("raise", name) ("read", ref, h, k) ("cyc", a, b) ("has", ref, h, a, b);  ref None = self
# ---------------------------------------------------------------------------------------------------------
def btok(b):
    k = b[0]
    if k == "ret":
        return "ret " + vtok(b[1])
    if k == "acc":
        return "acc %d" % b[1]
    if k == "raise":
        return "raise " + b[1]
    r = lambda x: "s" if x is None else str(x)
    if k == "read":
        return "read %s %d %s" % (r(b[1]), b[2], btok(b[3]))
    if k == "cyc":
        return "cyc %s %s" % (btok(b[1]), btok(b[2]))
    if k == "has":
        return "has %s %d %s %s" % (r(b[1]), b[2], btok(b[3]), btok(b[4]))
    raise ValueError(b)


def body_uses(b, kind):
    k = b[0]
    if k == kind:
        return True
    if k == "read":
        return body_uses(b[3], kind)
    if k == "cyc":
        return body_uses(b[1], kind) or body_uses(b[2], kind)
    if k == "has":
        return body_uses(b[3], kind) or body_uses(b[4], kind)
    return False


def body_exotic(b):
    k = b[0]
    if k == "ret":
        return val_exotic(b[1])
    if k == "read":
        return body_exotic(b[3])
    if k == "cyc":
        return body_exotic(b[1]) or body_exotic(b[2])
    if k == "has":
        return body_exotic(b[3]) or body_exotic(b[4])
    return False


def val_exotic(v):
    if v[0] == "X":
        return True
    if v[0] in "LU":
        return any(val_exotic(x) for x in v[1])
    return False


class Node:
    """one bracketed read"""
    __slots__ = ("inst", "h", "via", "depth", "pre_dict", "pre_cache", "calls", "open", "outcome", "kind", "ok")

    def __init__(self, inst, h, via, depth):
        self.inst, self.h, self.via, self.depth = inst, h, via, depth
        self.calls = []            # calls made by the chain of this read that are not nested inside a wrapper
        self.open = []             # wrapper calls of this read that are suspended at their yield
        self.outcome = None
        self.kind = None
        self.ok = None


_MISSING = object()


class World:
    """a real HookHost subclass with the implementations of one program, plus the oracle's bookkeeping"""

    def __init__(self, prog):
        from pyroll.core.hooks import HookHost, Hook
        self.prog = prog
        self.cls = type("C07Host", (HookHost,), {})
        for h in range(prog["hooks"]):
            setattr(self.cls, "q%d" % h, Hook[object]())
        self.insts = [self.cls() for _ in range(prog["insts"])]
        self.hfs = {}
        self.stack = []            # active implementation calls (f, instance index)
        self.call_stack = []       # their records
        self.cur = None            # innermost open read node
        self.top = []              # top-level nodes
        self.problems = []         # (key, text)
        self.saw_cycle = False
        self.reentered = False     # a hook was read, and had to be computed, while it was being computed
        self.open_reads = []       # (instance, hook) of the computing reads in progress
        self.hit = False
        self.maxdepth = 0
        self.steps = 0
        self.nested_calls = 0
        for (f, h, body, takes_cycle, tier) in prog["fns"]:
            fn = self._make_impl(f, body, takes_cycle)
            hook = getattr(self.cls, "q%d" % h)
            self.hfs[f] = hook(fn, tryfirst=(tier == "first"), trylast=(tier == "last"))
        for (f, h, wbody, tier) in prog.get("wrappers", []):
            fn = self._make_wrapper(f, wbody)
            hook = getattr(self.cls, "q%d" % h)
            self.hfs[f] = hook(fn, tryfirst=(tier == "first"), trylast=(tier == "last"), wrapper=True)

    # ---- chain order as the implementation resolves it (C01's subject; here it is an input of the model)
    def chain_order(self):
        rev = {id(hf): f for f, hf in self.hfs.items()}
        out = []
        for h in range(self.prog["hooks"]):
            for hf in getattr(self.cls, "q%d" % h).functions:
                out.append((rev[id(hf)], h))
        return out

    # ---- implementations ------------------------------------------------------------------------------
    def _enter(self, f, inst, cycle, takes_cycle, wrapper=False):
        idx = self.idx(inst)
        self.steps += 1
        if self.steps > STEP_BUDGET:
            raise _Budget()
        # events: the reads made by this call and (for a wrapper) the calls of the chain below its yield, in time order
        rec = {"f": f, "inst": idx, "out": None, "events": [], "wrapper": wrapper, "inner": [], "node": self.cur}
        if self.cur is not None:
            if self.cur.open:
                self.cur.open[-1]["inner"].append(rec)
                self.cur.open[-1]["events"].append(rec)
            else:
                self.cur.calls.append(rec)
            if wrapper:
                self.cur.open.append(rec)
        if takes_cycle and len(self.stack) <= DEEP:
            expected = (f, idx) in self.stack
            if bool(cycle) != expected:
                self.problems.append(("cycle-flag-wrong", "implementation %d on instance %d received cycle=%r while it "
                                      "is %sactive on that instance (nesting depth %d)"
                                      % (f, idx, cycle, "" if expected else "not ", len(self.stack))))
        self.stack.append((f, idx))
        self.call_stack.append(rec)
        if len(self.stack) > self.maxdepth:
            self.maxdepth = len(self.stack)
        if len(self.stack) > 1:
            self.nested_calls += 1
        return rec

    def _leave(self, rec):
        # a wrapper generator whose chain raised is never resumed: it is finalised at some later time, when its
        # activation has long been cut off by `read` - then there is nothing to pop
        if self.call_stack and self.call_stack[-1] is rec:
            self.stack.pop()
            self.call_stack.pop()
        node = rec["node"]
        if rec["wrapper"] and node is not None and node.open and node.open[-1] is rec:
            node.open.pop()

    def _make_impl(self, f, body, takes_cycle):
        world = self

        def run(inst, cycle):
            rec = world._enter(f, inst, cycle, takes_cycle)
            try:
                v = world._interp(inst, cycle, body)
                rec["out"] = ("ret", v)
                return v
            except BaseException as e:
                rec["out"] = ("exc", e)
                raise
            finally:
                world._leave(rec)

        if takes_cycle:
            def c07_impl(self, cycle):
                return run(self, cycle)
        else:
            def c07_impl(self):
                return run(self, False)
        c07_impl.__qualname__ = "c07_impl_%d" % f
        return c07_impl

    def _make_wrapper(self, f, wbody):
        """wbody = (pre, post): bodies run before / after the single yield; the yielded-in value is added to acc"""
        world = self
        pre, post = wbody

        def c07_wrapper(self, cycle):
            rec = world._enter(f, self, cycle, True, wrapper=True)
            try:
                if cycle:
                    # re-entered through its own yield (same read): the documented protocol, no dependence on outer
                    # frames; re-entered from a nested read of the hook: a branch on the cycle flag of an outer frame
                    if any(r is not rec and r["f"] == f and r["inst"] == rec["inst"] and r["node"] is not rec["node"]
                           for r in world.call_stack):
                        world.saw_cycle = True
                    rec["out"] = ("ret", None)
                    return None
                if pre is not None:
                    world._interp(self, cycle, pre)       # may raise / read; its return value is dropped
                got = yield
                rec["got"] = got
                v = world._interp(self, cycle, post, acc0=(got if type(got) is int else 0))
                rec["out"] = ("ret", v)
                return v
            except BaseException as e:
                if not isinstance(e, GeneratorExit):
                    rec["out"] = ("exc", e)
                raise
            finally:
                world._leave(rec)
        c07_wrapper.__qualname__ = "c07_wrapper_%d" % f
        return c07_wrapper

    def _interp(self, inst, cycle, b, acc0=0):
        acc = acc0
        while True:
            k = b[0]
            if k == "ret":
                return mkval(b[1])
            if k == "acc":
                return acc + b[1]
            if k == "raise":
                e = exc_class(b[1])()
                e._c07_explicit = True
                raise e
            if k == "read":
                tgt = inst if b[1] is None else self.insts[b[1]]
                v = self.read(tgt, b[2], "read")
                if type(v) is int:
                    acc += v
                b = b[3]
            elif k == "cyc":
                if cycle:
                    self.saw_cycle = True
                    b = b[1]
                else:
                    b = b[2]
            elif k == "has":
                tgt = inst if b[1] is None else self.insts[b[1]]
                b = b[3] if self.read(tgt, b[2], "has") else b[4]
            else:
                raise ValueError(b)

    def idx(self, inst):
        for i, x in enumerate(self.insts):
            if x is inst:
                return i
        raise ValueError("unknown instance")

    # ---- the bracketed read -----------------------------------------------------------------------------
    def snapshot(self):
        return [(dict(x.__dict__), dict(x.__cache__)) for x in self.insts]

    def read(self, inst, h, via):
        name = "q%d" % h
        i = self.idx(inst)
        depth = len(self.stack)
        node = Node(i, h, via, depth)
        judge = depth <= DEEP
        node.pre_dict = inst.__dict__.get(name, _MISSING)
        node.pre_cache = inst.__cache__.get(name, _MISSING)
        if judge:
            before = self.snapshot()
        if self.call_stack:
            self.call_stack[-1]["events"].append(node)
        else:
            self.top.append(node)
        prev = self.cur
        self.cur = node
        height = len(self.stack)
        computing = (node.pre_dict is _MISSING or node.pre_dict is None) and \
            (node.pre_cache is _MISSING or node.pre_cache is None)
        if computing:
            if (i, h) in self.open_reads:
                self.reentered = True
            self.open_reads.append((i, h))
        try:
            if via == "has":
                node.outcome = ("bool", inst.has_value(name))
            else:
                node.outcome = ("val", getattr(inst, name))
        except _Budget:
            raise
        except BaseException as e:
            node.outcome = ("exc", e)
        finally:
            self.cur = prev
            if computing:
                self.open_reads.pop()
            del self.stack[height:]          # activations of suspended wrappers whose chain raised end here
            del self.call_stack[height:]
        if judge:
            self.judge(node, before)
        else:
            # deeper nodes are only classified (no calls here: the recursion limit may be one frame away)
            o = node.outcome
            node.ok = (o[0] == "val") or (o[0] == "bool" and o[1] is True)
            pd = node.pre_dict
            pc = node.pre_cache
            if pd is not _MISSING and pd is not None:
                node.kind = "explicit"
            elif pc is not _MISSING and pc is not None:
                node.kind = "cached"
            else:
                node.kind = "computed"
        if node.outcome[0] == "exc":
            raise node.outcome[1]
        return node.outcome[1]

    # ---- the oracle: one read judged against the statement ------------------------------------------------
    def expected(self, node):
        """('val', obj) | ('exc-type', cls) | ('exc-is', e) | ('any-attr',)  from the statement"""
        if node.pre_dict is not _MISSING and node.pre_dict is not None:
            node.kind = "explicit"
            return ("val", node.pre_dict)
        if node.pre_cache is not _MISSING and node.pre_cache is not None:
            node.kind = "cached"
            return ("val", node.pre_cache)
        node.kind = "computed"
        d = self.decide(node.calls)
        if d[0] == "unknown":
            return d
        if d[0] == "val":
            if contains_nonfinite(d[1]):
                return ("exc-type", ValueError, d[1])
            return d
        if d[0] == "exc":
            if isinstance(d[1], RecursionError):
                return ("exc-type", AttributeError, None)
            return ("exc-is", d[1])
        return ("exc-type", AttributeError, None)

    def decide(self, calls):
        """what a chain yields: the first result that is not None, or the first exception
        -> ("val", v) | ("exc", e) | ("none",) | ("unknown",)"""
        for n, rec in enumerate(calls):
            out = rec["out"]
            if out is None:
                if rec["wrapper"]:                        # suspended at its yield: the chain below it raised
                    inner = self.decide(rec["inner"])
                    if inner[0] == "exc":
                        return inner
                return ("unknown",)                       # the record was cut off (recursion limit in harness code)
            if out[0] == "ret":
                if out[1] is None:
                    continue
                if n + 1 < len(calls):
                    self.problems.append(("chain-not-stopped", "an implementation was called after one yielded a value"))
                return ("val", out[1])
            if isinstance(out[1], StopIteration) and not rec["wrapper"]:
                continue                                  # `except StopIteration as e: result = e.value`
            return ("exc", out[1])
        return ("none",)

    def judge(self, node, before):
        exp = self.expected(node)
        out = node.outcome
        where = "read of q%d on instance %d (%s, nesting depth %d)" % (node.h, node.inst, node.via, node.depth)
        failed = out[0] == "exc" or (out[0] == "bool" and out[1] is False)
        node.ok = not failed
        limit = False
        if out[0] == "exc":
            e = out[1]
            if isinstance(e, RecursionError):
                self.problems.append(("recursion-error-escapes", where + " raised RecursionError"))
                self.hit = True
                limit = True
            elif isinstance(e, AttributeError) and isinstance(e.__cause__, RecursionError) \
                    and not getattr(e.__cause__, "_c07_explicit", False):
                self.hit = True
                limit = True
        if exp[0] != "unknown" and not limit:
            if node.via == "has":
                if exp[0] == "val":
                    if out != ("bool", True):
                        self.problems.append(("has-value-wrong", where + " gave %r although a value is available" % (out,)))
                elif exp[0] == "exc-type" and exp[1] is AttributeError:
                    if out[0] == "exc" and isinstance(out[1], AttributeError) and isinstance(out[1].__cause__, RecursionError):
                        pass
                    elif out != ("bool", False):
                        self.problems.append(("has-value-wrong", where + " gave %r although no value is available" % (out,)))
                elif exp[0] == "exc-type":          # ValueError must come through hasattr
                    if not (out[0] == "exc" and type(out[1]) is exp[1]):
                        if out == ("bool", True):        # the non-finite result was accepted (and remembered)
                            mixed = (isinstance(exp[2], (list, tuple)) and has_non_numeric_leaf(exp[2])) or \
                                (type(exp[2]).__name__ == "ndarray" and exp[2].dtype.kind == "O")
                            key = "nonfinite-in-non-numeric-sequence" if mixed else "nonfinite-result-accepted"
                        else:
                            key = "has-value-swallows-error"
                        self.problems.append((key, where + ": the result %s contains a non-finite number (ValueError "
                                              "expected), has_value gave %r" % (pytok(exp[2])[:80], out)))
                elif exp[0] == "exc-is":
                    if not (out[0] == "exc" and out[1] is exp[1]):
                        if not (isinstance(exp[1], AttributeError) and out == ("bool", False)):
                            self.problems.append(("has-value-swallows-error" if out[0] == "bool" else "exception-type-changed",
                                                  where + ": implementation raised %s, has_value gave %r"
                                                  % (type(exp[1]).__name__, out)))
            else:
                if exp[0] == "val":
                    if out[0] == "exc":
                        key = "finite-result-rejected" if node.kind == "computed" else "available-value-not-returned"
                        self.problems.append((key, where + ": %s value %s available but %s raised"
                                              % (node.kind, pytok(exp[1])[:60], type(out[1]).__name__)))
                    elif out[1] is not exp[1]:
                        self.problems.append(("wrong-value", where + ": expected the %s value %s, got %s"
                                              % (node.kind, pytok(exp[1])[:60], pytok(out[1])[:60])))
                elif exp[0] == "exc-type":
                    if not (out[0] == "exc" and type(out[1]) is exp[1]):
                        got = "value " + pytok(out[1])[:60] if out[0] == "val" else type(out[1]).__name__
                        if exp[1] is ValueError:
                            mixed = (isinstance(exp[2], (list, tuple)) and has_non_numeric_leaf(exp[2])) or \
                                (type(exp[2]).__name__ == "ndarray" and exp[2].dtype.kind == "O")
                            key = "nonfinite-in-non-numeric-sequence" if mixed else "nonfinite-result-accepted"
                            self.problems.append((key, where + ": the result %s contains a non-finite number; expected "
                                                  "ValueError, got %s" % (pytok(exp[2])[:80], got)))
                        else:
                            self.problems.append(("no-value-not-attribute-error", where + ": no implementation yields a "
                                                  "value (or recursion ran away); expected AttributeError, got %s" % got))
                elif exp[0] == "exc-is":
                    if not (out[0] == "exc" and out[1] is exp[1]):
                        got = "value " + pytok(out[1])[:60] if out[0] == "val" else type(out[1]).__name__
                        self.problems.append(("exception-type-changed", where + ": implementation raised %s, read gave %s"
                                              % (type(exp[1]).__name__, got)))
        # marks: exactly the activations on the harness' own stack
        for f, hf in self.hfs.items():
            act = getattr(hf, "_active_instances", None)
            want = {id(self.insts[j]) for (g, j) in self.stack if g == f}
            if act is not None:
                if set(act) != want:
                    self.problems.append(("marks-not-restored", "after the %s %s: implementation %d is marked active on %d "
                                          "instance(s) but has %d activation(s) on the stack"
                                          % ("failed" if failed else "successful", where, f, len(act), len(want))))
                    break
            elif bool(getattr(hf, "cycle", False)) != bool(want):
                self.problems.append(("marks-not-restored", "after the %s %s: implementation %d has cycle=%r with %d "
                                      "activation(s) on the stack" % ("failed" if failed else "successful", where, f,
                                                                       getattr(hf, "cycle", None), len(want))))
                break
        # dict never changes; cache changes only by successful computed reads inside this one
        just = None
        for j, inst in enumerate(self.insts):
            d0, c0 = before[j]
            d1, c1 = inst.__dict__, inst.__cache__
            if set(d0) != set(d1) or any(d0[k] is not d1[k] for k in d0):
                self.problems.append(("dict-changed-by-read", where + " changed __dict__ of instance %d" % j))
            if set(c0) - set(c1):
                self.problems.append(("cache-entry-lost", where + " removed a __cache__ entry of instance %d" % j))
            for k in c1:
                if k in c0 and c0[k] is c1[k]:
                    continue
                if just is None:
                    just = self.stores(node)
                if (j, k, id(c1[k])) not in just:
                    key = "cache-gained-by-failed-read" if failed else "cache-unjustified-entry"
                    self.problems.append((key, "%s %s left __cache__[%s] = %s on instance %d which is not the value of a "
                                          "successful computed read" % ("failed" if failed else "successful", where, k,
                                                                         pytok(c1[k])[:60], j)))
        if not failed and node.kind == "computed" and node.via == "read":
            if self.insts[node.inst].__cache__.get("q%d" % node.h, _MISSING) is not out[1]:
                self.problems.append(("computed-not-remembered", where + " succeeded but the value is not in __cache__"))

    @staticmethod
    def children(node):
        """the reads made directly inside a read (by the calls of its chain, wrappers included), in time order"""
        res = []
        todo = list(reversed(node.calls))
        while todo:
            x = todo.pop()
            if isinstance(x, Node):
                res.append(x)
            else:
                todo.extend(reversed(x["events"]))
        return res

    def stores(self, node):
        """(instance, key, id(value)) of every successful computed read inside (and including) node"""
        res = set()
        todo = [node]
        while todo:
            n = todo.pop()
            if n.ok and n.kind == "computed" and n.outcome[0] == "val":
                res.add((n.inst, "q%d" % n.h, id(n.outcome[1])))
            elif n.ok and n.kind == "computed" and n.outcome[0] == "bool":
                # has_value does not hand out the object: whatever is remembered under that name afterwards
                v = self.insts[n.inst].__cache__.get("q%d" % n.h, _MISSING)
                d = self.decide_quiet(n.calls)
                if d[0] == "val":
                    res.add((n.inst, "q%d" % n.h, id(d[1])))
            todo.extend(self.children(n))
        return res

    def decide_quiet(self, calls):
        n = len(self.problems)
        d = self.decide(calls)
        del self.problems[n:]
        return d

    def frontier(self, node):
        """the maximal successful computed reads inside a failed read, in the order in which they happened"""
        res = []
        for n in self.children(node):
            if n.ok and n.kind == "computed":
                res.append(("read", n.inst, n.h))
            elif n.ok is False:
                res.extend(self.frontier(n))
        return res

    # ---- top-level operations ---------------------------------------------------------------------------
    def apply(self, op):
        """returns (output line, node or None)"""
        k = op[0]
        self.steps = 0
        if k in ("read", "has"):
            n0 = len(self.top)
            try:
                v = self.read(self.insts[op[1]], op[2], k)
                out = ("True" if v else "False") if k == "has" else "val " + pytok(v)
            except _Budget:
                raise
            except BaseException as e:
                out = "exc " + exc_name(e)
            node = self.top[n0]
            if self.stack or self.call_stack or self.cur is not None:
                raise RuntimeError("harness bookkeeping out of balance")
            return out, node
        if k == "set":
            setattr(self.insts[op[1]], "q%d" % op[2], mkval(op[3]))
            return "ok", None
        if k == "del":
            delattr(self.insts[op[1]], "q%d" % op[2])
            return "ok", None
        if k == "clear":
            for x in self.insts:
                x.__cache__.clear()
            return "ok", None
        raise ValueError(op)

    def dump(self):
        cs, ds, ms = [], [], []
        for i, x in enumerate(self.insts):
            for h in range(self.prog["hooks"]):
                n = "q%d" % h
                if n in x.__cache__:
                    cs.append("%d.%d=%s" % (i, h, pytok(x.__cache__[n])))
                if n in x.__dict__:
                    ds.append("%d.%d=%s" % (i, h, pytok(x.__dict__[n])))
        for f in sorted(self.hfs):
            act = getattr(self.hfs[f], "_active_instances", None)
            if act is None:
                if getattr(self.hfs[f], "cycle", False):
                    ms.append("%d@?" % f)
                continue
            for i, x in enumerate(self.insts):
                if id(x) in act:
                    ms.append("%d@%d" % (f, i))
        return "cache: " + " ; ".join(cs) + " | dict: " + " ; ".join(ds) + " | marks: " + " ".join(ms)


def optok(op):
    k = op[0]
    if k in ("read", "has", "del"):
        return "%s %d %d" % (k, op[1], op[2])
    if k == "set":
        return "set %d %d %s" % (op[1], op[2], vtok(op[3]))
    return "clear"


def prog_lines(prog, world):
    """`fn` lines in the order in which the implementation tries the functions"""
    bodies = {f: body for (f, h, body, tc, tier) in prog["fns"]}
    return ["fn %d %d %s" % (f, h, btok(bodies[f])) for (f, h) in world.chain_order()]


def run_world(prog, ops):
    """-> dict(outs, dumps, nodes, problems, world) or None when the step budget was exceeded"""
    w = World(prog)
    outs, dumps, nodes = [], [], []
    dump0 = w.dump()
    try:
        for op in ops:
            out, node = w.apply(op)
            outs.append(out)
            nodes.append(node)
            dumps.append(w.dump())
            # at top level no implementation is on the stack: nothing may be marked
            if "marks: " in dumps[-1] and dumps[-1].split("marks: ")[1].strip():
                w.problems.append(("marks-not-restored", "after top-level %s (%s): marks left: %s"
                                   % (optok(op), out, dumps[-1].split("marks: ")[1])))
    except _Budget:
        return None
    if w.maxdepth > HIT_DEPTH:
        w.hit = True
    return {"outs": outs, "dumps": dumps, "nodes": nodes, "problems": list(w.problems), "world": w, "final": (dumps or [dump0])[-1]}


def twin_ops(ops, faults, resA):
    """the history without the designated failing reads (replaced by the successful reads that happened inside them)"""
    w = resA["world"]
    res, keep = [], []
    for n, op in enumerate(ops):
        node = resA["nodes"][n]
        if n in faults and node is not None and node.ok is False:
            fr = w.frontier(node)
            res.extend(fr)
            keep.extend([None] * len(fr))
        else:
            res.append(op)
            keep.append(n)
    return res, keep


def strip_marks(d):
    return d.split(" | marks:")[0]


def oracle_case(prog, ops, faults):
    """run the case on the implementation with the complete oracle; -> (resA, problems[(key, text)], info)"""
    resA = run_world(prog, ops)
    if resA is None:
        return None, [], {"discarded": "budget"}
    probs = list(resA["problems"])
    info = {"hit": resA["world"].hit, "saw_cycle": resA["world"].saw_cycle, "twin": "none"}
    failing = [n for n in faults if resA["nodes"][n] is not None and resA["nodes"][n].ok is False]
    guards = any(body_uses(b, "has") for (_, _, b, _, _) in prog["fns"]) or bool(prog.get("wrappers"))

    def outside(w):        # outside the hypothesis under which the twin equivalence is claimed
        return w.saw_cycle or (w.hit and guards)
    if failing:
        if outside(resA["world"]):
            info["twin"] = "skipped-hypothesis"
        else:
            tops, keep = twin_ops(ops, set(failing), resA)
            resB = run_world(prog, tops)
            if resB is None:
                info["twin"] = "skipped-budget"
            elif outside(resB["world"]):
                info["twin"] = "skipped-hypothesis"
            else:
                info["twin"] = "compared"
                for m, n in enumerate(keep):
                    if n is None:
                        continue
                    if resB["outs"][m] != resA["outs"][n]:
                        probs.append(("twin-diverges", "operation #%d (%s) gives %s after the failed read(s) %s but %s in the "
                                      "history without them" % (n, optok(ops[n]), resA["outs"][n],
                                                                [optok(ops[k]) for k in failing if k < n], resB["outs"][m])))
                        break
                else:
                    if strip_marks(resB["final"]) != strip_marks(resA["final"]):
                        probs.append(("twin-diverges", "final state after the history with the failed read(s): %s ; "
                                      "without: %s" % (resA["final"], resB["final"])))
    return resA, probs, info


# ---------------------------------------------------------------------------------------------------------
# generators
# ---------------------------------------------------------------------------------------------------------
def gen_float(rng, bad):
    if rng.random() < bad:
        return ("F", rng.choice(["nan", "inf", "ninf"]))
    return ("F", rng.randrange(-3, 9))


def gen_val(rng, depth=0, bad=0.2, allow_none=True, allow_callable=True):
    r = rng.random()
    if depth < 3 and r < 0.30:
        n = rng.choice([0, 1, 1, 2, 2, 3])
        return (rng.choice("LU"), [gen_val(rng, depth + 1, bad * 0.6, True, allow_callable) for _ in range(n)])
    r = rng.random()
    if r < 0.22:
        return gen_float(rng, bad)
    if r < 0.40:
        return ("I", rng.randrange(-5, 40))
    if r < 0.47:
        return ("B", rng.random() < 0.5)
    if r < 0.60:
        return ("A", [gen_float(rng, bad * 0.5)[1] for _ in range(rng.choice([0, 1, 2, 2, 3]))])
    if r < 0.68:
        return ("S", rng.randrange(4))
    if r < 0.74:
        return ("T", rng.randrange(4))
    if r < 0.80:
        return ("G", rng.randrange(4))
    if r < 0.86 and allow_callable:
        return ("C", rng.randrange(4))
    if r < 0.93 and allow_none:
        return ("N",)
    return ("I", rng.randrange(0, 10))


def gen_terminal(rng, style):
    r = rng.random()
    if style == "values":
        return ("ret", gen_val(rng, 0, 0.35))
    if r < 0.30:
        return ("acc", rng.randrange(0, 5))
    if r < 0.50:
        return ("ret", ("I", rng.randrange(1, 30)))
    if r < 0.62:
        return ("ret", ("N",))
    if r < 0.72:
        return ("raise", rng.choice(EXC_NAMES))
    if r < 0.80:
        return ("ret", rng.choice([("F", "nan"), ("F", "inf"), ("A", [1, "nan"]), ("L", [("I", 1), ("F", "ninf")]),
                                   ("U", [("S", 0), ("F", "nan")]), ("L", [("I", 1), ("L", [("I", 2), ("F", "inf")])])]))
    return ("ret", gen_val(rng, 0, 0.15))


def gen_body(rng, h, prog, style, budget):
    """a body for an implementation of hook h"""
    nh, ni = prog["hooks"], prog["insts"]
    if budget <= 0 or rng.random() < (0.25 if style != "values" else 0.8):
        return gen_terminal(rng, style)

    def target():
        if style == "runaway" or rng.random() < 0.04:
            return rng.randrange(nh)                       # may close a cycle
        return rng.randrange(h + 1, nh) if h + 1 < nh else None

    def ref():
        return None if rng.random() < 0.6 or ni == 1 else rng.randrange(ni)
    r = rng.random()
    t = target()
    if t is None:
        return gen_terminal(rng, style)
    if r < 0.55:
        return ("read", ref(), t, gen_body(rng, h, prog, style, budget - 1))
    if r < 0.75:
        return ("has", ref(), t, gen_body(rng, h, prog, style, budget - 1), gen_body(rng, h, prog, style, budget - 2))
    if r < 0.90:
        return ("cyc", gen_terminal(rng, style) if rng.random() < 0.7 else gen_body(rng, h, prog, style, budget - 2),
                gen_body(rng, h, prog, style, budget - 1))
    return gen_terminal(rng, style)


def gen_prog(rng, style):
    nh = rng.choice([1, 2, 3, 4, 4, 5, 6, 6]) if style == "nested" else rng.choice([2, 3, 4])
    ni = rng.choice([1, 1, 2, 2, 3])
    prog = {"hooks": nh, "insts": ni, "fns": []}
    f = 0
    for h in range(nh):
        k = rng.choice([0, 1, 1, 1, 2, 2, 3]) if style != "runaway" else rng.choice([1, 1, 2])
        for _ in range(k):
            if f >= 10:
                break
            body = gen_body(rng, h, prog, style, rng.choice([1, 2, 3, 4]))
            if style == "runaway" and not body_uses(body, "read") and not body_uses(body, "has"):
                body = ("read", None, rng.randrange(nh), ("acc", 1))
            if style == "runaway" and rng.random() < 0.6:
                # no guards: pure runaway
                body = strip_has(body)
            takes_cycle = body_uses(body, "cyc") or rng.random() < 0.3
            tier = rng.choice(["", "", "", "first", "last"])
            prog["fns"].append((f, h, body, takes_cycle, tier))
            f += 1
    return prog


def gen_deep(rng):
    """a chain of reads through all six hooks (across instances) with the failure at a random position of the nesting"""
    nh, ni = 6, rng.choice([1, 2, 3])
    prog = {"hooks": nh, "insts": ni, "fns": []}
    pos = rng.randrange(nh)
    f = 0
    for h in range(nh):
        ref = None if rng.random() < 0.5 or ni == 1 else rng.randrange(ni)
        if h == pos:
            body = rng.choice([("raise", rng.choice(EXC_NAMES)), ("ret", ("N",)), ("ret", ("F", rng.choice(["nan", "inf"]))),
                               ("ret", ("L", [("I", 1), ("A", [0, "ninf"])])), ("ret", ("U", [("S", 1), ("F", "nan")])),
                               ("raise", "Other5"), ("raise", "Other3")])
            if h + 1 < nh and rng.random() < 0.5:          # fails only after a nested read succeeded
                body = ("read", ref, h + 1, body)
        elif h + 1 < nh and h < pos:
            r = rng.random()
            inner = ("acc", rng.randrange(3)) if r < 0.7 else ("ret", ("I", rng.randrange(1, 9)))
            if rng.random() < 0.2:
                body = ("has", ref, h + 1, ("read", ref, h + 1, inner), ("acc", 50))
            else:
                body = ("read", ref, h + 1, inner)
        else:
            body = rng.choice([("acc", rng.randrange(1, 5)), ("ret", ("I", rng.randrange(1, 9))), ("ret", gen_val(rng, 0, 0.0, False))])
        if rng.random() < 0.25:                            # an implementation without a value is tried first
            prog["fns"].append((f, h, rng.choice([("ret", ("N",)), ("raise", "StopIteration"), ("cyc", ("ret", ("I", 77)), ("ret", ("N",)))]),
                                False, ""))
            prog["fns"][-1] = prog["fns"][-1][:3] + (body_uses(prog["fns"][-1][2], "cyc"), "first")
            f += 1
        prog["fns"].append((f, h, body, rng.random() < 0.3, ""))
        f += 1
    return prog


def strip_has(b):
    k = b[0]
    if k == "has":
        return strip_has(b[3])
    if k == "read":
        return ("read", b[1], b[2], strip_has(b[3]))
    if k == "cyc":
        return strip_has(b[2])
    return b


def gen_ops(rng, prog, n_base, sweep_limit=None):
    nh, ni = prog["hooks"], prog["insts"]
    ops = []
    for _ in range(n_base):
        r = rng.random()
        i, h = rng.randrange(ni), rng.randrange(nh)
        if r < 0.55:
            ops.append(("read", i, h))
        elif r < 0.68:
            ops.append(("has", i, h))
        elif r < 0.86:
            ops.append(("set", i, h, gen_val(rng, 1, 0.1, True, False)))
        elif r < 0.94:
            ops.append(("del", i, h))
        else:
            ops.append(("clear",))
    # designated fault reads: inserted anywhere (a read or a has_value)
    faults = []
    for _ in range(rng.choice([1, 2, 2, 3])):
        pos = rng.randrange(len(ops) + 1)
        op = (rng.choice(["read", "read", "read", "has"]), rng.randrange(ni), rng.randrange(nh))
        ops.insert(pos, op)
        faults = [p + 1 if p >= pos else p for p in faults] + [pos]
        if rng.random() < 0.4:                            # and the same read once more right after it
            ops.insert(pos + 1, ("read", op[1], op[2]))
            faults = [p + 1 if p > pos else p for p in faults]
    # every hook of every instance is read at the end: "every later read"
    sweep = [("read", i, h) for i in range(ni) for h in range(nh)]
    if sweep_limit is not None:
        rng.shuffle(sweep)
        sweep = sweep[:sweep_limit]
    return ops + sweep, sorted(faults)


def gen_exotic(rng):
    """oracle only: one hook per exotic value, read each"""
    names = rng.sample(EXOTIC, 4)
    prog = {"hooks": 4, "insts": 1, "fns": []}
    for h, nm in enumerate(names):
        v = ("X", nm)
        if rng.random() < 0.3:
            v = (rng.choice("LU"), [("I", 1), v] if rng.random() < 0.5 else [v, ("S", 1)])
        prog["fns"].append((h, h, ("ret", v), False, ""))
    ops = [("read", 0, h) for h in range(4)] + [("has", 0, h) for h in range(4)] + [("read", 0, h) for h in range(4)]
    return prog, ops, list(range(4))


def gen_wrappers(rng):
    """oracle only: wrappers around a chain; failures before the yield, in the chain, after the yield"""
    nh, ni = rng.choice([1, 2, 3]), rng.choice([1, 2])
    prog = {"hooks": nh, "insts": ni, "fns": [], "wrappers": []}
    f = 0
    for h in range(nh):
        for _ in range(rng.choice([0, 1, 1, 2])):
            body = gen_body(rng, h, prog, "nested", rng.choice([0, 1, 2]))
            prog["fns"].append((f, h, body, body_uses(body, "cyc") or rng.random() < 0.3, rng.choice(["", "", "first", "last"])))
            f += 1
        for _ in range(rng.choice([0, 1, 1, 2])):
            pre = None if rng.random() < 0.6 else rng.choice([("raise", rng.choice(WRAPPER_EXC)), ("read", None, rng.randrange(nh), ("acc", 0)),
                                                             ("has", None, rng.randrange(nh), ("acc", 0), ("raise", "Other3"))])
            post = rng.choice([("acc", 100), ("acc", 1000), ("raise", rng.choice(WRAPPER_EXC)), ("ret", ("F", "nan")), ("ret", ("N",)),
                               ("read", None, rng.randrange(nh), ("acc", 100)), ("acc", 10)])
            prog["wrappers"].append((f, h, (pre, post), rng.choice(["", "", "first", "last"])))
            f += 1
    ops, faults = gen_ops(rng, prog, rng.randrange(2, 7))
    return prog, ops, faults


# ---------------------------------------------------------------------------------------------------------
# corpus: past failures and the witnesses of the Lean file (program, history, designated faults)
# ---------------------------------------------------------------------------------------------------------
def _p(hooks, insts, fns):
    return {"hooks": hooks, "insts": insts, "fns": [(f, h, b, body_uses(b, "cyc"), "") for (f, h, b) in fns]}


I = lambda n: ("I", n)
CORPUS = [
    # F4 (fixed 41232bc): a finite ragged sequence is a value
    ("ragged-finite", _p(1, 1, [(0, 0, ("ret", ("U", [I(1), ("U", [I(2), I(3)])])))]), [("read", 0, 0), ("read", 0, 0)], []),
    # F4b: a non-finite number inside a sequence that is not numeric as a whole
    ("mixed-nan", _p(2, 1, [(0, 0, ("ret", ("L", [("S", 0), ("F", "nan")]))), (1, 1, ("ret", ("U", [("F", "inf"), ("N",)])))]),
     [("read", 0, 0), ("read", 0, 1), ("has", 0, 0), ("read", 0, 0)], [0, 1]),
    # ragged with a non-finite leaf; array with nan; nested list
    ("ragged-nan", _p(3, 1, [(0, 0, ("ret", ("U", [I(1), ("U", [I(2), ("F", "nan")])]))), (1, 1, ("ret", ("A", [1, "inf"]))),
                             (2, 2, ("ret", ("L", [("L", [I(1), I(2)]), ("L", [I(3), ("F", "ninf")])])))]),
     [("read", 0, 0), ("read", 0, 1), ("read", 0, 2), ("read", 0, 0)], [0, 1, 2]),
    # no implementation at all / all None
    ("no-value", _p(2, 1, [(0, 1, ("ret", ("N",))), (1, 1, ("ret", ("N",)))]), [("read", 0, 0), ("read", 0, 1), ("has", 0, 1)], [0, 1]),
    # unguarded mutual recursion: AttributeError, nothing cached, nothing marked
    ("runaway-plain", _p(2, 1, [(0, 0, ("read", None, 1, ("acc", 1))), (1, 1, ("read", None, 0, ("acc", 1)))]),
     [("read", 0, 0), ("has", 0, 1), ("set", 0, 1, I(5)), ("read", 0, 0)], [0, 1]),
    # guarded mutual recursion: the value depends on the depth at which the limit strikes (not compared)
    ("runaway-guarded", _p(2, 1, [(0, 0, ("has", None, 1, ("read", None, 1, ("acc", 1)), ("ret", I(7)))), (1, 1, ("read", None, 0, ("acc", 1)))]),
     [("read", 0, 0), ("read", 0, 1)], []),
    # a BaseException three levels down, two instances: marks of every level restored (F3: per instance)
    ("deep-base-exception", _p(3, 2, [(0, 0, ("read", 1, 1, ("acc", 0))), (1, 1, ("read", None, 2, ("acc", 0))), (2, 2, ("raise", "Other5"))]),
     [("read", 0, 0), ("set", 1, 2, I(4)), ("read", 0, 0), ("read", 1, 0)], [0]),
    # witness of `no_residue_full_false`: a nested, re-entrant read of the SAME hook succeeds (cycle branch) and is
    # remembered although the outer read of that hook fails
    ("cycle-residue", _p(2, 1, [(0, 0, ("cyc", ("ret", I(5)), ("read", None, 1, ("raise", "Other3")))), (1, 1, ("read", None, 0, ("acc", 1)))]),
     [("read", 0, 0), ("read", 0, 0)], [0]),
    # a failed read inside has_value inside a successful read; then the failing hook is supplied
    ("has-inside", _p(3, 1, [(0, 0, ("has", None, 1, ("acc", 1), ("acc", 2))), (1, 1, ("read", None, 2, ("ret", ("F", "nan")))), (2, 2, ("ret", I(3)))]),
     [("read", 0, 1), ("read", 0, 0), ("clear",), ("set", 0, 1, I(9)), ("read", 0, 0)], [0]),
    # StopIteration raised by a plain implementation counts as "no value"; explicit RecursionError is converted
    ("stop-iteration", _p(2, 1, [(0, 0, ("raise", "StopIteration")), (1, 0, ("ret", I(2))), (2, 1, ("raise", "RecursionError"))]),
     [("read", 0, 0), ("read", 0, 1)], [1]),
]


# ---------------------------------------------------------------------------------------------------------
# stream `hosts` (oracle only): failing reads on REAL hosts of the library
#
# The synthetic hosts above have the base `__attrs__` / `__str__` / `__repr__` (they list `__dict__` and `__cache__`).  The
# hosts of the library do not: a roll pass's `__attrs__` computes the contour lines (reads `gap`, the roll's contour, fills the
# memo `_contour_lines`), a sequence's lists its units, a unit's `__str__` reads the label.  Anything the ERROR PATH of a
# failing read evaluates on the instance (a message built with repr(), logging of the instance, diagnostics) therefore
# computes and REMEMBERS values on such hosts, or raises and replaces the documented error.  Here the failing read is made
# on an object of a real object graph (a two- / three-roll pass given by gap, by height, by the inscribed circle, by neither;
# its roll; its in / out profiles after init_solve / solve; a free-standing roll, profile, transport; a pass sequence and
# its units), whose class is replaced by a fresh subclass (`type()`) carrying two probe hooks, so that the failing
# implementations are registered on that subclass only.  Oracle, from the statement:
#   * the documented error kind (None -> AttributeError, non-finite -> ValueError, runaway recursion -> AttributeError, an
#     exception of an implementation -> that very exception);
#   * NOTHING is remembered: the snapshot of `__dict__` / `__cache__` (keys and values, memo attributes included) of every
#     object reachable from the root equals that of a twin graph, built from the same description, on which only the reads
#     nested in the failing implementation were made (they are reads of their own);
#   * no implementation of any hook of any reachable object is left marked as executing;
#   * after a legitimate edit (a value set / deleted, caches cleared, reevaluate_cache) the later reads give on the host what
#     they give on the twin.
# ---------------------------------------------------------------------------------------------------------
HOST_FAULTS = ["none", "nan", "inf", "ninf", "list-nan", "array-inf", "tuple-str-nan", "nested-list-inf", "f64-nan",
               "recursion", "raise:Other0", "raise:Other3", "raise:Other5", "raise:ValueError", "raise:AttributeError",
               "raise:RecursionError"]
GROOVES = {
    "oval": ("CircularOvalGroove", lambda s, u: dict(depth=8e-3 * s * u(0.8, 1.1), r1=6e-3 * s, r2=40e-3 * s * u(0.9, 1.2))),
    "round": ("RoundGroove", lambda s, u: dict(r1=1e-3 * s, r2=12.5e-3 * s * u(0.95, 1.1), depth=11.5e-3 * s)),
    "box": ("BoxGroove", lambda s, u: dict(r1=2e-3 * s, r2=4e-3 * s, depth=10e-3 * s * u(0.8, 1.1), usable_width=30e-3 * s,
                                            ground_width=24e-3 * s)),
    "diamond": ("DiamondGroove", lambda s, u: dict(r1=3e-3 * s, r2=5e-3 * s, usable_width=38e-3 * s * u(0.9, 1.1),
                                                    tip_depth=12e-3 * s)),
    "square": ("SquareGroove", lambda s, u: dict(r1=3e-3 * s, r2=4e-3 * s, usable_width=30e-3 * s * u(0.97, 1.03),
                                                  tip_depth=15e-3 * s)),
    "swedish": ("SwedishOvalGroove", lambda s, u: dict(r1=3e-3 * s, r2=6e-3 * s, depth=7e-3 * s, usable_width=36e-3 * s,
                                                        ground_width=20e-3 * s)),
    "three-round": ("RoundGroove", lambda s, u: dict(r1=3e-3 * s, r2=12.5e-3 * s * u(0.9, 1.1), depth=5e-3 * s, pad_angle=30)),
}


def _h_profile(pspec):
    from pyroll.core import Profile
    kind, kw = pspec
    base = dict(temperature=1200 + 273.15, strain=0, material=["C45", "steel"], flow_stress=100e6, density=7.5e3,
                specific_heat_capacity=690, length=1.0)
    return getattr(Profile, kind)(**dict(base, **kw))


def _h_unit(u):
    """one unit from its description {"unit": "two"|"three"|"transport", ...}"""
    import pyroll.core as pc
    k = u["unit"]
    if k in ("two", "three"):
        g = getattr(pc, u["groove"][0])(**u["groove"][1])
        roll = pc.Roll(groove=g, **u["roll"])
        cls = pc.RollPass if k == "two" else pc.ThreeRollPass
        return cls(label=u.get("label", ""), roll=roll, **u.get("given", {}))
    if k == "transport":
        return pc.Transport(label=u.get("label", ""), **u.get("given", {}))
    raise ValueError(u)


def build_host(spec):
    """the real object graph of a description (deterministic: the same description gives an equal graph)"""
    import pyroll.core as pc
    h = spec["host"]
    k = h["kind"]
    if k == "unit":
        root = _h_unit(h)
    elif k == "roll":
        root = pc.Roll(groove=getattr(pc, h["groove"][0])(**h["groove"][1]), **h["roll"])
    elif k == "profile":
        root = _h_profile(h["profile"])
    elif k == "sequence":
        root = pc.PassSequence([_h_unit(u) for u in h["units"]], label=h.get("label", ""))
    else:
        raise ValueError(h)
    if h.get("feed"):
        ip = _h_profile(h["feed"])
        if h.get("solve"):
            root.solve(ip)
        else:
            root.init_solve(ip)
    return root


def h_walk(root, path):
    obj = root
    for part in [p for p in path.split(".") if p]:
        obj = obj[int(part)] if part.isdigit() else getattr(obj, part)
    return obj


def _is_lib_object(v):
    from pyroll.core.hooks import HookHost
    return isinstance(v, HookHost) or (type(v).__module__ or "").startswith("pyroll.")


def h_nodes(root):
    """[(path, object)]: every object of the library reachable from root through `__dict__` / `__cache__` values, lists,
    tuples, dicts and weak references (first path found, breadth first)"""
    import weakref
    seen, out, todo = set(), [], [("", root)]
    while todo:
        path, obj = todo.pop(0)
        if id(obj) in seen:
            continue
        seen.add(id(obj))
        out.append((path, obj))

        def push(p, v, depth=0):
            if isinstance(v, weakref.ref):
                v = v()
            if v is None:
                return
            if _is_lib_object(v) and hasattr(v, "__dict__"):
                todo.append((p, v))
            if isinstance(v, (list, tuple)) and depth < 3:
                for n, x in enumerate(v):
                    push("%s.%d" % (p, n) if p else str(n), x, depth + 1)
            elif isinstance(v, dict) and depth < 3:
                for kk, x in v.items():
                    push("%s.%s" % (p, kk) if p else str(kk), x, depth + 1)
        for src in (getattr(obj, "__dict__", {}), getattr(obj, "__cache__", {}) if isinstance(getattr(obj, "__cache__", None), dict) else {}):
            for kk in sorted(src, key=str):
                if kk == "__cache__":
                    continue
                name = kk if kk != "_subunits" else "_subunits"
                push((path + "." + name) if path else name, src[kk])
    return out


def h_norm(v, depth=0):
    """a value as far as `later reads behave the same` can depend on it (library objects: by position in the graph only)"""
    import weakref
    import numpy as np
    if v is None or isinstance(v, (bool, int, str)):
        return v
    if isinstance(v, float):
        return ("f", v)
    if isinstance(v, np.generic):
        return h_norm(v.item(), depth)
    if isinstance(v, np.ndarray):
        if v.dtype.kind in "fiub":
            return ("arr", list(v.shape), [("f", float(x)) for x in v.ravel()[:400]])
        return ("arr", list(v.shape), str(v.dtype))
    if isinstance(v, weakref.ref):
        return ("weak", v() is not None)
    if hasattr(v, "geom_type") and hasattr(v, "wkb"):
        b = v.bounds if not v.is_empty else ()
        return ("geom", v.geom_type, ("f", float(v.area)), ("f", float(v.length)), [("f", float(x)) for x in b])
    if _is_lib_object(v):
        return ("ref",)
    if isinstance(v, (list, tuple)):
        return (type(v).__name__, [h_norm(x, depth + 1) for x in v] if depth < 4 else len(v))
    if isinstance(v, dict):
        return ("dict", sorted(((str(k), h_norm(x, depth + 1)) for k, x in v.items()), key=lambda p: p[0]) if depth < 4 else len(v))
    if isinstance(v, (set, frozenset)):
        return ("set", sorted(repr(x) for x in v))
    if callable(v):
        return ("callable", getattr(v, "__qualname__", type(v).__name__))
    return ("obj", type(v).__name__)


def h_same(a, b):
    """equal up to 1e-9 relative on floats (host and twin run the same computations; nan equals nan)"""
    if isinstance(a, tuple) and isinstance(b, tuple) and len(a) == 2 and a[0] == "f" and b[0] == "f":
        x, y = a[1], b[1]
        if math.isnan(x) or math.isnan(y):
            return math.isnan(x) and math.isnan(y)
        if math.isinf(x) or math.isinf(y):
            return x == y
        return abs(x - y) <= 1e-9 * max(abs(x), abs(y)) + 1e-15
    if isinstance(a, (tuple, list)) and isinstance(b, (tuple, list)):
        return len(a) == len(b) and all(h_same(x, y) for x, y in zip(a, b))
    return type(a) is type(b) and a == b


def h_snapshot(root):
    """{path: {"dict": {key: value}, "cache": {key: value}}} over the reachable object graph"""
    snap = {}
    for path, obj in h_nodes(root):
        d = {str(k): h_norm(v) for k, v in getattr(obj, "__dict__", {}).items() if k != "__cache__"}
        c = getattr(obj, "__cache__", None)
        snap[path] = {"dict": d, "cache": {str(k): h_norm(v) for k, v in c.items()} if isinstance(c, dict) else {}}
    return snap


def h_diff(sa, sb, limit=6):
    """differences host / twin as readable lines"""
    out = []
    for path in sorted(set(sa) | set(sb)):
        where = path or "<root>"
        if path not in sa or path not in sb:
            out.append("object %s is reachable only on the %s" % (where, "host" if path in sa else "twin"))
            continue
        for cont in ("dict", "cache"):
            a, b = sa[path][cont], sb[path][cont]
            name = "__dict__" if cont == "dict" else "__cache__"
            for k in sorted(set(a) | set(b)):
                if k not in b:
                    out.append("%s.%s[%r] exists only after the failed read (= %s)" % (where, name, k, str(a[k])[:70]))
                elif k not in a:
                    out.append("%s.%s[%r] is missing after the failed read" % (where, name, k))
                elif not h_same(a[k], b[k]):
                    out.append("%s.%s[%r] = %s after the failed read, %s without it" % (where, name, k, str(a[k])[:60], str(b[k])[:60]))
                if len(out) >= limit:
                    return out
    return out


_MARK_STORES = ["_first_wrappers", "_wrappers", "_last_wrappers", "_first_functions", "_functions", "_last_functions"]


def h_marks(root):
    """implementations (of any hook of any reachable object's class) that are marked as executing"""
    from pyroll.core.hooks import Hook, HookHost
    out, seen = [], set()
    for path, obj in h_nodes(root):
        if not isinstance(obj, HookHost):
            continue
        for c in type(obj).__mro__:
            if c in seen:
                continue
            seen.add(c)
            for name, hk in list(vars(c).items()):
                if not isinstance(hk, Hook):
                    continue
                for st in _MARK_STORES:
                    for hf in getattr(hk, st, ()) or ():
                        act = getattr(hf, "_active_instances", None)
                        if (act is not None and len(act) > 0) or (act is None and getattr(hf, "cycle", False)):
                            out.append("%s.%s: %s" % (c.__name__, name, getattr(getattr(hf, "function", None), "__qualname__", "?")))
    return out


def h_hooks(obj):
    from pyroll.core.hooks import Hook
    return sorted({n for c in type(obj).__mro__ for n, v in vars(c).items() if isinstance(v, Hook)})


def h_fault_value(kind):
    import numpy as np
    nan, inf = float("nan"), float("inf")
    return {"nan": lambda: nan, "inf": lambda: inf, "ninf": lambda: -inf, "list-nan": lambda: [1.0, nan],
            "array-inf": lambda: np.array([1.0, inf]), "tuple-str-nan": lambda: ("s", nan),
            "nested-list-inf": lambda: [[1.0, 2.0], [3.0, -inf]], "f64-nan": lambda: np.float64("nan")}[kind]()


class _FmtHandler:
    """a logging handler that formats every record (what a configured handler does)"""
    def __new__(cls):
        import logging

        class H(logging.Handler):
            def emit(self, record):
                record.getMessage()
        return H(level=logging.DEBUG)


class _HostTimeout(BaseException):
    pass


HOST_TIME_LIMIT = 40.0      # seconds for one case (a case takes ~30 ms; error paths that re-enter the failing read take for ever)


class _time_limit:
    """raise _HostTimeout in the main thread when the block runs longer than `seconds` (no-op elsewhere)"""

    def __init__(self, seconds):
        self.seconds, self.old, self.on = seconds, None, False

    def __enter__(self):
        import signal
        import threading
        if threading.current_thread() is threading.main_thread() and hasattr(signal, "setitimer"):
            def fire(signum, frame):
                raise _HostTimeout()
            self.old = signal.signal(signal.SIGALRM, fire)
            signal.setitimer(signal.ITIMER_REAL, self.seconds)
            self.on = True
        return self

    def __exit__(self, *exc):
        import signal
        if self.on:
            signal.setitimer(signal.ITIMER_REAL, 0)
            signal.signal(signal.SIGALRM, self.old)
        return False


def h_prepare(spec):
    """build the graph and give the target a fresh subclass with the probe hooks  -> (root, target, subclass)"""
    from pyroll.core.hooks import Hook
    root = build_host(spec)
    tgt = h_walk(root, spec["target"])
    base = type(tgt)
    sub = type("C07" + base.__name__, (base,), {"c07_probe": Hook[object](), "c07_probe2": Hook[object]()})
    tgt.__class__ = sub
    return root, tgt, sub


def h_arm(spec, root, tgt, sub):
    """register the failing implementation(s) of the designated read on the target's subclass; -> info with `withdraw`"""
    info = {"nested": [], "depth": 0, "raised": []}
    hook, fault = spec["hook"], spec["fault"]

    def c07_fault(self):
        if info["depth"] > 0:                       # re-entered through a nested read: fail at once
            return fail()
        info["depth"] += 1
        try:
            for (path, name) in spec.get("nested", []):
                try:
                    getattr(h_walk(root, path), name)
                    info["nested"].append([path, name, True])
                except Exception:
                    info["nested"].append([path, name, False])
        finally:
            info["depth"] -= 1
        return fail()

    def fail():
        if fault == "none":
            return None
        if fault == "recursion":
            return getattr(tgt, "c07_probe2")
        if fault.startswith("raise:"):
            e = exc_class(fault[6:])()
            info["raised"].append(e)
            raise e
        return h_fault_value(fault)
    hk = getattr(sub, hook)
    registered = [(hk, hk(c07_fault, tryfirst=True))]
    if fault == "recursion":
        def c07_back(self):
            return getattr(self, hook)
        registered.append((sub.c07_probe2, sub.c07_probe2(c07_back)))

    def withdraw():                                 # the failing implementations exist for the designated read only
        for h, hf in registered:
            h.remove_function(hf)
    info["withdraw"] = withdraw
    return info


def h_read(obj, name, via="read"):
    """-> ("val", normalised) | ("bool", b) | ("exc", type name, exception)"""
    try:
        if via == "has":
            return ("bool", bool(obj.has_value(name)))
        return ("val", h_norm(getattr(obj, name)))
    except RecursionError as e:
        return ("exc", "RecursionError", e)
    except BaseException as e:
        if isinstance(e, (KeyboardInterrupt, SystemExit, MemoryError, _HostTimeout)):
            raise
        return ("exc", type(e).__name__, e)


def h_apply_edit(root, edit):
    k = edit[0]
    try:
        if k == "set":
            setattr(h_walk(root, edit[1]), edit[2], edit[3])
        elif k == "del":
            delattr(h_walk(root, edit[1]), edit[2])
        elif k == "clear":
            h_walk(root, edit[1]).__cache__.clear()
        elif k == "reevaluate":
            h_walk(root, edit[1]).reevaluate_cache()
        return "ok"
    except Exception as e:
        return "exc " + type(e).__name__


def host_case(spec):
    """one failing read on a real host, judged against the statement.  -> (problems [(key, text)], info)"""
    try:
        with _time_limit(HOST_TIME_LIMIT):
            return _host_case(spec)
    except _HostTimeout:
        return [("host-read-does-not-return", "%s of %s on %s of a %s (fault: %s) and the reads around it did not finish within "
                 "%d s (such a case takes some 30 ms): the failure of a read is not reached" % (
                     spec.get("via", "read"), spec["hook"], spec["target"] or "<root>", host_label(spec), spec["fault"],
                     HOST_TIME_LIMIT))], {"failed": True, "timeout": True}


def _host_case(spec):
    import logging
    problems = []
    lg = logging.getLogger("pyroll")
    old_level, old_prop, handler = lg.level, lg.propagate, None
    if spec.get("log"):
        handler = _FmtHandler()
        lg.addHandler(handler)
        lg.setLevel(logging.DEBUG)
        lg.propagate = False
    try:
        root, tgt, sub = h_prepare(spec)
        twin, _, _ = h_prepare(spec)
        for (path, name) in spec.get("pre", []):
            h_read(h_walk(root, path), name)
            h_read(h_walk(twin, path), name)
        if h_diff(h_snapshot(root), h_snapshot(twin)):
            return [], {"discarded": "host and twin differ before the failing read"}
        hook, fault, via = spec["hook"], spec["fault"], spec.get("via", "read")
        avail = tgt.__dict__.get(hook, None) is not None or tgt.__cache__.get(hook, None) is not None
        natural = fault == "as-is"               # no failing implementation is registered: the host's own outcome
        info = {"nested": [], "raised": [], "withdraw": lambda: None} if natural else h_arm(spec, root, tgt, sub)
        out = h_read(tgt, hook, via)
        info["withdraw"]()
        nested_ok = [x for x in info["nested"] if x[2]]
        what = "%s of %s on %s %s of a %s (fault: %s%s)" % (
            "has_value" if via == "has" else "read", hook, type(tgt).__mro__[1].__name__, "<root>" if not spec["target"] else spec["target"],
            host_label(spec), fault, ", after %d successful nested reads" % len(nested_ok) if nested_ok else "")
        failed = out[0] == "exc" or out == ("bool", False)
        if natural:
            # whatever the library's own implementations do: a read never ends in RecursionError
            if out[0] == "exc" and out[1] == "RecursionError":
                problems.append(("host-recursion-error-escapes", "%s raised RecursionError" % what))
        elif not avail:
            # ---- the documented error kind
            if fault == "none" or fault == "recursion":
                want = "AttributeError"
                ok = (out[0] == "exc" and type(out[2]) is AttributeError) if via == "read" else \
                    (out == ("bool", False) or (fault == "recursion" and out[0] == "exc" and type(out[2]) is AttributeError))
            elif fault.startswith("raise:"):
                want = "the %s raised by the implementation" % fault[6:]
                if fault == "raise:RecursionError":
                    want = "AttributeError (RecursionError is converted)"
                    ok = (out[0] == "exc" and type(out[2]) is AttributeError) or (via == "has" and out == ("bool", False))
                elif via == "has" and fault == "raise:AttributeError":
                    ok = out == ("bool", False)
                else:
                    ok = out[0] == "exc" and bool(info["raised"]) and out[2] is info["raised"][-1]
            else:
                want = "ValueError"
                ok = out[0] == "exc" and type(out[2]) is ValueError
            if not ok:
                got = ("%s (%s)" % (out[1], str(out[2])[:90])) if out[0] == "exc" else repr(out[1])[:80]
                key = "host-documented-error-replaced" if out[0] == "exc" else ("host-has-value-hides-error" if out == ("bool", False) else "host-no-error")
                problems.append((key, "%s: expected %s, got %s" % (what, want, got)))
        # ---- nothing is remembered: compare with the twin on which only the reads nested in the failing implementation were
        # made, as reads of their own (nested reads are generated for the probe hooks only, which nothing else depends on)
        for (path, name, _) in info["nested"]:
            h_read(h_walk(twin, path), name)
        if failed and natural:
            m = h_marks(root)                   # (what the failed read computed on the way is not known: no twin)
            if m:
                problems.append(("host-marks-left", "%s failed; still marked as executing: %s" % (what, ", ".join(m[:4]))))
            return problems, {"failed": failed, "available": avail, "outcome": out[1] if out[0] != "val" else "value", "nested_ok": 0}
        if failed:
            d = h_diff(h_snapshot(root), h_snapshot(twin))
            if d:
                problems.append(("host-failed-read-remembered", "%s failed with %s and left behind: %s"
                                 % (what, out[1] if out[0] == "exc" else "False", " ; ".join(d))))
            m = h_marks(root)
            if m:
                problems.append(("host-marks-left", "%s failed; still marked as executing: %s" % (what, ", ".join(m[:4]))))
        # ---- a legitimate edit, then later reads: as on the twin
        if failed and spec.get("edit"):
            ea, eb = h_apply_edit(root, spec["edit"]), h_apply_edit(twin, spec["edit"])
            if ea != eb:
                problems.append(("host-twin-diverges", "%s failed; afterwards %s gives %s on the host, %s on the twin"
                                 % (what, spec["edit"][:3], ea, eb)))
        if failed:
            for (path, name) in spec.get("later", []):
                a, b = h_read(h_walk(root, path), name), h_read(h_walk(twin, path), name)
                if a[:2] != b[:2] and not (a[0] == b[0] == "val" and h_same(a[1], b[1])):
                    problems.append(("host-twin-diverges", "%s failed; after %s the read of %s%s gives %s, on the twin that never "
                                     "made the failing read %s" % (what, spec.get("edit", ["no edit"])[:4], (path + ".") if path else "",
                                                                    name, str(a[:2])[:90], str(b[:2])[:90])))
                    break
            else:
                d = h_diff(h_snapshot(root), h_snapshot(twin))
                if d and not any(k == "host-failed-read-remembered" for k, _ in problems):
                    problems.append(("host-twin-diverges", "%s failed; after the later reads the host differs from the twin: %s"
                                     % (what, " ; ".join(d))))
        return problems, {"failed": failed, "available": avail, "outcome": out[1] if out[0] != "val" else "value",
                          "nested_ok": len(nested_ok)}
    finally:
        if handler is not None:
            lg.removeHandler(handler)
        lg.setLevel(old_level)
        lg.propagate = old_prop


def host_label(spec):
    h = spec["host"]
    if h["kind"] == "unit":
        g = sorted(h.get("given", {}))
        s = "%s-roll pass given by %s" % (h["unit"], "+".join(g) or "neither gap nor height") if h["unit"] != "transport" else "transport"
    elif h["kind"] == "sequence":
        s = "sequence of %d units" % len(h["units"])
    else:
        s = h["kind"]
    if h.get("feed"):
        s += " (solved)" if h.get("solve") else " (init_solve)"
    return s


def _gen_pass(rng, three=None, given=None, label=None):
    import pyroll.core as pc
    s = rng.uniform(0.7, 1.4)
    u = rng.uniform
    three = rng.random() < 0.35 if three is None else three
    gk = "three-round" if three else rng.choice(["oval", "round", "box", "diamond", "square", "swedish"])
    groove = [GROOVES[gk][0], GROOVES[gk][1](s, u)]
    unit = {"unit": "three" if three else "two", "groove": groove,
            "roll": {"nominal_radius": 160e-3 * s, "rotational_frequency": rng.choice([1, 1, 2.5])},
            "label": rng.choice(["", "", "Oval I", "K 2"]) if label is None else label}
    g = 2e-3 * s * u(0.5, 1.5)
    given = given or rng.choice(["gap", "gap", "height", "height", "neither", "icd" if three else "both"])
    if given == "gap":
        unit["given"] = {"gap": g}
    elif given == "neither":
        unit["given"] = {}
    else:
        ref = _h_unit(dict(unit, given={"gap": g}))             # the height / inscribed circle that belongs to this gap
        if given == "height":
            unit["given"] = {"height": float(ref.height)}
        elif given == "icd":
            unit["given"] = {"inscribed_circle_diameter": float(ref.inscribed_circle_diameter)}
        else:
            unit["given"] = {"gap": g, "height": float(ref.height)}
    return unit


def _gen_feed(rng, size=None):
    k = rng.choice(["round", "square", "box", "diamond"])
    s = (size or 30e-3) * rng.uniform(0.85, 1.05)
    return [k, {"round": dict(diameter=s), "square": dict(side=s * 0.8, corner_radius=s * 0.05),
                "box": dict(height=s * 0.9, width=s * 0.8, corner_radius=s * 0.05),
                "diamond": dict(height=s * 0.8, width=s * 1.1, corner_radius=s * 0.05)}[k]]


EDIT_NAMES = ["gap", "height", "inscribed_circle_diameter", "nominal_radius", "duration", "temperature", "length",
              "rotational_frequency", "velocity", "flow_stress"]


def gen_host_case(rng, kind=None, fault=None):
    """a complete description: the host graph, the target object, the failing hook and fault, the reads made before,
    inside and after, the edit.  The hooks that can be read are found on a scout graph built from the same description."""
    from pyroll.core.hooks import HookHost
    kind = kind or rng.choice(["pass", "pass", "pass", "pass", "pass-fed", "pass-fed", "pass-solved", "roll", "profile",
                               "transport", "transport-fed", "sequence", "sequence", "sequence-solved"])
    if kind in ("pass", "pass-fed", "pass-solved"):
        host = dict(_gen_pass(rng, given=("gap" if kind == "pass-solved" else None)), kind="unit")
        if kind != "pass":
            host["feed"] = _gen_feed(rng)
            host["solve"] = kind == "pass-solved"
            if "gap" not in host["given"] and "height" not in host["given"] and "inscribed_circle_diameter" not in host["given"]:
                host.pop("feed")              # init_solve needs the geometry
                host.pop("solve")
    elif kind == "roll":
        u = _gen_pass(rng)
        host = {"kind": "roll", "groove": u["groove"], "roll": u["roll"]}
    elif kind == "profile":
        host = {"kind": "profile", "profile": _gen_feed(rng)}
    elif kind in ("transport", "transport-fed"):
        host = {"kind": "unit", "unit": "transport", "label": rng.choice(["", "T 1"]),
                "given": rng.choice([{"duration": rng.uniform(0.5, 3)}, {"length": rng.uniform(1, 5)}, {}])}
        if kind == "transport-fed":
            host["feed"] = _gen_feed(rng)
            host["solve"] = False
    else:
        units = [_gen_pass(rng, three=False, given=rng.choice(["gap", "height"]) if kind == "sequence" else "gap", label="R1"),
                 {"unit": "transport", "label": "T", "given": {"duration": rng.uniform(0.5, 2)}},
                 _gen_pass(rng, three=False, given=rng.choice(["gap", "height", "neither"]) if kind == "sequence" else "gap", label="")]
        if kind == "sequence-solved":
            units[2]["groove"] = [GROOVES["round"][0], GROOVES["round"][1](1.0, rng.uniform)]
            units[0]["groove"] = [GROOVES["oval"][0], GROOVES["oval"][1](1.0, rng.uniform)]
            units[0]["given"] = {"gap": 2e-3}
            units[2]["given"] = {"gap": 2e-3}
        host = {"kind": "sequence", "units": units, "label": rng.choice(["", "train"])}
        if kind == "sequence-solved":
            host["feed"] = ["round", dict(diameter=30e-3)]
            host["solve"] = True
    spec = {"host": host, "target": "", "hook": "c07_probe", "fault": "nan"}
    try:
        scout = build_host(spec)
    except Exception as e:
        return None, "build:" + type(e).__name__
    nodes = [(p, o) for (p, o) in h_nodes(scout) if isinstance(o, HookHost)]
    # paths that `h_walk` can follow (attribute names / indices): the weak references and `_subunits` are not
    paths = []
    for p, o in nodes:
        q = p.replace("_subunits.", "")
        try:
            if h_walk(scout, q) is o:
                paths.append((q, o))
        except Exception:
            pass
    good, floats, allh = [], [], []
    for q, o in paths:
        for n in h_hooks(o):
            allh.append([q, n])
            try:
                with _time_limit(HOST_TIME_LIMIT):
                    r = h_read(o, n)
            except _HostTimeout:                   # a plain read of a fresh host does not come back: that is the case
                spec.update(target=q, hook=n, fault="as-is", via="read", pre=[], nested=[], later=[], log=False)
                return spec, None
            if r[0] == "val":
                good.append([q, n])
                if isinstance(r[1], tuple) and r[1][:1] == ("f",) and math.isfinite(r[1][1]) and r[1][1] != 0:
                    floats.append([q, n, r[1][1]])
    tq, tobj = rng.choice(paths)
    spec["target"] = tq
    r = rng.random()
    if r < 0.45:
        spec["hook"] = "c07_probe"
    else:
        spec["hook"] = rng.choice(h_hooks(tobj))
    spec["fault"] = fault or rng.choice(HOST_FAULTS if spec["hook"] == "c07_probe" else [f for f in HOST_FAULTS if f != "none"])
    if fault is None and spec["hook"] != "c07_probe" and rng.random() < 0.2:
        spec["fault"] = "as-is"                                  # the hook as the library computes (or fails to compute) it
    spec["via"] = "has" if rng.random() < 0.15 else "read"
    pick = lambda xs, k: [list(x[:2]) for x in rng.sample(xs, min(k, len(xs)))]
    spec["pre"] = pick(good, rng.choice([0, 0, 0, 1, 2])) if rng.random() < 0.5 else []
    spec["nested"] = []
    if spec["hook"] == "c07_probe":                              # nothing else depends on the probe hooks
        spec["nested"] = pick(good, rng.choice([1, 2, 3])) if rng.random() < 0.6 else []
        if rng.random() < 0.15 and allh:
            spec["nested"].append(list(rng.choice(allh)))       # possibly a read that fails inside
    ed = [f for f in floats if f[1] in EDIT_NAMES] or floats
    r = rng.random()
    if ed and r < 0.7:
        q, n, v = rng.choice(ed)
        spec["edit"] = ["set", q, n, v * rng.choice([2.0, 1.1, 0.9, 1.5])]
    elif r < 0.8:
        spec["edit"] = ["clear", rng.choice(paths)[0]]
    elif r < 0.9:
        spec["edit"] = ["reevaluate", rng.choice(paths)[0]]
    elif good:
        q, n = rng.choice(good)
        spec["edit"] = ["del", q, n]
    spec["later"] = pick(good, 5) + pick(allh, 2)
    if spec.get("edit") and spec["edit"][0] == "set":
        spec["later"] = [spec["edit"][1:3]] + spec["later"]
    spec["log"] = rng.random() < 0.15
    return spec, None


def host_corpus():
    """always run: every kind of host x the main faults, on the root, with an edit of the defining value"""
    import random
    rng = random.Random(7)
    out = []
    for kind, edits in [("pass", None), ("pass-fed", None), ("roll", None), ("profile", None), ("transport", None),
                        ("sequence", None)]:
        for given in (["gap", "height", "neither", "icd"] if kind == "pass" else [None]):
            for fault in ["nan", "list-nan", "none", "recursion", "raise:Other3"]:
                for three in ([False, True] if kind == "pass" else [None]):
                    if given == "icd" and not three:
                        continue
                    if kind == "pass":
                        host = dict(_gen_pass(rng, three=three, given=given, label="Oval I"), kind="unit")
                        spec, why = _host_spec_for(rng, host, fault)
                    else:
                        spec, why = gen_host_case(rng, kind, fault)
                        if spec is not None:
                            spec.update(target="", hook="c07_probe", via="read", nested=[], pre=[], log=False)
                    if spec is not None:
                        out.append(spec)
    return out


def _host_spec_for(rng, host, fault):
    """the demo shape: failing probe on the root pass, then the defining value is changed and the geometry read"""
    spec = {"host": host, "target": "", "hook": "c07_probe" if fault in ("none", "recursion") else "roll_force", "fault": fault,
            "via": "read", "pre": [], "nested": [], "log": False}
    g = host["given"]
    if "height" in g:
        spec["edit"] = ["set", "", "height", g["height"] + 2e-3]
    elif "gap" in g:
        spec["edit"] = ["set", "", "gap", g["gap"] * 2]
    elif "inscribed_circle_diameter" in g:
        spec["edit"] = ["set", "", "inscribed_circle_diameter", g["inscribed_circle_diameter"] + 2e-3]
    else:
        spec["edit"] = ["set", "", "gap", 2e-3]
    spec["later"] = [["", "gap"], ["", "height"], ["", "usable_width"], ["roll", "contour_points"], ["", "usable_cross_section"]]
    return spec, None


def host_replay_obj(spec, probs):
    return {"stream": "hosts", "host": host_label(spec), "target": spec["target"] or "<root>", "hook": spec["hook"],
            "fault": spec["fault"], "via": spec.get("via", "read"), "problems": [p[1] for p in probs[:5]],
            "raw": {"stream": "hosts", "spec": spec},
            "how": "driver/props/c07.py: build_host(raw.spec) builds the real pyroll object graph (host: unit / roll / profile / "
                   "sequence description, feed = in-profile for init_solve / solve); the object at `target` gets a fresh "
                   "subclass with the hooks c07_probe / c07_probe2; a tryfirst implementation of `hook` makes the `nested` "
                   "reads and then fails as `fault` says; `pre` reads before, `edit` and `later` reads after, on the host "
                   "and on a twin graph that never makes the failing read; host_case(raw.spec) judges; "
                   "`./check C07 --replay <this file>` re-runs it"}


def shrink_host(spec, key):
    """drop the reads before / inside / after, the logging and the edit while a problem with this key persists"""
    import time
    t0 = time.time()

    def bad(s):
        if time.time() - t0 > 60:                    # slow cases (error paths that re-enter reads): keep what we have
            return False
        try:
            probs, _ = host_case(s)
        except Exception:
            return False
        return any(k == key for k, _ in probs)
    cur = json_copy(spec)
    for field in ("log", "pre", "nested"):
        s2 = json_copy(cur)
        s2[field] = False if field == "log" else []
        if bad(s2):
            cur = s2
    for field in ("pre", "nested", "later"):
        n = 0
        while n < len(cur.get(field, [])):
            s2 = json_copy(cur)
            del s2[field][n]
            if bad(s2):
                cur = s2
            else:
                n += 1
    if cur.get("edit"):
        s2 = json_copy(cur)
        s2.pop("edit")
        if bad(s2):
            cur = s2
    if cur.get("via") == "has":
        s2 = json_copy(cur)
        s2["via"] = "read"
        if bad(s2):
            cur = s2
    return cur


def json_copy(x):
    import json
    return json.loads(json.dumps(x))


def run_hosts(ctx):
    """the stream `hosts`"""
    import json
    rng = ctx.rng
    specs = [("hosts-corpus", s) for s in host_corpus()]
    n = ctx.budget(140, 1800)
    if getattr(ctx, "extended", False):
        n = min(n, 2500)
    for _ in range(n):
        spec, why = gen_host_case(rng)
        if spec is None:
            ctx.count("hosts-discarded:" + why)
            continue
        specs.append(("hosts", spec))
    seen_keys = set()
    for name, spec in specs:
        spec = json_copy(spec)                       # what is judged is what a replay file can hold
        try:
            probs, info = host_case(spec)
        except RecursionError:
            ctx.count("hosts-discarded:harness-recursion")
            continue
        if info.get("discarded"):
            ctx.count("hosts-discarded:" + info["discarded"])
            continue
        ctx.case(["hosts", json.dumps(spec, sort_keys=True)], nontrivial=bool(info.get("failed")))
        ctx.count("stream:" + name)
        ctx.count("host:" + host_label(spec))
        ctx.count("host-fault:" + spec["fault"].split(":")[0] + ("(value available)" if info.get("available") else ""))
        ctx.count("host-target:" + (spec["target"] or "<root>").replace("0", "N").replace("1", "N").replace("2", "N"))
        if info.get("nested_ok"):
            ctx.count("host-failed-after-successful-nested-reads")
        if spec.get("log"):
            ctx.count("host-with-debug-logging")
        done = set()
        for (key, text) in probs:
            if key in done or key in seen_keys:
                continue
            done.add(key)
            seen_keys.add(key)
            if info.get("timeout"):                  # every re-run costs the time limit again: no shrinking
                ctx.violation(key, text, host_replay_obj(spec, [(key, text)]))
                continue
            s2 = shrink_host(spec, key)
            p2, _ = host_case(s2)
            mine = [p for p in p2 if p[0] == key] or [(key, text)]
            ctx.violation(key, mine[0][1], host_replay_obj(s2, mine))
        if info.get("timeout"):
            ctx.count("hosts-stream-stopped-after-timeout")
            break


# ---------------------------------------------------------------------------------------------------------
# run
# ---------------------------------------------------------------------------------------------------------
def body_targets(b, acc):
    k = b[0]
    if k == "read":
        acc.add(b[2])
        body_targets(b[3], acc)
    elif k == "cyc":
        body_targets(b[1], acc)
        body_targets(b[2], acc)
    elif k == "has":
        acc.add(b[2])
        body_targets(b[3], acc)
        body_targets(b[4], acc)
    return acc


def risky(prog):
    """`has_value` guards + a cyclic hook dependency: the evaluation may take exponentially long (a guard that fails
    at the recursion limit is followed by another descent).  The harness' step budget discards such cases on the
    implementation side; the model has no budget, so these programs go to a separate model process with a timeout."""
    if not any(body_uses(b, "has") for (_, _, b, _, _) in prog["fns"]):
        return False
    g = {}
    for (_, h, b, _, _) in prog["fns"]:
        g.setdefault(h, set()).update(body_targets(b, set()))
    seen = {}

    def cyc(h):
        if seen.get(h) == 1:
            return True
        if seen.get(h) == 2:
            return False
        seen[h] = 1
        r = any(cyc(x) for x in g.get(h, ()))
        seen[h] = 2
        return r
    return any(cyc(h) for h in list(g))


def model_with_timeout(lines, timeout):
    """own model process (killed with its whole process group on timeout) -> output lines or None"""
    import os
    import signal
    import subprocess
    import tempfile
    from driver import core
    with tempfile.NamedTemporaryFile("w", suffix=".ops", delete=False) as f:
        f.write("\n".join(lines) + "\n")
        tmp = f.name
    try:
        with open(tmp) as fin:
            p = subprocess.Popen(["lake", "env", "lean", "--run", "Drivers/%s.lean" % MODEL], cwd=core.LEAN_DIR, stdin=fin,
                                 stdout=subprocess.PIPE, stderr=subprocess.PIPE, text=True, start_new_session=True)
            try:
                out, err = p.communicate(timeout=timeout)
            except subprocess.TimeoutExpired:
                os.killpg(p.pid, signal.SIGKILL)
                p.communicate()
                return None
    finally:
        os.unlink(tmp)
    if p.returncode != 0:
        raise core.InfraError("model driver failed rc=%s: %s" % (p.returncode, err[:2000]))
    return out.splitlines()


def case_lines(prog, ops, world):
    lines = ["reset", "fuel %d" % FUEL] + prog_lines(prog, world)
    for op in ops:
        lines.append(optok(op))
        lines.append("obs")
    lines.append("flags")
    return lines


def replay_obj(name, prog, ops, faults, probs):
    w = World(prog)
    return {"program": {"hooks": prog["hooks"], "instances": prog["insts"],
                        "implementations": ["fn %d q%d%s%s: %s" % (f, h, " (cycle)" if tc else "", " try" + t if t else "", btok(b))
                                            for (f, h, b, tc, t) in prog["fns"]],
                        "wrappers": [[f, h, [None if pre is None else btok(pre), btok(post)], t]
                                     for (f, h, (pre, post), t) in prog.get("wrappers", [])],
                        "chain_order": ["fn %d q%d" % fh for fh in w.chain_order()]},
            "ops": [optok(o) for o in ops], "designated_faults": faults, "problems": [p[1] for p in probs[:5]],
            "raw": {"prog": prog, "ops": ops, "faults": faults, "stream": name},
            "how": "driver/props/c07.py: World(raw.prog) builds the HookHost subclass and registers the implementations "
                   "(bodies: ret value | acc c | raise E | read ref hook ; rest | cyc a b | has ref hook a b); apply raw.ops with "
                   "World.apply; `./check C07 --replay <this file>` re-runs the oracle"}


def shrink(prog, ops, faults, key):
    """greedy: drop operations, then implementations, while a problem with the same key persists"""
    def bad(p, o, fl):
        try:
            r, probs, _ = oracle_case(p, o, fl)
        except Exception:
            return False
        return any(k == key for (k, _) in probs)
    changed = True
    rounds = 0
    while changed and rounds < 40:
        changed = False
        rounds += 1
        for n in range(len(ops) - 1, -1, -1):
            o2 = ops[:n] + ops[n + 1:]
            f2 = [p - 1 if p > n else p for p in faults if p != n]
            if o2 and bad(prog, o2, f2):
                ops, faults, changed = o2, f2, True
                break
        if changed:
            continue
        for n in range(len(prog["fns"])):
            p2 = dict(prog)
            p2["fns"] = prog["fns"][:n] + prog["fns"][n + 1:]
            if bad(p2, ops, faults):
                prog, changed = p2, True
                break
    return prog, ops, faults


def run(ctx):
    import logging
    logging.getLogger("pyroll").setLevel(logging.ERROR)
    rng = ctx.rng
    n = ctx.budget(900, 12000)
    cases = [(name, prog, ops, faults) for (name, prog, ops, faults) in CORPUS]
    for k in range(n):
        r = rng.random()
        if r < 0.50:
            style = "nested"
        elif r < 0.70:
            style = "values"
        elif r < 0.77:
            style = "runaway"
        elif r < 0.87:
            prog, ops, faults = gen_exotic(rng)
            cases.append(("exotic", prog, ops, faults))
            continue
        else:
            prog, ops, faults = gen_wrappers(rng)
            cases.append(("wrappers", prog, ops, faults))
            continue
        if style == "nested" and rng.random() < 0.25:
            style = "deep"
            prog = gen_deep(rng)
        else:
            prog = gen_prog(rng, style)
        ops, faults = gen_ops(rng, prog, rng.randrange(2, 9), 2 if style == "runaway" else None)
        cases.append((style, prog, ops, faults))

    lean_lines, pending = [], []
    seen_keys = set()
    for (name, prog, ops, faults) in cases:
        stream = name if name in ("nested", "deep", "values", "runaway", "exotic", "wrappers") else "corpus"
        resA, probs, info = oracle_case(prog, ops, faults)
        if resA is None:
            ctx.count("discarded:step-budget")
            continue
        w = resA["world"]
        canon = [btok(b) + "|" + str(h) + t for (f, h, b, tc, t) in prog["fns"]] + [str(prog.get("wrappers", ""))] \
            + [optok(o) for o in ops] + [prog["insts"]]
        n_failed = sum(1 for nd in resA["nodes"] if nd is not None and nd.ok is False)
        ctx.case(canon, nontrivial=(n_failed > 0 or w.nested_calls > 0))
        ctx.count("stream:" + stream)
        ctx.count("twin:" + info["twin"])
        ctx.count("nesting-depth:" + (str(w.maxdepth) if w.maxdepth <= 6 else "7-60" if w.maxdepth <= HIT_DEPTH else "runaway"))
        if w.saw_cycle:
            ctx.count("cycle-branch-taken")
        if w.reentered and not w.hit:
            ctx.count("re-entrant-read(no runaway)")
        for out in resA["outs"]:
            if out.startswith("exc "):
                ctx.count("outcome:" + out[4:])
            elif out.startswith("val "):
                ctx.count("outcome:value")
        for nd in (_all_nodes(resA) if not w.hit else []):
            if nd.ok is False and nd.depth > 0:
                ctx.count("failed-at-depth:" + (str(nd.depth) if nd.depth <= 6 else "7+"))
        if len(ctx.samples) < 3 and stream in ("nested", "deep") and n_failed and w.nested_calls:
            ctx.sample({"implementations": prog_lines(prog, w), "history": [optok(o) for o in ops], "outcomes": resA["outs"]})
        if probs:
            done = set()
            for (key, text) in probs:
                if key in done:
                    continue
                done.add(key)
                if key in seen_keys:
                    ctx.violation(key, text, replay_obj(name, prog, ops, faults, [(key, text)]))
                    continue
                seen_keys.add(key)
                p2, o2, f2 = shrink(prog, ops, faults, key)
                _, probs2, _ = oracle_case(p2, o2, f2)
                mine = [p for p in probs2 if p[0] == key] or [(key, text)]
                ctx.violation(key, mine[0][1], replay_obj(name, p2, o2, f2, mine))
        if stream in ("exotic", "wrappers") or any(body_exotic(b) for (_, _, b, _, _) in prog["fns"]):
            continue
        pending.append((name, prog, ops, faults, resA))

    run_hosts(ctx)

    if not getattr(ctx, "model_available", True) or not pending:
        return
    safe = [c for c in pending if not risky(c[1])]
    risk = [c for c in pending if risky(c[1])]
    ctx.count("model-batch:plain", len(safe))
    ctx.count("model-batch:guarded-cyclic", len(risk))
    if safe:
        out = ctx.lean_model(MODEL, [l for c in safe for l in case_lines(c[1], c[2], c[4]["world"])])
        compare_model(ctx, safe, out)
    if risk:
        out = model_with_timeout([l for c in risk for l in case_lines(c[1], c[2], c[4]["world"])],
                                 120 if ctx.tier == "quick" else 900)
        if out is None:
            ctx.disagreement("the model did not finish the guarded-recursion batch in time although the implementation "
                             "stayed within the step budget on every case of it (the implementation evaluates these "
                             "programs differently from the model)", {"cases": len(risk)})
        else:
            compare_model(ctx, risk, out)


def compare_model(ctx, pending, out):
    pos = 0
    for (name, prog, ops, faults, resA) in pending:
        w = resA["world"]
        nf = len(prog["fns"])
        head = out[pos:pos + 2 + nf]
        pos += 2 + nf
        bad = None
        if any(x != "ok" for x in head):
            bad = ("model rejected the program lines", {"lines": case_lines(prog, ops, w)[:2 + nf], "model": head})
        has_guard = any(body_uses(b, "has") for (_, _, b, _, _) in prog["fns"])
        m_outs, m_dumps = [], []
        for k in range(len(ops)):
            m_outs.append(out[pos])
            m_dumps.append(out[pos + 1])
            pos += 2
        flags = out[pos].split()
        pos += 1
        m_hit, m_cyc = flags[0] == "true", flags[1] == "true"
        if bad is None and m_hit != w.hit:
            bad = ("recursion limit: model hitLimit=%s, implementation ran away=%s (max nesting %d)" % (m_hit, w.hit, w.maxdepth), {})
        loose = (m_hit or w.hit) and has_guard
        if bad is None and not loose:
            for k in range(len(ops)):
                if m_outs[k] != resA["outs"][k] or m_dumps[k] != resA["dumps"][k]:
                    bad = ("model and implementation differ after op #%d (%s)" % (k, optok(ops[k])),
                           {"impl": [resA["outs"][k], resA["dumps"][k]], "model": [m_outs[k], m_dumps[k]]})
                    break
            if bad is None and m_cyc != w.saw_cycle:
                bad = ("model sawCycle=%s, harness saw a cycle branch=%s" % (m_cyc, w.saw_cycle), {})
            if bad is None and (flags[2] == "true") != w.reentered:
                bad = ("model reentered=%s, harness saw a re-entrant read=%s" % (flags[2], w.reentered), {})
        elif bad is None:
            ctx.count("compared-loosely:guarded-runaway")
            for k in range(len(ops)):
                if ("RecursionError" in resA["outs"][k]) != ("RecursionError" in m_outs[k]):
                    bad = ("guarded runaway: RecursionError escapes on one side at op #%d" % k,
                           {"impl": resA["outs"][k], "model": m_outs[k]})
                    break
        if bad is None:
            ctx.validated()
        else:
            ctx.disagreement(bad[0], dict(bad[1], **replay_obj(name, prog, ops, faults, [])))
    if pos != len(out):
        ctx.disagreement("model output length mismatch", {"expected": pos, "got": len(out)})


def _all_nodes(resA):
    todo = [nd for nd in resA["nodes"] if nd is not None]
    while todo:
        nd = todo.pop()
        yield nd
        todo.extend(World.children(nd))


def _untuple(x):
    """json turns tuples into lists: rebuild the tuple forms of programs and operations"""
    if isinstance(x, list):
        return tuple(_untuple(y) for y in x)
    return x


def _fix_val(v):
    v = tuple(v)
    if v[0] in ("L", "U"):
        return (v[0], [_fix_val(x) for x in v[1]])
    if v[0] == "A":
        return ("A", list(v[1]))
    return v


def _fix_body(b):
    b = tuple(b)
    k = b[0]
    if k == "ret":
        return ("ret", _fix_val(b[1]))
    if k == "read":
        return ("read", b[1], b[2], _fix_body(b[3]))
    if k == "cyc":
        return ("cyc", _fix_body(b[1]), _fix_body(b[2]))
    if k == "has":
        return ("has", b[1], b[2], _fix_body(b[3]), _fix_body(b[4]))
    return b


def replay(ctx, data):
    raw = data.get("replay", data)["raw"]
    if raw.get("stream") == "hosts":
        probs, info = host_case(raw["spec"])
        for (key, text) in probs:
            ctx.violation(key, text, data.get("replay", data))
        print("replay (hosts):", host_label(raw["spec"]), raw["spec"]["target"] or "<root>", raw["spec"]["hook"], raw["spec"]["fault"],
              "->", info, "problems:", probs)
        return
    prog = {"hooks": raw["prog"]["hooks"], "insts": raw["prog"]["insts"],
            "fns": [(f, h, _fix_body(b), tc, t) for (f, h, b, tc, t) in raw["prog"]["fns"]]}
    if raw["prog"].get("wrappers"):
        prog["wrappers"] = [(f, h, (None if wb[0] is None else _fix_body(wb[0]), _fix_body(wb[1])), t)
                            for (f, h, wb, t) in raw["prog"]["wrappers"]]
    ops = []
    for o in raw["ops"]:
        o = tuple(o)
        ops.append(("set", o[1], o[2], _fix_val(o[3])) if o[0] == "set" else o)
    resA, probs, info = oracle_case(prog, ops, list(raw["faults"]))
    for (key, text) in probs:
        ctx.violation(key, text, data.get("replay", data))
    print("replay:", [optok(o) for o in ops], "->", None if resA is None else resA["outs"], "problems:", probs)
