"""C20 - configuration values resolve as explicit value, else environment, else default; parsing; bulk update.

Tie: T (`driver/translate/c20_config.py` re-reads `pyroll/core/config.py` with `ast` on every run and writes the decisions
the property depends on - branch order of `ConfigValue.parse`, normalisations and literals of the bool tests, the
`try/except` chain of the enum branch, separators / `strip` calls of the mapping and iterable branches, the order of the
sources in `__get__`, the `env_var` format, whether `ConfigMeta.update` raises - to `lean/PyrollModel/Gen/C20.lean`; the
model `lean/PyrollModel/Config.lean` is an interpreter of that description and the theorems of `lean/PyrollProps/C20.lean`
are about the interpreter applied to the generated description)
+ K (this harness: histories of assign / delete / setenv / unsetenv / update on real config classes - the core `Config`,
`@config` classes and hand-written `ConfigMeta` metaclasses with custom parsers and overridden env names - under a
controlled `os.environ`, every declared value read after every operation and compared with the model; direct
`ConfigValue.parse` calls compared with the model's parser).
The independent oracle keeps its own shadow of "what was assigned / what is in the environment" and judges every read from
the property text.  WHICH attributes of a decorated class (and of the core `Config`, whose body is read from the source text)
must be configuration values is decided by the oracle from the names (`str.isupper()`, no leading underscore) - never from
what the implementation created: a declared name that silently stays a plain attribute, a class that cannot be created, a
descriptor that lacks `env_var` are oracle findings / differences to the model, not harness errors.
"""
import ast
import collections
import collections.abc
import enum
import json
import math
import os
import pathlib
import traceback
import typing

from .. import core
from ..translate import c20_config

ID = "C20"
LEAN_MODULES = ["PyrollProps.C20"]
MODEL = "c20"
MODEL_MODULES = ["PyrollModel.ConfigDriver"]
RULE = ("(a) histories: 1-3 config classes (the core Config with the names of its class body as read from the source, @config "
        "classes, hand-written ConfigMeta metaclasses; value names of every shape str.isupper() accepts - single letters, digits, "
        "inner/trailing/double underscores, non-ASCII capitals - next to attributes that must stay plain - leading underscore, "
        "lower/mixed case, uncased letters; values of "
        "every supported type AND of types related to them by subclassing - enum classes mixing in str / int ((str, Enum), StrEnum, "
        "(int, Enum), IntEnum, IntFlag), bool next to int, user-defined subclasses (also of subclasses) of str / int / float / "
        "PosixPath / list / tuple / dict, OrderedDict, NamedTuples - custom parsers, env_var overrides, shared prefixes) x 4-24 operations "
        "(assign incl. falsy/None/foreign values, delete incl. of unset values, setenv with rendered values in letter-case / "
        "blank variants, known-unparseable and random texts, unsetenv, bulk update incl. unknown names, C.update(C.to_dict())); "
        "every declared value is read after every operation, to_dict() after class creation and the return value of every update "
        "are compared. non-trivial = at least one environment change AND one explicit change; distinct by the "
        "canonical case. (b) direct parse calls: per type rendered values with decorations, malformed and random texts. "
        "(c) str(int) / ','.join / str.isupper (every code point below 256, random Latin-1 names) against the model's functions; "
        "the model's type lattice (which dispatch classes a type is / is a subclass of) against CPython's issubclass for every "
        "type the generators use.")
ASSUMPTIONS = [
    "CPython int()/float()/Path()/str.strip/str.lower/str.upper/os.getenv/enum lookup are parameters: the model covers ASCII "
    "case mapping and the white space of the Latin-1 range; float and Path text forms are symbolic in the model "
    "(float(repr(x)) == x and Path(str(p)) == p are CPython guarantees)",
    "the empty text is outside the inversion statement for collections (''.split(',') == [''], and '' is no k=v mapping)",
    "an explicitly assigned None counts as 'not set' (the implementation's sentinel); the oracle does not judge it",
    "attribute names: the model's str.isupper covers the cased characters below code point 256 (table compared with CPython on "
    "every run) and treats everything above as uncased; the generators use Latin-1 letters and uncased CJK letters only",
    "for an IntFlag default `E(n)` with a number that is no member's value is CPython's own (combination of flags): symbolic in "
    "the model, evaluated by the harness; a NamedTuple default has no text form in the statement: the fields as comma-separated "
    "list are accepted, not demanded (the implementation raises TypeError); str(<generator>) holds an address: one token",
    "ConfigMeta.to_dict returns the descriptors (not the resolved values): modelled as the source has it; the oracle judges the "
    "NAMES it lists (exactly the configuration values), not which of the two readings the objects under them have",
    "lower-case value names (possible only on hand-written metaclasses) use the upper-cased name in the environment variable; "
    "without a prefix the variable name is not judged by the oracle (the model mirrors the module-derived prefix)",
]
TRUSTED_EXTRA = ["translator driver/translate/c20_config.py (whitelisted AST shapes of config.py -> Gen/C20.lean)"]

FREE = object()          # oracle: no expectation
MISSING = object()


class ImplBroken(Exception):
    """The implementation under test lacks / refuses something every config class needs (the module has no `config`, creating a
    class or a ConfigValue raises …).  Reported as an oracle finding with the case as replay - never a harness crash."""

    def __init__(self, key, what):
        super().__init__(what)
        self.key, self.what = key, what


def cfgmod():
    import sys
    import pyroll.core  # noqa
    return sys.modules["pyroll.core.config"]


def api(name):
    try:
        return getattr(cfgmod(), name)
    except AttributeError:
        raise ImplBroken("api-missing", f"pyroll.core.config has no attribute {name!r}")


def impl_call(what, f, *a, **kw):
    """call into the implementation where the property leaves no room for an exception"""
    try:
        return f(*a, **kw)
    except ImplBroken:
        raise
    except Exception as e:
        raise ImplBroken("config-class-creation-raised", f"{what} raised {type(e).__name__}: {e}")


def desc_of(cls, name):
    """the ConfigValue descriptor of `name` on the metaclass of `cls`, None when the implementation created none"""
    d = vars(type(cls)).get(name, None)
    return d if isinstance(d, api("ConfigValue")) else None


def should_be_config(name):
    """the property text / the decorator's contract: the upper-case public names (python's own str.isupper is the reference)"""
    return name.isupper() and not name.startswith("_")


# ---------------------------------------------------------------------------------------------------------------------
# (T)
# ---------------------------------------------------------------------------------------------------------------------
def translate(ctx):
    try:
        data, changed = c20_config.emit(core.REPO, core.LEAN_DIR)
        ctx.notes["translated"] = {k: v for k, v in data.items() if k in ("parseTests", "getOrder", "enumLookups",
                                                                           "updateRaises", "envNameNorm", "initStores")}
        ctx.notes["gen_changed"] = changed
    except c20_config.Gap as e:
        ctx.tie_breaks.append(f"config.py left the translatable subset: {e}")


# ---------------------------------------------------------------------------------------------------------------------
# tokens (line protocol of lean/PyrollModel/ConfigDriver.lean)
# ---------------------------------------------------------------------------------------------------------------------
def enc_text(s):
    return "e" if s == "" else ".".join(str(ord(c)) for c in s)


def dec_text(t):
    return "" if t == "e" else "".join(chr(int(x)) for x in t.split("."))


def _always_raise(s):
    raise ValueError("custom parser rejects " + s)


# the custom parsers (same table as `Config.parsers` in ConfigDriver.lean)
PARSERS = [int, lambda s: s.strip().upper(), _always_raise, len, lambda s: None, lambda s: s.split(";")]
CTORS = [float, type(None)]     # `other<k>`: types whose constructor the model leaves symbolic

# enum shapes: (class name, base, [(name, value)]) ; "real" = pyroll's own PlottingBackend.  The bases cover the data types an
# enum class can mix in: none (Enum), int (IntEnum, class E(int, Enum)), str (class E(str, Enum), StrEnum), IntFlag.
ENUMS = [
    ("PB", "real", None),
    ("Mixed", "Enum", [("Lower", 1), ("UPPER", 2), ("Mixed_Case", 3), ("lower", 4)]),
    ("Neg", "IntEnum", [("ZERO", 0), ("MINUS", -1), ("BIG", 1000)]),
    ("Alias", "Enum", [("A", 1), ("B", 2), ("ALIAS_OF_A", 1)]),
    ("Shadow", "Enum", [("A", 1), ("a", 2), ("Ab", 3)]),
    ("Up", "Enum", [("ON", 1), ("OFF", 2), ("AUTO_MODE", 3)]),
    ("Kind", "StrMix", [("FAST", "fast"), ("SLOW", "slow"), ("Very_Slow", "very-slow"), ("x9", "X9"), ("TEN", "10")]),
    ("Stage", "StrEnum", [("ROUGH", None), ("FINE", None), ("Final_Pass", None)]),
    ("Prio", "IntMix", [("LOW", 1), ("HIGH", 2), ("Mid", 5)]),
    ("Perm", "IntFlag", [("R", 4), ("W", 2), ("X", 1), ("RW", 6)]),
]
MIX = {"real": "P", "Enum": "P", "IntEnum": "I", "IntMix": "I", "StrMix": "S", "StrEnum": "S", "IntFlag": None}
_ENUM_CACHE = {}


def enum_mix(i):
    """the model's name of what enum class #i mixes in: P(lain) / I(nt) / S(tr) / F<i> (IntFlag)"""
    return MIX[ENUMS[i][1]] or f"F{i}"


def make_enum(i):
    name, base, members = ENUMS[i]
    if base == "real":
        pb = getattr(cfgmod(), "PlottingBackend", None)
        if isinstance(pb, type) and issubclass(pb, enum.Enum) and all(isinstance(m.value, int) for m in pb):
            return pb
        if i not in _ENUM_CACHE:        # the shape documented for the core
            _ENUM_CACHE[i] = enum.Enum("PlottingBackend", [("PLOTLY", 1), ("MATPLOTLIB", 2)])
        return _ENUM_CACHE[i]
    if i not in _ENUM_CACHE:            # one class per shape and process: members of different worlds stay comparable
        if base == "StrMix":
            cls = enum.Enum(name, members, type=str)                       # class Kind(str, Enum)
        elif base == "StrEnum":
            cls = enum.StrEnum(name, [(n, enum.auto()) for n, _ in members])
        elif base == "IntMix":
            cls = enum.Enum(name, members, type=int)                       # class Prio(int, Enum)
        elif base == "IntFlag":
            cls = enum.IntFlag(name, members)
        else:
            cls = (enum.IntEnum if base == "IntEnum" else enum.Enum)(name, members)
        _ENUM_CACHE[i] = cls
    return _ENUM_CACHE[i]


def member_id(m):
    """the integer the model (and the tokens) identify a member by: its value, or a serial number when the values are texts"""
    if isinstance(m.value, int):
        return int(m.value)
    return 1 + list(type(m)).index(m)


def member_of_id(ecls, k):
    if all(isinstance(m.value, int) for m in ecls):
        return ecls(k)
    return list(ecls)[k - 1]


def enum_members(ecls):
    """(name, id) of `__members__` (aliases included)"""
    return [(n, member_id(m)) for n, m in ecls.__members__.items()]


# ---------------------------------------------------------------------------------------------------------------------
# user-defined classes deriving from the built-in value types (index = the model's class number in `sub<k>` / `U<k>:`)
# ---------------------------------------------------------------------------------------------------------------------
class VStr(str):
    pass


class VInt(int):
    pass


class VFloat(float):
    pass


class VList(list):
    pass


class VTuple(tuple):
    pass


class VDict(dict):
    pass


class VPath(type(pathlib.Path())):
    pass


class VList2(VList):
    pass


class VStr2(VStr):
    pass


Pair = collections.namedtuple("Pair", "first second")


class Triple(typing.NamedTuple):
    x: str
    y: str
    z: str


# (class, kind of the built-in root, index of the parent class in this table | None, number of fields of a NamedTuple | None)
SUBS = [(VStr, "str", None, None), (VInt, "int", None, None), (VFloat, "float", None, None), (VList, "list", None, None),
        (VTuple, "tuple", None, None), (VDict, "dict", None, None), (VPath, "path", None, None), (VList2, "list", 3, None),
        (collections.OrderedDict, "dict", None, None), (Pair, "ntuple", None, 2), (Triple, "ntuple", None, 3),
        (VStr2, "str", 0, None)]
SUB_INDEX = {c: k for k, (c, _, _, _) in enumerate(SUBS)}
SUBS_OF_KIND = {}
for _k, (_c, _kind, _, _) in enumerate(SUBS):
    SUBS_OF_KIND.setdefault(_kind, []).append(_k)
GARBAGE = "<generator object"           # `str(<generator>)`: a text holding an address - canonical token `G`


def sub_base_value(v):
    """the built-in value inside an instance of one of the classes above"""
    _, kind, _, _ = SUBS[SUB_INDEX[type(v)]]
    return {"str": str, "int": int, "float": float, "list": list, "tuple": tuple, "dict": dict, "ntuple": tuple,
            "path": lambda p: pathlib.Path(str(p))}[kind](v)


def sub_make(k, base):
    """an instance of class #k from the built-in value"""
    cls, kind, _, arity = SUBS[k]
    return cls(*base) if kind == "ntuple" else cls(base)


class World:
    """python objects of one execution of a case: enum classes, the pool of opaque objects, the config classes built"""

    def __init__(self, case):
        self.enums = {i: make_enum(i) for i in sorted({v["enum"] for c in case["classes"] for v in c["values"]
                                                      if v.get("enum") is not None} | set(case.get("enums", [])))}
        self.pool = [mk_obj(d) for d in case["pool"]]
        self.classes = []           # [(class, defaults)] - filled by exec_case (descriptor tokens `C<class>:<name>`)

    def value(self, tok, enum_idx=None):
        """token -> python value (explicit values / defaults)"""
        k, r = tok[0], tok[1:]
        if k == "U":
            sub, base = r.split(":", 1)
            return sub_make(int(sub), self.value(base))
        if k == "C":
            ci, n = r.split(":")
            d = desc_of(self.classes[int(ci)][0], dec_text(n))
            if d is None:
                raise ImplBroken("declared-name-not-config-value", f"class {ci} has no descriptor {dec_text(n)!r}")
            return d
        if k == "N":
            return None
        if k == "B":
            return r == "1"
        if k == "I":
            return int(r)
        if k == "S":
            return dec_text(r)
        if k == "P":
            return pathlib.Path(dec_text(r))
        if k == "E":
            e, v = r.split("#")
            return member_of_id(self.enums[int(e)], int(v))
        if k == "L":
            return [dec_text(x) for x in r.split(",")] if r else []
        if k == "T":
            return tuple(dec_text(x) for x in r.split(",")) if r else ()
        if k == "D":
            return dict((dec_text(a), dec_text(b)) for a, b in (p.split(":") for p in r.split(","))) if r else {}
        if k == "O":
            return self.pool[int(r)]
        raise ValueError(tok)

    def token(self, v):
        """python value -> canonical token (type strict)"""
        if v is None:
            return "N"
        if type(v) in SUB_INDEX:
            return f"U{SUB_INDEX[type(v)]}:" + self.token(sub_base_value(v))
        if isinstance(v, enum.Enum):
            return f"E{member_id(v)}"
        if isinstance(v, bool):
            return "B1" if v else "B0"
        if type(v) is int:
            return f"I{v}"
        if type(v) is float:
            return "F" + repr(v)
        if type(v) is str:
            return "G" if v.startswith(GARBAGE) else "S" + enc_text(v)
        if type(v) is type(pathlib.Path()):
            return "P" + enc_text(str(v))
        if type(v) is list and all(type(x) is str for x in v):
            return "L" + ",".join(enc_text(x) for x in v)
        if type(v) is tuple and all(type(x) is str for x in v):
            return "T" + ",".join(enc_text(x) for x in v)
        if type(v) is dict and all(type(a) is str and type(b) is str for a, b in v.items()):
            return "D" + ",".join(enc_text(a) + ":" + enc_text(b) for a, b in v.items())
        try:
            if isinstance(v, api("ConfigValue")):
                for ci, (cls, _) in enumerate(self.classes):
                    for n, d in vars(type(cls)).items():
                        if d is v:
                            return f"C{ci}:{enc_text(n)}"
        except ImplBroken:
            pass
        for i, o in enumerate(self.pool):
            if o is v:
                return f"O{i}"
        for i, o in enumerate(self.pool):
            if type(o) is type(v) and o == v:
                return f"O{i}"
        return "X" + type(v).__name__ + ":" + repr(v)[:60]

    def canon_model(self, line):
        """model output line -> the canonical form used for the implementation"""
        if not line.startswith("ok "):
            return line
        try:
            return "ok " + self.canon_token(line[3:])
        except _Raised as e:
            return "err " + e.args[0]

    def canon_token(self, tok):
        k, r = tok[0], tok[1:]
        if k == "U":
            sub, base = r.split(":", 1)
            return f"U{sub}:" + self.canon_token(base)
        if k == "O":
            return self.token(self.pool[int(r)])
        if k == "P":
            return "P" + enc_text(str(pathlib.Path(dec_text(r))))
        if k == "Y":
            c, t = r.split(":")
            c = int(c)
            if c == 2:
                return "G"
            try:
                if c >= 100:                # IntFlag class #(c - 100) called with the number the text stands for
                    return self.token(make_enum(c - 100)(int(dec_text(t))))
                return self.token(CTORS[c](dec_text(t)))
            except Exception as e:
                raise _Raised(err_name(e))
        return tok


class _Raised(Exception):
    pass


def model_token(tok):
    """harness token -> model token (the model's enum values carry no class)"""
    if tok[0] == "U":
        sub, base = tok[1:].split(":", 1)
        return f"U{sub}:" + model_token(base)
    if tok[0] == "E":
        return "E" + tok.split("#")[1]
    return tok


def mk_obj(d):
    k = d[0]
    if k == "float":
        return float(d[1])
    if k == "bytes":
        return d[1].encode()
    if k == "ints":
        return list(d[1])
    if k == "inttuple":
        return tuple(d[1])
    if k == "frozenset":
        return frozenset(d[1])
    if k == "object":
        return object()
    raise ValueError(d)


def err_name(e):
    n = type(e).__name__
    return n if n in ("ValueError", "KeyError", "TypeError", "AttributeError") else f"Other({n})"


def same(a, b):
    """type-strict equality (True is not 1, 0.0 is not 0)"""
    if a is b:
        return True
    if type(a) is not type(b):
        return False
    if isinstance(a, float) and math.isnan(a) and math.isnan(b):
        return True
    return a == b


# ---------------------------------------------------------------------------------------------------------------------
# the oracle's reading of the property text: what must a text of a given kind parse to
# ---------------------------------------------------------------------------------------------------------------------
def type_of(world, v):
    """the TYPE OF THE DEFAULT of a value spec (the class the environment text must be parsed to)"""
    if v.get("sub") is not None:
        return SUBS[v["sub"]][0]
    k = v["kind"]
    if k == "enum":
        return world.enums[v["enum"]]
    return {"bool": bool, "int": int, "float": float, "str": str, "path": type(pathlib.Path()), "list": list, "tuple": tuple,
            "dict": dict, "none": type(None)}[k]


def expect_parse(world, v, text):
    """-> ("value", obj) | ("raises",) | ("oneof", [objs]) (one of them or an exception) | ("free",)
    The statement: the environment text is parsed TO THE TYPE OF THE DEFAULT (`same` is type strict: for a default that is an
    instance of a subclass of a built-in type the result must be an instance of that subclass; for an enum default - whatever
    data type the enum mixes in - the member); the parse inverts the text form; unparseable text raises."""
    if v.get("parser") is not None:
        try:
            return ("value", PARSERS[v["parser"]](text))          # the user's own function, applied directly
        except Exception:
            return ("raises",)
    kind = v["kind"]
    T = type_of(world, v)
    if kind == "bool":                                             # booleans in any letter case (blanks tolerated)
        core_ = text.strip().lower()
        if core_ == "true":
            return ("value", True)
        if core_ == "false":
            return ("value", False)
        return ("raises",)
    if kind in ("int", "float"):                                   # numbers: CPython's own reading is the reference
        try:
            return ("value", T((int if kind == "int" else float)(text)))
        except ValueError:
            return ("raises",)
    if kind == "str":
        return ("value", T(text))
    if kind == "path":
        return ("value", T(text))
    if kind == "enum":
        ecls = T
        members = ecls.__members__
        by_name = members.get(text)
        by_num = None
        if all(isinstance(m.value, int) for m in ecls):            # "by number" exists for integer-valued members only;
            try:                                                   # which number names which member is the enum's own business
                by_num = ecls(int(text))                           # (an IntFlag accepts combinations)
            except ValueError:
                pass
        if by_name is not None and by_num is not None and by_name is not by_num:
            return ("oneof", [by_name, by_num])
        if by_name is not None:
            return ("value", by_name)                              # enum member by name
        if by_num is not None:
            return ("value", by_num)                               # enum member by number
        key = text.strip().lower()
        loose = [m for n_, m in members.items() if n_.lower() == key or (isinstance(m.value, str) and m.value.lower() == key)]
        if loose:
            return ("oneof", loose)            # other letter case / blanks / the member's text value: not promised, not forbidden
        return ("raises",)
    if kind in ("list", "tuple"):
        if text == "":
            return ("oneof", [T([]), T([""])])
        return ("value", T([p.strip() for p in text.split(",")]))
    if kind == "ntuple":
        # a NamedTuple has no text form of its own in the statement: the fields as a comma-separated list are the natural
        # candidate - accepted, not demanded (the constructor wants the fields one by one; see notes)
        items = [p.strip() for p in text.split(",")]
        if len(items) == SUBS[v["sub"]][3]:
            return ("oneof", [T(*items)])
        return ("raises",)
    if kind == "dict":
        if text.strip() == "":
            return ("free",)
        res = {}
        for p in text.split(","):
            if p.count("=") != 1:
                return ("raises",)
            k_, v_ = p.split("=")
            res[k_.strip()] = v_.strip()
        return ("value", T(res))
    return ("free",)                                               # None default etc.: no text form


def show(x):
    """repr with the class where the repr alone does not tell it (instances of subclasses of str / int / list …)"""
    return repr(x) if type(x) in (bool, int, float, str, list, tuple, dict, type(None)) or isinstance(x, (enum.Enum, pathlib.PurePath)) \
        and type(x) not in SUB_INDEX else f"{type(x).__name__}({repr(x)})" if type(x) in SUB_INDEX and not hasattr(x, "_fields") \
        else repr(x)


def judge(world, exp, got, exc):
    """-> None if fine else description"""
    if exp[0] == "free":
        return None
    if exp[0] == "raises":
        return None if exc is not None else f"returned {show(got)} instead of raising"
    if exp[0] == "oneof":
        if exc is not None or any(same(got, o) for o in exp[1]):
            return None
        return f"returned {show(got)}, expected one of [{', '.join(show(o) for o in exp[1])}] (or an exception)"
    if exc is not None:
        return f"raised {type(exc).__name__}: {exc} instead of returning {show(exp[1])}"
    return None if same(got, exp[1]) else f"returned {show(got)} instead of {show(exp[1])}"


# ---------------------------------------------------------------------------------------------------------------------
# building real config classes from a case
# ---------------------------------------------------------------------------------------------------------------------
def ty_token(world, v):
    k = v["kind"]
    if v.get("sub") is not None:
        chain, j = [], v["sub"]
        while j is not None:
            chain.append(j)
            j = SUBS[j][2]
        if k == "ntuple":
            return f"ntuple{v['sub']}"
        return ":".join(f"sub{j}" for j in chain) + ":" + ("other0" if k == "float" else k)
    if k in ("bool", "path", "str", "int", "dict", "list", "tuple"):
        return k
    if k == "float":
        return "other0"
    if k == "none":
        return "other1"
    if k == "enum":
        ms = enum_members(world.enums[v["enum"]])
        return f"enum{enum_mix(v['enum'])}:" + ",".join(f"{enc_text(n)}={val}" for n, val in ms)
    raise ValueError(k)


def build_class(world, ci, c):
    """-> (the real class, {name: default object}); the defaults are those WRITTEN in the class body (for the core Config: read
    from the source text by `core_class_spec`), never what the implementation stored"""
    defaults = {v["name"]: world.value(v["default"]) for v in c["values"]}
    if c["style"] == "core":
        cls = api("Config")
        if not isinstance(cls, type):
            raise ImplBroken("api-missing", f"pyroll.core.config.Config is {cls!r}, not a class")
        return cls, defaults
    CV = api("ConfigValue")
    if c["style"] == "decorator":
        ns = {"__module__": c["module"]}
        for v in c["values"]:
            if v.get("parser") is not None or v.get("override") or v.get("wrapped"):
                ns[v["name"]] = impl_call(f"ConfigValue({defaults[v['name']]!r}, env_var=…, parser=…)", CV, defaults[v["name"]],
                                          env_var=v.get("override") or None,
                                          parser=PARSERS[v["parser"]] if v.get("parser") is not None else None)
            else:
                ns[v["name"]] = defaults[v["name"]]
        for n, val in c.get("extras", []):
            ns[n] = val
        body = type(f"Cfg{ci}", (), ns)
        dec = impl_call(f"config({c['prefix']!r})", api("config"), c["prefix"])
        cls = impl_call(f"class {ci}: @config({c['prefix']!r}) on a class with the attributes {[k for k in ns if k != "__module__"]}", dec, body)
        if not isinstance(cls, type):
            raise ImplBroken("config-class-creation-raised", f"class {ci}: @config({c['prefix']!r}) returned {cls!r}, not a class")
        return cls, defaults
    # hand-written metaclass
    ns = {"__module__": c["module"]}
    for v in c["values"]:
        ns[v["name"]] = impl_call(f"ConfigValue({defaults[v['name']]!r}, …)", CV, defaults[v["name"]],
                                  env_var=v.get("override") or None, env_var_prefix=c["prefix"] or None,
                                  parser=PARSERS[v["parser"]] if v.get("parser") is not None else None)
    meta = impl_call(f"class {ci}: metaclass deriving from ConfigMeta with the descriptors {[k for k in ns if k != "__module__"]}", type,
                     f"Cfg{ci}Meta", (api("ConfigMeta"),), ns)
    cns = {"__module__": c["module"]}
    for n, val in c.get("extras", []):
        cns[n] = val
    return impl_call(f"class {ci}: instantiating the metaclass", meta, f"Cfg{ci}", (), cns), defaults


def extra_tokens(val):
    """(type token, value token) of a plain attribute of a class body"""
    if isinstance(val, bool):
        return "bool", "B1" if val else "B0"
    if isinstance(val, int):
        return "int", f"I{val}"
    if isinstance(val, str):
        return "str", "S" + enc_text(val)
    raise core.InfraError(f"plain attribute value {val!r}: only int / str are used")


def spec_module(c):
    """`owner.__module__` of the descriptors (the metaclass): the decorator creates it inside pyroll.core.config"""
    return "pyroll.core.config" if c["style"] in ("decorator", "core") else c["module"]


def gen_env_name(c, v):
    """the variable a value reads (used to GENERATE environment operations; mirrors the documented scheme)"""
    if v.get("override"):
        return v["override"]
    prefix = c["prefix"] or spec_module(c).upper().replace(".", "_")
    return prefix + "_" + v["name"].upper()


def oracle_env_name(c, v):
    """the property text: PREFIX_NAME, unless the value names its own variable.  Without a prefix the statement is silent
    (the implementation derives one from the module path): None = the oracle does not judge the name"""
    if v.get("override"):
        return v["override"]
    if not c["prefix"]:
        return None
    return c["prefix"] + "_" + v["name"].upper()


OUR_ENV = ("VC20", "vc20", "PYROLL_CORE_")


def is_ours(k):
    return k.startswith(OUR_ENV)


# ---------------------------------------------------------------------------------------------------------------------
# executing one case on the implementation (+ oracle) and producing the model's input lines
# ---------------------------------------------------------------------------------------------------------------------
def check_names(case):
    """harness invariant (generator / replay file): in decorated classes `values` are the upper-case public names of the body,
    `extras` the others"""
    for ci, c in enumerate(case["classes"]):
        if c["style"] == "meta":
            continue
        for v in c["values"]:
            if not should_be_config(v["name"]):
                raise core.InfraError(f"case: class {ci} lists {v['name']!r} as a config value of a decorated class")
        for n, _ in c.get("extras", []):
            if should_be_config(n):
                raise core.InfraError(f"case: class {ci} lists {n!r} as a plain attribute of a decorated class")


def exec_case(case):
    """-> (lines, impl_out, problems, world);  problems = [(key, what, op_index)]"""
    check_names(case)
    world = World(case)
    lines, out, problems = ["reset"], ["ok"], []
    saved_env = {k: os.environ[k] for k in list(os.environ) if is_ours(k)}
    for k in saved_env:
        del os.environ[k]
    core_snap = None
    classes = world.classes

    def render_dict(d):
        """a dict name -> object as the model prints it (`todict` / `updret` lines)"""
        return " ".join(enc_text(n) + "=" + world.token(val) for n, val in d.items()) if d else "empty"

    def dict_names(ci, d, what, key, i):
        """oracle: `to_dict` / the dict `update` returns list the config values of the class - whichever of the two readings
        the objects stored under the names have (descriptor or resolved value: not judged), the NAMES are exactly the declared
        values"""
        c = case["classes"][ci]
        want = [v["name"] for v in c["values"]]
        got = [n for n in d if n not in c.get("skipped", [])]
        if sorted(map(str, got)) != sorted(want):
            problems.append((key, f"class {ci}: {what} lists {got!r}, the configuration values of the class are {want!r}", i))

    def observe_to_dict(ci, i):
        cls = classes[ci][0]
        try:
            td = getattr(cls, "to_dict")
        except Exception as e:
            raise ImplBroken("api-missing", f"class {ci} has no to_dict: {e!r}")
        try:
            d = td()
        except Exception as e:
            raise ImplBroken("to-dict-raised", f"class {ci}: to_dict() raised {e!r}")
        if not isinstance(d, dict):
            raise ImplBroken("to-dict-names", f"class {ci}: to_dict() returned {d!r}, not a dict")
        sk = case["classes"][ci].get("skipped", [])
        lines.append(f"todict {ci}")
        out.append(render_dict({n: val for n, val in d.items() if n not in sk}))
        dict_names(ci, d, "to_dict()", "to-dict-names", i)
        return d

    def absent(ci, name):
        return case["classes"][ci]["style"] != "meta" and desc_of(classes[ci][0], name) is None

    def flag(ci, name, key, what, i):
        """a problem of a declared value; when the implementation never made it a configuration value, say so"""
        if absent(ci, name):
            key = "declared-name-not-config-value"
            what = (f"class {ci}: the upper-case public attribute {name} was not turned into a configuration value (no "
                    f"ConfigValue descriptor on the metaclass, it stays a plain class attribute): " + what)
        problems.append((key, what, i))

    try:
        for ci, c in enumerate(case["classes"]):
            cls, defaults = build_class(world, ci, c)
            classes.append((cls, defaults))
            if c["style"] == "core":
                core_snap = (cls, dict(vars(cls)))
                for v in c["values"]:
                    if "_" + v["name"] in vars(cls):
                        delattr(cls, "_" + v["name"])
            for v in c["values"]:
                lines.append("%s %d %s %s %s %s %s %s %s" % (
                    "cv" if c["style"] == "meta" else "attr",
                    ci, enc_text(v["name"]), ty_token(world, v), model_token(v["default"]),
                    "-" if v.get("parser") is None else v["parser"], enc_text(v.get("override") or ""),
                    enc_text(c["prefix"]), enc_text(spec_module(c))))
                out.append("ok" if c["style"] == "meta" else "cv" if desc_of(cls, v["name"]) is not None else "plain")
            if c["style"] != "meta":
                for n, val in c.get("extras", []):       # the model's decorator decides about them as well
                    ty, tok = extra_tokens(val)
                    lines.append(f"attr {ci} {enc_text(n)} {ty} {tok} - e {enc_text(c['prefix'])} {enc_text(spec_module(c))}")
                    out.append("cv" if desc_of(cls, n) is not None else "plain")
        # env var naming
        env_vars = {}
        for ci, c in enumerate(case["classes"]):
            cls = classes[ci][0]
            for v in c["values"]:
                d, got = desc_of(cls, v["name"]), None
                if d is not None:
                    try:
                        got = d.env_var
                    except Exception as e:
                        problems.append(("env-var-name", f"class {ci} value {v['name']}: reading env_var raised {e!r}", -1))
                    if got is not None and not isinstance(got, str):
                        problems.append(("env-var-name", f"class {ci} value {v['name']}: env_var is {got!r}", -1))
                        got = None
                lines.append(f"envname {ci} {enc_text(v['name'])}")
                out.append(enc_text(got) if got is not None else "absent")
                want = oracle_env_name(c, v)
                env_vars[(ci, v["name"])] = want or got or gen_env_name(c, v)
                if want is not None and got is not None and got != want:
                    problems.append(("env-var-name", f"class {ci} value {v['name']}: env_var is {got!r}, expected "
                                     f"{want!r}", -1))
        for ci in range(len(case["classes"])):
            observe_to_dict(ci, -1)
        shadow_x = {}          # (ci, name) -> explicitly assigned object | FREE
        shadow_env = {}

        def observe(op_index):
            for ci, c in enumerate(case["classes"]):
                cls, defaults = classes[ci]
                for v in c["values"]:
                    got, exc = None, None
                    try:
                        got = getattr(cls, v["name"])
                    except Exception as e:      # raised by the implementation (or a custom parser / constructor it calls)
                        exc = e
                    lines.append(f"get {ci} {enc_text(v['name'])}")
                    out.append("ok " + world.token(got) if exc is None else "err " + err_name(exc))
                    # ---- oracle: explicit value, else environment parsed, else default ----
                    key = (ci, v["name"])
                    x = shadow_x.get(key, None)
                    if x is FREE or (key in shadow_x and x is None):
                        continue
                    var = env_vars[key]
                    if key in shadow_x:
                        if exc is not None or not same(got, x):
                            why = f"raised {type(exc).__name__}" if exc is not None else f"read {got!r}"
                            falsy = "" if x else "-falsy"
                            flag(ci, v["name"], "resolve-explicit" + falsy, f"class {ci} value {v['name']}: explicitly "
                                 f"assigned {x!r} but {why} (environment {var}={shadow_env.get(var)!r})", op_index)
                    elif var in shadow_env:
                        exp = expect_parse(world, v, shadow_env[var])
                        bad = judge(world, exp, got, exc)
                        if bad:
                            if exp[0] == "raises":
                                k_ = f"parse-{kind_key(v)}-unparseable-not-raised"
                            elif exp[0] == "value" and parses_directly(cls, v, shadow_env[var], exp[1]):
                                k_ = "resolve-env-ignored"       # parse is fine: the environment was not consulted
                            else:
                                k_ = f"parse-{kind_key(v)}" + variant_key(world, v, shadow_env[var])
                            flag(ci, v["name"], k_, f"class {ci} value {v['name']} ({kind_key(v)}) with {var}="
                                 f"{shadow_env[var]!r} and no explicit value: {bad}", op_index)
                    else:
                        if exc is not None or not same(got, defaults[v["name"]]):
                            why = f"raised {type(exc).__name__}: {exc}" if exc is not None else f"read {got!r}"
                            flag(ci, v["name"], "resolve-default", f"class {ci} value {v['name']}: nothing assigned, {var} "
                                 f"not in the environment, default {defaults[v['name']]!r} but {why}", op_index)
                # attributes that are no config values stay what they are (whatever the environment holds)
                for n, val in c.get("extras", []):
                    try:
                        g = getattr(cls, n)
                    except Exception as e:
                        g = e
                    if not same(g, val):
                        problems.append(("non-config-attribute", f"class {ci}: plain attribute {n} reads {g!r}, was "
                                         f"defined as {val!r} (environment: {shadow_env!r})", op_index))

        observe(-1)
        for i, op in enumerate(case["ops"]):
            name = op[0]
            res, exc = "ok", None
            if name == "assign":
                _, ci, n, tok = op
                cls = classes[ci][0]
                val = world.value(tok)
                lines.append(f"assign {ci} {enc_text(n)} {model_token(tok)}")
                try:
                    setattr(cls, n, val)
                except Exception as e:
                    exc = e
                    flag(ci, n, "assign-raised", f"class {ci}: assigning {n} = {val!r} raised {e!r}", i)
                shadow_x[(ci, n)] = val
            elif name == "delete":
                _, ci, n = op
                cls = classes[ci][0]
                lines.append(f"delete {ci} {enc_text(n)}")
                try:
                    delattr(cls, n)
                except Exception as e:
                    exc = e
                    if (ci, n) in shadow_x and shadow_x[(ci, n)] is not FREE:
                        flag(ci, n, "delete-raised", f"class {ci}: del {n} raised {e!r} although a value was assigned", i)
                shadow_x.pop((ci, n), None)
            elif name == "setenv":
                _, var, text = op
                lines.append(f"setenv {enc_text(var)} {enc_text(text)}")
                os.environ[var] = text
                shadow_env[var] = text
            elif name == "unsetenv":
                _, var = op
                lines.append(f"unsetenv {enc_text(var)}")
                os.environ.pop(var, None)
                shadow_env.pop(var, None)
            elif name in ("update", "update_todict"):
                if name == "update":
                    _, ci, pairs = op
                    d = {n: world.value(tok) for n, tok in pairs}
                else:                               # C.update(C.to_dict()): the dictionary the class itself hands out
                    _, ci = op
                    d = dict(observe_to_dict(ci, i))
                    pairs = None
                cls = classes[ci][0]
                args = " ".join(f"{enc_text(n)}={model_token(tok)}" for n, tok in pairs) if pairs is not None else \
                    " ".join(f"{enc_text(str(n))}={world.token(val)}" for n, val in d.items())     # (already canonical tokens)
                lines.append(f"updret {ci} " + args)
                lines.append(f"update {ci} " + args)
                known_names = {v["name"] for v in case["classes"][ci]["values"]}
                unknown = [n for n in d if n not in known_names]
                try:
                    upd = getattr(cls, "update")
                except Exception as e:
                    raise ImplBroken("api-missing", f"class {ci} has no bulk update: {e!r}")
                ret = None
                try:
                    ret = upd(d)
                except Exception as e:
                    exc = e
                sk = case["classes"][ci].get("skipped", [])
                out.append("err " + err_name(exc) if exc is not None else "ok none" if ret is None else
                           "ok " + render_dict({n: val for n, val in ret.items() if n not in sk}) if isinstance(ret, dict)
                           else "ok X" + type(ret).__name__)
                if exc is None and isinstance(ret, dict) and not unknown:
                    dict_names(ci, ret, f"update({d!r}) returned a dict that", "update-return-names", i)
                if unknown:
                    if exc is None:
                        problems.append(("update-unknown-name-not-rejected", f"class {ci}: update({d!r}) returned "
                                         f"normally although {unknown!r} are no config values", i))
                    for n in d:                     # rejected: the state of the named known values is not specified
                        if n in known_names:
                            shadow_x[(ci, n)] = FREE
                else:
                    if exc is not None:
                        miss = [n for n in d if absent(ci, n)]
                        if miss:
                            flag(ci, miss[0], "update-known-raised", f"class {ci}: update({d!r}) raised {exc!r}", i)
                        else:
                            problems.append(("update-known-raised", f"class {ci}: update({d!r}) raised {exc!r}", i))
                    for n, val in d.items():       # (reported; which of the named values were stored by then is open)
                        shadow_x[(ci, n)] = val if exc is None else FREE
            else:
                raise ValueError(op)
            out.append("ok" if exc is None else "err " + err_name(exc))
            observe(i)
    except ImplBroken as e:
        # the case cannot be carried on; what was executed so far stays comparable with the model
        problems.append((e.key, e.what, len(case["ops"]) - 1))
        n = min(len(lines), len(out))
        del lines[n:], out[n:]
    finally:
        for k in [k for k in os.environ if is_ours(k)]:
            del os.environ[k]
        os.environ.update(saved_env)
        if core_snap is not None:        # the core Config is shared with the rest of the process: put back what was there
            cls, snap = core_snap
            for k in [k for k in vars(cls) if k not in snap]:
                try:
                    delattr(cls, k)
                except Exception:
                    pass
            for k, val in snap.items():
                if vars(cls).get(k, MISSING) is not val:
                    try:
                        setattr(cls, k, val)
                    except Exception:
                        pass
    return lines, out, problems, world


def parses_directly(cls, v, text, expected):
    """does the descriptor's own parse give the expected value (then a wrong read is a resolution problem)"""
    d = desc_of(cls, v["name"])
    if d is None:
        return False
    try:
        return same(d.parse(text), expected)
    except Exception:
        return False


def kind_key(v):
    """stable name of the kind of value in violation keys: the built-in kind, for enums what the class mixes in, and whether the
    default is an instance of a user-defined subclass"""
    if v.get("parser") is not None:
        return "custom"
    k = v["kind"]
    if k == "enum":
        k += {"StrMix": "-strmix", "StrEnum": "-strmix", "IntFlag": "-intflag"}.get(ENUMS[v["enum"]][1], "")
    if k == "ntuple":
        return "namedtuple"
    if v.get("sub") is not None:
        k += "-subclass"
    return k


def variant_key(world, v, text):
    """stable sub-key naming the text form that fails"""
    if v.get("parser") is not None:
        return ""
    k = v["kind"]
    if k == "bool":
        s = text.strip()
        return ("-blanks" if s != text else "") + ("-lettercase" if s not in ("true", "false", "True", "False") else "")
    if k == "enum":
        ms = world.enums[v["enum"]].__members__
        if text in ms:
            return "-by-name" + ("" if text.isupper() else "-not-upper-case")
        try:
            int(text)
            return "-by-number"
        except ValueError:
            return "-by-other-spelling"         # another letter case, blanks around, the text value of a str-valued member
    if k in ("list", "tuple", "dict", "ntuple"):
        return "-blanks" if any(p != p.strip() for p in text.replace("=", ",").split(",")) else ""
    return ""


# ---------------------------------------------------------------------------------------------------------------------
# generators
# ---------------------------------------------------------------------------------------------------------------------
# every shape `str.isupper()` accepts for a public name: single letters, digits inside / at the end, inner / trailing / double
# underscores, non-ASCII capitals (Latin-1: the range the model's table covers)
UPPER_NAMES = ["A", "B", "FLAG", "MAX_COUNT", "X1", "PATH_", "MODE", "ITEMS", "PAIRS", "Z_9", "NAME", "Q", "L2_NORM_LIMIT",
               "UTF8", "A__B", "N0_1_2", "R2D2", "\xc4B", "\xd8RE_1", "\xde", "GR\xd6SSE"]
ANY_NAMES = ["lower", "Mixed_Name", "x1", "camelCase"]
# attributes of a decorated class that must stay plain: leading underscore, lower / mixed case (also non-ASCII), no cased letter
PLAIN_ATTRS = [["lower_attr", 11], ["_PRIV", "p"], ["Mixed", 0], ["_X", 3], ["__DUNDERISH", 4], ["x1", 5], ["aB", "q"],
               ["A_b", 6], ["\xe4B", 7], ["\xc4\xdf", 8], ["_1", 9], ["\u6570", 10], ["\u6570_1", "r"], ["T\xfcR", 12]]
PREFIXES = ["VC20A", "VC20_B", "VC20X_Y_Z", "vc20low", "VC20A"]
OVERRIDES = ["VC20OV_ONE", "VC20OV_TWO", "vc20_lower_var", "VC20A_A", "VC20SHARED"]
POOL = [("float", "0.0"), ("float", "2.5"), ("float", "-1.5e-07"), ("float", "inf"), ("bytes", ""), ("ints", [1, 2]),
        ("inttuple", [0]), ("frozenset", []), ("object", 0), ("float", "nan")]
KINDS = ["bool", "int", "float", "str", "path", "enum", "list", "tuple", "dict", "none", "int", "bool", "enum", "enum", "ntuple"]
P_SUB = 0.3         # share of the values of a subclassable kind whose default is an instance of a user-defined subclass
BLANKS = ["", "", " ", "  ", "\t", " \n", "\xa0", "\x1c"]
ALPHABET = "aAbBzZxX019 _-+=,;:./\t\ntTrRuUeEfFaAlLsS"
WORDS = ["a", "b", "abc", "A b", "x_1", "", "0", "true", "Key", "v/w", "tmp/x.txt", "e-1"]


NAME_ALPHABET = "AZaz09__XQ\xc4\xd6\xd8\xde\xdf\xe4\xff\xaa\xb5\xba\xd7\xf7\u6570\u3042"


def rnd_text(rng, lo=0, hi=8):
    return "".join(rng.choice(ALPHABET) for _ in range(rng.randrange(lo, hi)))


def rnd_item(rng):
    """an item of a collection: no comma, no equals sign, no blanks at the ends"""
    w = rng.choice(WORDS) if rng.random() < 0.7 else rnd_text(rng, 0, 5)
    return w.replace(",", "").replace("=", "").strip()


def rnd_value_token(rng, kind, enum_idx=None, falsy=False, sub=None):
    """a random value of the kind; `sub`: as instance of the user-defined class #sub"""
    if sub is not None:
        if kind == "ntuple":
            return f"U{sub}:T" + ",".join(enc_text(rnd_item(rng)) for _ in range(SUBS[sub][3]))
        return f"U{sub}:" + rnd_value_token(rng, kind, enum_idx, falsy)
    if kind == "bool":
        return "B0" if falsy else rng.choice(["B0", "B1"])
    if kind == "int":
        return "I0" if falsy else "I%d" % rng.choice([0, 1, -1, 7, 42, -300, 10 ** 12, rng.randrange(-10 ** 6, 10 ** 6)])
    if kind == "float":
        return "O0" if falsy else rng.choice(["O0", "O1", "O2", "O3"])
    if kind == "str":
        return "Se" if falsy else "S" + enc_text(rng.choice(WORDS + [" padded ", "TRUE", "1,2"]))
    if kind == "path":
        return "P" + enc_text(rng.choice([".", "a/b", "/tmp/x", "rel/file.txt", "a b/c"]))
    if kind == "enum":
        ms = ENUM_MEMBERS[enum_idx]
        n, val = min(ms, key=lambda m: abs(m[1])) if falsy else rng.choice(ms)
        return f"E{enum_idx}#{val}"
    if kind in ("list", "tuple"):
        items = [] if falsy else [rnd_item(rng) for _ in range(rng.randrange(0, 4))]
        return ("L" if kind == "list" else "T") + ",".join(enc_text(x) for x in items)
    if kind == "dict":
        items = {} if falsy else {rnd_item(rng): rnd_item(rng) for _ in range(rng.randrange(0, 3))}
        return "D" + ",".join(enc_text(a) + ":" + enc_text(b) for a, b in items.items())
    if kind == "none":
        return "N"
    raise ValueError(kind)


ENUM_MEMBERS = {}


def _init_enum_members():
    if not ENUM_MEMBERS:
        for i in range(len(ENUMS)):
            ENUM_MEMBERS[i] = enum_members(make_enum(i))


def pad(rng, s):
    return rng.choice(BLANKS) + s + rng.choice(BLANKS)


def rnd_case_of(rng, s):
    return "".join(c.upper() if rng.random() < 0.5 else c.lower() for c in s)


def render_text(rng, v):
    """a natural text form (with the variations the property allows) of a random value of the kind of `v`"""
    kind = v["kind"]
    if v.get("parser") is not None:
        return rng.choice([" 12 ", "abc", "x;y;z", "-7", "", rnd_text(rng)])
    if kind == "bool":
        w = rng.choice(["true", "false"])
        w = rng.choice([w, w.capitalize(), w.upper(), rnd_case_of(rng, w)])
        return pad(rng, w) if rng.random() < 0.5 else w
    if kind == "int":
        n = rng.choice([0, 1, -1, 7, 42, -300, 10 ** 12, rng.randrange(-10 ** 6, 10 ** 6)])
        s = str(n)
        r = rng.random()
        if r < 0.1 and n >= 0:
            s = "+" + s
        elif r < 0.2:
            s = "0" + s if n >= 0 else s
        elif r < 0.3 and abs(n) >= 1000:
            s = s[:-3] + "_" + s[-3:]
        return pad(rng, s) if rng.random() < 0.4 else s
    if kind == "float":
        x = rng.choice([0.0, 1.5, -2.25e-3, 1e300, rng.uniform(-10, 10), float(rng.randrange(-5, 5))])
        s = repr(x) if rng.random() < 0.7 else rng.choice(["%g" % x, "%.3e" % x, "inf", "-Infinity", "nan", "1_0.5"])
        return pad(rng, s) if rng.random() < 0.3 else s
    if kind == "str":
        return rng.choice(WORDS + [" padded ", "TRUE", "1,2", "a=b"])
    if kind == "path":
        return rng.choice([".", "a/b", "/tmp/x", "rel/file.txt", "a b/c", "a//b/", ""])
    if kind == "enum":
        n, val = rng.choice(ENUM_MEMBERS[v["enum"]])
        if not isinstance(make_enum(v["enum"])[n].value, int):
            val = make_enum(v["enum"])[n].value if rng.random() < 0.6 else val       # the member's text / some number
        r = rng.random()
        if r < 0.45:
            return n
        if r < 0.75:
            return pad(rng, str(val)) if rng.random() < 0.3 else str(val)
        if r < 0.9:
            return rng.choice([n.lower(), n.upper(), rnd_case_of(rng, n)])
        return pad(rng, n)
    if kind in ("list", "tuple", "ntuple"):
        n_items = rng.randrange(1, 5)
        if kind == "ntuple" and rng.random() < 0.7:
            n_items = SUBS[v["sub"]][3]
        items = [rnd_item(rng) for _ in range(n_items)]
        if rng.random() < 0.5:
            items = [pad(rng, x) for x in items]
        return ",".join(items)
    if kind == "dict":
        items = [(rnd_item(rng), rnd_item(rng)) for _ in range(rng.randrange(1, 4))]
        if rng.random() < 0.5:
            return ",".join(pad(rng, pad(rng, a) + "=" + pad(rng, b)) for a, b in items)
        return ",".join(a + "=" + b for a, b in items)
    return rnd_text(rng)


def bad_text(rng, v):
    """a text that is no text form of the kind"""
    kind = v["kind"]
    if kind == "bool":
        return rng.choice(["yes", "no", "1", "0", "", "tru", "truee", "t rue", "True,", "none", "on"])
    if kind == "int":
        return rng.choice(["", "1.5", "abc", "1e3", "--1", "1 2", "0x10", "1__0", "_1", "1_", "+", "-", "+-1", "١x"])
    if kind == "float":
        return rng.choice(["", "abc", "1,5", "1.2.3", "e5", "--1.0", "1e", "in f"])
    if kind == "enum":
        return rng.choice(["", "NOPE", "99", "-17", "1.0", "PLOT LY", "A,B", "1 1", "0x1", "fastest", "R|W", "Kind.FAST"])
    if kind == "ntuple":
        return rng.choice(["", "a", "a,b,c,d,e", ","])
    if kind == "dict":
        return rng.choice(["a", "a=b=c", "a=b,c", "=,", "a=b,,c=d", "a=b;c=d=e", ","])
    return rnd_text(rng)


def env_text(rng, v):
    r = rng.random()
    if r < 0.6:
        return render_text(rng, v)
    if r < 0.82:
        return bad_text(rng, v)
    return rnd_text(rng)


def clean_env_text(t):
    return t.replace("\x00", "")


def rnd_type(rng, v):
    """choose the type of a value spec of kind v["kind"]: which enum class, or (with probability P_SUB) a user-defined subclass"""
    kind = v["kind"]
    if kind == "enum":
        v["enum"] = rng.randrange(len(ENUMS))
    elif kind == "ntuple":
        v["sub"] = rng.choice(SUBS_OF_KIND["ntuple"])
    elif kind in SUBS_OF_KIND and rng.random() < P_SUB:
        v["sub"] = rng.choice(SUBS_OF_KIND[kind])


def gen_value_spec(rng, name, style):
    kind = rng.choice(KINDS)
    v = {"name": name, "kind": kind}
    rnd_type(rng, v)
    v["default"] = rnd_value_token(rng, kind, v.get("enum"), falsy=rng.random() < 0.25, sub=v.get("sub"))
    r = rng.random()
    if r < 0.18:
        v["parser"] = rng.randrange(len(PARSERS))
    if rng.random() < 0.18:
        v["override"] = rng.choice(OVERRIDES)
    if style == "decorator" and rng.random() < 0.2:
        v["wrapped"] = True       # given as ConfigValue(default) inside the decorated class
    return v


_CORE_SPEC = []


def core_class_spec():
    """the core Config as a class spec.  Names, defaults and prefix are read from the SOURCE TEXT of the class body
    (`@config("…") class Config: NAME = <literal>`), not from the descriptors the implementation created: which of the names
    are configuration values is for the oracle to say.  -> (spec, pool) | (None, reason)"""
    _init_enum_members()
    if _CORE_SPEC:
        return json.loads(json.dumps(_CORE_SPEC[0])), list(_CORE_SPEC[1])
    path = os.path.join(core.REPO, "pyroll", "core", "config.py")
    tree = ast.parse(open(path).read())
    cdef = next((n for n in tree.body if isinstance(n, ast.ClassDef) and n.name == "Config"), None)
    if cdef is None:
        return None, "class Config not found in pyroll/core/config.py"
    prefix = None
    for d in cdef.decorator_list:
        if isinstance(d, ast.Call) and isinstance(d.func, ast.Name) and d.func.id == "config" and len(d.args) == 1 \
                and isinstance(d.args[0], ast.Constant) and isinstance(d.args[0].value, str):
            prefix = d.args[0].value
    if prefix is None:
        return None, "class Config is not decorated with @config(\"<prefix>\")"
    vals, extras, pool, skipped = [], [], list(POOL), []
    for st in cdef.body:
        if not (isinstance(st, ast.Assign) and len(st.targets) == 1 and isinstance(st.targets[0], ast.Name)):
            continue
        n, v = st.targets[0].id, None
        try:
            d = ast.literal_eval(st.value)
        except Exception:
            d = MISSING
        if isinstance(d, bool):
            v = {"name": n, "kind": "bool", "default": "B1" if d else "B0"}
        elif isinstance(d, int):
            v = {"name": n, "kind": "int", "default": f"I{d}"}
        elif isinstance(d, float):
            pool.append(("float", repr(d)))
            v = {"name": n, "kind": "float", "default": f"O{len(pool) - 1}"}
        elif isinstance(d, str):
            v = {"name": n, "kind": "str", "default": "S" + enc_text(d)}
        elif isinstance(st.value, ast.Attribute) and isinstance(st.value.value, ast.Name) \
                and st.value.value.id == "PlottingBackend" and st.value.attr in dict(ENUM_MEMBERS[0]):
            v = {"name": n, "kind": "enum", "enum": 0, "default": f"E0#{dict(ENUM_MEMBERS[0])[st.value.attr]}"}
        if should_be_config(n):
            if v is None:
                skipped.append(n)           # a default the harness has no token for: that value is not exercised
            else:
                vals.append(v)
        elif isinstance(d, (int, str)) and not isinstance(d, bool):
            extras.append([n, d])
    spec = {"style": "core", "prefix": prefix, "module": "pyroll.core.config", "values": vals, "extras": extras,
            "skipped": skipped}
    _CORE_SPEC[:] = [spec, pool]
    return json.loads(json.dumps(spec)), list(pool)


def gen_case(rng, n_ops, with_core):
    _init_enum_members()
    classes, pool = [], list(POOL)
    if with_core:
        c, pool = core_class_spec()
        if c is None or not c["values"]:
            with_core, pool = False, list(POOL)
        else:
            classes.append(c)
    for _ in range(rng.choice([1, 1, 2]) if not with_core else rng.choice([0, 1])):
        style = rng.choice(["decorator", "decorator", "decorator", "meta"])
        prefix = rng.choice(PREFIXES) if rng.random() < 0.93 else ("PYROLL_CORE" if with_core else "")
        if classes and classes[-1]["style"] != "core" and rng.random() < 0.4:
            prefix = classes[-1]["prefix"]         # two classes reading the same environment variables
        names = rng.sample(UPPER_NAMES, rng.randrange(2, 6))
        if style == "meta":
            names += rng.sample(ANY_NAMES, rng.randrange(0, 3))
        if with_core and prefix == "PYROLL_CORE":
            names = ["GROOVE_PADDING", "PLOT_WIDTH"] + names[:2]
        c = {"style": style, "prefix": prefix, "module": rng.choice(["vc20pkg.mod_a", "vc20pkg", "Vc20Pkg.sub.m"]),
             "values": [gen_value_spec(rng, n, style) for n in names],
             "extras": rng.sample(PLAIN_ATTRS, rng.randrange(1, 5)) if style == "decorator" else [["plain", 5]]}
        classes.append(c)
    case = {"classes": classes, "pool": pool, "ops": []}
    allv = [(ci, v) for ci, c in enumerate(classes) for v in c["values"]]
    vars_ = sorted({gen_env_name(classes[ci], v) for ci, v in allv})
    near = []
    for ci, v in allv[:4]:
        c = classes[ci]
        if c["prefix"].startswith(("VC20", "vc20")):
            near += [c["prefix"] + "_" + v["name"].lower(), c["prefix"] + v["name"], c["prefix"] + "__" + v["name"]]
    near += ["VC20A_LOWER_ATTR", "VC20A__PRIV", "VC20_B_LOWER_ATTR"]
    for c in classes:                      # the variables the plain attributes WOULD read if they were config values
        if c["style"] == "decorator" and c["prefix"].startswith(("VC20", "vc20")):
            near += [c["prefix"] + "_" + n.upper() for n, _ in c["extras"]]
    assigned = set()
    while len(case["ops"]) < n_ops:
        ci, v = rng.choice(allv)
        r = rng.random()
        if r < 0.24:
            var = gen_env_name(classes[ci], v)
            case["ops"].append(["setenv", var, clean_env_text(env_text(rng, v))])
        elif r < 0.29:
            var = rng.choice(near) if rng.random() < 0.6 else rng.choice(vars_)
            case["ops"].append(["setenv", var, clean_env_text(render_text(rng, v))])
        elif r < 0.37:
            case["ops"].append(["unsetenv", rng.choice(vars_)])
        elif r < 0.62:
            rr = rng.random()
            if rr < 0.55:
                tok = rnd_value_token(rng, v["kind"], v.get("enum"), falsy=rng.random() < 0.45,
                                      sub=v.get("sub") if rng.random() < 0.7 or v["kind"] == "ntuple" else None)
            elif rr < 0.67:
                tok = "N"
            else:
                k2 = rng.choice(KINDS)
                tok = rnd_value_token(rng, k2, rng.randrange(1, len(ENUMS)) if k2 == "enum" else None,
                                      sub=rng.choice(SUBS_OF_KIND["ntuple"]) if k2 == "ntuple" else None) \
                    if rng.random() < 0.6 else "O%d" % rng.randrange(len(POOL))
                if tok.startswith("E"):
                    case.setdefault("enums", [])
                    e = int(tok[1:].split("#")[0])
                    if e not in case["enums"]:
                        case["enums"].append(e)
            case["ops"].append(["assign", ci, v["name"], tok])
            assigned.add((ci, v["name"]))
        elif r < 0.80:
            if (ci, v["name"]) in assigned or rng.random() < 0.25:
                case["ops"].append(["delete", ci, v["name"]])
                if rng.random() < 0.85:
                    assigned.discard((ci, v["name"]))
            else:
                continue
        elif r > 0.985:
            case["ops"].append(["update_todict", ci])          # C.update(C.to_dict())
            for cj, w in allv:
                if cj == ci:
                    assigned.add((ci, w["name"]))
        else:
            vs = [w for cj, w in allv if cj == ci]
            chosen = rng.sample(vs, rng.randrange(0, min(4, len(vs)) + 1))
            pairs = [[w["name"], rnd_value_token(rng, w["kind"], w.get("enum"), falsy=rng.random() < 0.3, sub=w.get("sub"))]
                     for w in chosen]
            if rng.random() < 0.35:
                others = [w["name"] for cj, w in allv if cj != ci and w["name"] not in {x["name"] for x in vs}]
                unk = rng.choice(["BOGUS", "lower_attr", "_PRIV", "_" + vs[0]["name"], vs[0]["name"].lower() + "_"]
                                 + others[:2] + [n for n, _ in classes[ci].get("extras", [])])
                if unk not in {x["name"] for x in vs}:
                    pairs.insert(rng.randrange(len(pairs) + 1), [unk, "I5"])
            case["ops"].append(["update", ci, pairs])
            for n, _ in pairs:
                assigned.add((ci, n))
    return case


# ---------------------------------------------------------------------------------------------------------------------
# corpus (hand-written cases: the findings of DESIGN.md section 6 and the boundary cases of the statement)
# ---------------------------------------------------------------------------------------------------------------------
def _cls(values, prefix="VC20A", style="decorator", extras=True):
    return {"style": style, "prefix": prefix, "module": "vc20pkg.mod_a", "values": values,
            "extras": extras if isinstance(extras, list) else
            ([["lower_attr", 11], ["_PRIV", "p"]] if style == "decorator" else []) if extras else []}


CORPUS = [
    # F15: bulk update with an unknown name must be rejected
    {"classes": [_cls([{"name": "A", "kind": "int", "default": "I1"}, {"name": "B", "kind": "int", "default": "I2"}])],
     "pool": POOL, "ops": [["update", 0, [["A", "I5"], ["BOGUS", "I3"]]], ["update", 0, [["BOGUS", "I3"]]],
                           ["update", 0, [["A", "I6"], ["B", "I0"]]]]},
    # F16: an enum member whose name is not upper case, by name
    {"classes": [_cls([{"name": "MODE", "kind": "enum", "enum": 1, "default": "E1#2"}])], "pool": POOL,
     "ops": [["setenv", "VC20A_MODE", "Lower"], ["setenv", "VC20A_MODE", "Mixed_Case"], ["setenv", "VC20A_MODE", "upper"],
             ["setenv", "VC20A_MODE", "4"], ["setenv", "VC20A_MODE", "lower"], ["setenv", "VC20A_MODE", "nope"]]},
    # falsy explicit values win over environment and default; delete restores the next source
    {"classes": [_cls([{"name": "A", "kind": "int", "default": "I7"}, {"name": "FLAG", "kind": "bool", "default": "B1"},
                       {"name": "NAME", "kind": "str", "default": "S" + enc_text("dflt")},
                       {"name": "ITEMS", "kind": "list", "default": "L" + enc_text("x")}])], "pool": POOL,
     "ops": [["setenv", "VC20A_A", "12"], ["setenv", "VC20A_FLAG", "TRUE"], ["setenv", "VC20A_NAME", "env"],
             ["setenv", "VC20A_ITEMS", "a, b"], ["assign", 0, "A", "I0"], ["assign", 0, "FLAG", "B0"],
             ["assign", 0, "NAME", "Se"], ["assign", 0, "ITEMS", "L"], ["delete", 0, "A"], ["delete", 0, "FLAG"],
             ["delete", 0, "NAME"], ["delete", 0, "ITEMS"], ["unsetenv", "VC20A_A"], ["delete", 0, "A"],
             ["assign", 0, "A", "N"], ["delete", 0, "A"]]},
    # two classes with one prefix share the environment but not the explicit values; override + custom parser
    {"classes": [_cls([{"name": "A", "kind": "int", "default": "I1"},
                       {"name": "B", "kind": "str", "default": "Se", "override": "VC20OV_ONE", "parser": 1}]),
                 _cls([{"name": "A", "kind": "int", "default": "I2"}, {"name": "lower", "kind": "bool", "default": "B0"}],
                      prefix="", style="meta")], "pool": POOL,
     "ops": [["setenv", "VC20A_A", " 5 "], ["assign", 0, "A", "I9"], ["setenv", "VC20PKG_MOD_A_A", "6"],
             ["setenv", "VC20PKG_MOD_A_LOWER", " tRuE\n"], ["setenv", "VC20OV_ONE", " abc "], ["setenv", "VC20A_B", "zzz"],
             ["delete", 0, "A"], ["delete", 1, "A"]]},
    # mappings / tuples / unparseable texts
    {"classes": [_cls([{"name": "PAIRS", "kind": "dict", "default": "D"}, {"name": "ITEMS", "kind": "tuple", "default": "T"},
                       {"name": "X1", "kind": "float", "default": "O1"}, {"name": "Z_9", "kind": "none", "default": "N"},
                       {"name": "PATH_", "kind": "path", "default": "P" + enc_text(".")}])], "pool": POOL,
     "ops": [["setenv", "VC20A_PAIRS", "a=1, b = 2 ,a=3"], ["setenv", "VC20A_ITEMS", " x ,,y"], ["setenv", "VC20A_X1", " 1e3 "],
             ["setenv", "VC20A_Z_9", "x"], ["setenv", "VC20A_PATH_", "a//b/"], ["setenv", "VC20A_PAIRS", "a=b=c"],
             ["setenv", "VC20A_PAIRS", ""], ["setenv", "VC20A_ITEMS", ""], ["setenv", "VC20A_X1", "abc"]]},
    # every shape of an upper-case public name is a configuration value (digits, inner / trailing / double underscores, single
    # letters, non-ASCII capitals); leading underscore, lower / mixed case and uncased names stay plain attributes
    {"classes": [_cls([{"name": "X1", "kind": "int", "default": "I1"}, {"name": "L2_NORM_LIMIT", "kind": "float", "default": "O1"},
                       {"name": "Q", "kind": "bool", "default": "B0"}, {"name": "\xc4B", "kind": "str", "default": "S" + enc_text("abc")},
                       {"name": "A__B", "kind": "tuple", "default": "T" + enc_text("a")},
                       {"name": "PATH_", "kind": "int", "default": "I3", "wrapped": True},
                       {"name": "R2D2", "kind": "int", "default": "I4", "override": "VC20OV_ONE", "parser": 3}],
                      extras=[list(x) for x in PLAIN_ATTRS])], "pool": POOL,
     "ops": [["setenv", "VC20A_X1", "5"], ["setenv", "VC20A_L2_NORM_LIMIT", "0.25"], ["setenv", "VC20A_Q", "TRUE"],
             ["setenv", "VC20A_\xc4B", "xyz"], ["setenv", "VC20A_A__B", "3, 4"], ["setenv", "VC20A_PATH_", " 7"],
             ["setenv", "VC20OV_ONE", "four"], ["assign", 0, "X1", "I0"], ["delete", 0, "X1"],
             ["update", 0, [["X1", "I0"], ["\xc4B", "Se"], ["Q", "B0"]]], ["unsetenv", "VC20A_X1"], ["delete", 0, "X1"],
             ["delete", 0, "\xc4B"], ["setenv", "VC20A_MIXED", "5"], ["setenv", "VC20A__PRIV", "zz"],
             ["setenv", "VC20A_\u6570", "7"], ["setenv", "VC20A_\xc4B", "late"], ["setenv", "VC20A_X1", "6"],
             ["update", 0, [["Mixed", "I1"]]], ["update", 0, [["_X", "I1"], ["X1", "I2"]]], ["update", 0, [["\xe4B", "I1"]]]]},
    # types related by subclassing (1): enum classes that mix in a data type - (str, Enum), StrEnum, (int, Enum), IntEnum, IntFlag.
    # The text is parsed to the TYPE OF THE DEFAULT: the member by name / number, unknown names raise
    {"classes": [_cls([{"name": "MODE", "kind": "enum", "enum": 6, "default": "E6#1"},
                       {"name": "A", "kind": "enum", "enum": 7, "default": "E7#2"},
                       {"name": "B", "kind": "enum", "enum": 8, "default": "E8#1"},
                       {"name": "FLAG", "kind": "enum", "enum": 9, "default": "E9#4"},
                       {"name": "Q", "kind": "enum", "enum": 2, "default": "E2#0"}])], "pool": POOL,
     "ops": [["setenv", "VC20A_MODE", "SLOW"], ["setenv", "VC20A_MODE", "Very_Slow"], ["setenv", "VC20A_MODE", "slow"],
             ["setenv", "VC20A_MODE", "very-slow"], ["setenv", "VC20A_MODE", "medium"], ["setenv", "VC20A_MODE", "2"],
             ["setenv", "VC20A_MODE", "10"], ["setenv", "VC20A_A", "FINE"], ["setenv", "VC20A_A", "final_pass"],
             ["setenv", "VC20A_A", "coarse"], ["setenv", "VC20A_B", "HIGH"], ["setenv", "VC20A_B", " 5 "],
             ["setenv", "VC20A_B", "3"], ["setenv", "VC20A_FLAG", "W"], ["setenv", "VC20A_FLAG", "6"],
             ["setenv", "VC20A_FLAG", "rw"], ["setenv", "VC20A_FLAG", "R|W"], ["setenv", "VC20A_Q", "-1"],
             ["setenv", "VC20A_Q", "BIG"], ["assign", 0, "MODE", "E6#2"], ["setenv", "VC20A_MODE", "FAST"],
             ["delete", 0, "MODE"], ["unsetenv", "VC20A_MODE"], ["update", 0, [["A", "E7#1"], ["FLAG", "E9#6"]]],
             ["delete", 0, "A"]]},
    # (2): defaults that are instances of user-defined subclasses of str / int / float / Path / list / tuple / dict, and
    # NamedTuples: same text form as the built-in type, the result is an instance of the subclass
    {"classes": [_cls([{"name": "NAME", "kind": "str", "sub": 0, "default": "U0:S" + enc_text("dflt")},
                       {"name": "A", "kind": "int", "sub": 1, "default": "U1:I7"},
                       {"name": "X1", "kind": "float", "sub": 2, "default": "U2:O1"},
                       {"name": "ITEMS", "kind": "list", "sub": 3, "default": "U3:L" + enc_text("x")},
                       {"name": "B", "kind": "list", "sub": 7, "default": "U7:L"},
                       {"name": "Q", "kind": "tuple", "sub": 4, "default": "U4:T"},
                       {"name": "PAIRS", "kind": "dict", "sub": 5, "default": "U5:D"},
                       {"name": "Z_9", "kind": "dict", "sub": 8, "default": "U8:D" + enc_text("k") + ":" + enc_text("v")},
                       {"name": "PATH_", "kind": "path", "sub": 6, "default": "U6:P" + enc_text(".")},
                       {"name": "R2D2", "kind": "ntuple", "sub": 9, "default": "U9:T" + enc_text("a") + "," + enc_text("b")},
                       {"name": "UTF8", "kind": "str", "sub": 11, "default": "U11:Se"}])], "pool": POOL,
     "ops": [["setenv", "VC20A_NAME", "abc"], ["setenv", "VC20A_NAME", " a,b "], ["setenv", "VC20A_A", " 12 "],
             ["setenv", "VC20A_A", "x"], ["setenv", "VC20A_X1", "1e3"], ["setenv", "VC20A_ITEMS", "a, b"],
             ["setenv", "VC20A_B", "p,q , r"], ["setenv", "VC20A_Q", " x ,,y"], ["setenv", "VC20A_PAIRS", "a=1, b = 2"],
             ["setenv", "VC20A_PAIRS", "a"], ["setenv", "VC20A_Z_9", "k=1,j=2"], ["setenv", "VC20A_PATH_", "a/b"],
             ["setenv", "VC20A_R2D2", "x,y"], ["setenv", "VC20A_R2D2", "x"], ["setenv", "VC20A_UTF8", "text"],
             ["assign", 0, "NAME", "S" + enc_text("plain")], ["assign", 0, "ITEMS", "U3:L"], ["delete", 0, "NAME"],
             ["update", 0, [["A", "U1:I0"], ["Q", "T"]]], ["delete", 0, "A"]]},
    # (3): bool is a subclass of int - a bool default reads true / false only, an int default no words; True assigned to an int value
    # stays True
    {"classes": [_cls([{"name": "FLAG", "kind": "bool", "default": "B0"}, {"name": "A", "kind": "int", "default": "I0"},
                       {"name": "B", "kind": "int", "sub": 1, "default": "U1:I1"}])], "pool": POOL,
     "ops": [["setenv", "VC20A_FLAG", "1"], ["setenv", "VC20A_FLAG", "TRUE"], ["setenv", "VC20A_A", "True"],
             ["setenv", "VC20A_A", "1"], ["setenv", "VC20A_B", "false"], ["setenv", "VC20A_B", "0"],
             ["assign", 0, "A", "B1"], ["assign", 0, "FLAG", "I0"], ["delete", 0, "A"], ["delete", 0, "FLAG"]]},
    # to_dict lists exactly the configuration values; update(to_dict()) is accepted and stores what the dictionary holds
    {"classes": [_cls([{"name": "A", "kind": "int", "default": "I1"}, {"name": "NAME", "kind": "str", "default": "S" + enc_text("n")}],
                      extras=[list(x) for x in PLAIN_ATTRS[:4]]),
                 _cls([{"name": "A", "kind": "int", "default": "I2"}, {"name": "lower", "kind": "bool", "default": "B0"}],
                      prefix="VC20_B", style="meta")], "pool": POOL,
     "ops": [["setenv", "VC20A_A", "5"], ["update", 0, [["A", "I3"]]], ["update_todict", 0], ["setenv", "VC20A_A", "6"],
             ["delete", 0, "A"], ["update_todict", 1], ["assign", 1, "A", "I9"], ["delete", 1, "lower"]]},
]


# ---------------------------------------------------------------------------------------------------------------------
# shrinking / classification
# ---------------------------------------------------------------------------------------------------------------------
def problems_of(case):
    return exec_case(case)[2]


def shrink(case, key):
    """greedy: drop operations, then values, while a problem with the same key persists"""
    def has(c):
        try:
            return any(k == key for (k, _, _) in problems_of(c))
        except Exception:
            return False
    cur = json.loads(json.dumps(case))
    p = [i for (k, _, i) in problems_of(cur) if k == key]
    if p and p[0] >= 0:
        cur["ops"] = cur["ops"][:p[0] + 1]
    changed = True
    while changed:
        changed = False
        for i in range(len(cur["ops"]) - 1, -1, -1):
            cand = dict(cur, ops=cur["ops"][:i] + cur["ops"][i + 1:])
            if has(cand):
                cur, changed = cand, True
                break
    for ci in range(len(cur["classes"]) - 1, -1, -1):          # whole classes (operations on later classes renumbered)
        if len(cur["classes"]) == 1:
            break
        ops = []
        for op in cur["ops"]:
            if op[0] in ("assign", "delete", "update", "update_todict"):
                if op[1] == ci:
                    continue
                op = [op[0], op[1] - (1 if op[1] > ci else 0)] + list(op[2:])
            ops.append(op)
        cand = dict(cur, classes=cur["classes"][:ci] + cur["classes"][ci + 1:], ops=ops)
        if has(cand):
            cur = json.loads(json.dumps(cand))
    used = {(op[1], op[2]) for op in cur["ops"] if op[0] in ("assign", "delete")}
    used |= {(op[1], n) for op in cur["ops"] if op[0] == "update" for n, _ in op[2]}
    for ci, c in enumerate(cur["classes"]):
        if c["style"] == "core":
            continue
        for v in list(c["values"]):
            if len(c["values"]) > 1 and (ci, v["name"]) not in used:
                cand = json.loads(json.dumps(cur))
                cand["classes"][ci]["values"] = [w for w in c["values"] if w["name"] != v["name"]]
                if has(cand):
                    cur = cand
                    c = cur["classes"][ci]
        for e in list(c.get("extras", [])):
            cand = json.loads(json.dumps(cur))
            cand["classes"][ci]["extras"] = [x for x in c["extras"] if x[0] != e[0]]
            if has(cand):
                cur = cand
                c = cur["classes"][ci]
    return cur


HOW = ("driver/props/c20.py exec_case(case): build the classes described under `classes` (style decorator = @config(prefix) on "
       "a class whose body holds the `values` (NAME = default, or NAME = ConfigValue(default, env_var=override, parser=…)) and the "
       "`extras` (plain attributes that must not become config values); meta = metaclass deriving from ConfigMeta with "
       "ConfigValue descriptors; core = pyroll.core.Config with the names of its class body), apply `ops` with os.environ "
       "controlled, read every value after every op "
       "(tokens: I=int B=bool S/P=text as code points, E<enum>#<member id> with the enum classes of ENUMS, L/T/D collections, "
       "O<i>=pool object, N=None, U<k>:<value>=instance of the user-defined class SUBS[k], C<class>:<name>=the descriptor; "
       "value specs: `sub`=k means the default is an instance of SUBS[k]; op update_todict = C.update(C.to_dict())). "
       "./check C20 --replay <this file> re-runs it.")


def report(ctx, case, problems):
    seen = ctx.notes.setdefault("_reported", set())     # shrink the first case of every key only
    for (key, what, i) in problems:
        ctx.count("violation:" + key)
        if key in seen:
            continue
        seen.add(key)
        small = shrink(case, key)
        ps = [(k, w) for (k, w, _) in problems_of(small) if k == key]
        ctx.violation(key, ps[0][1] if ps else what, {"case": small, "readable": readable(small), "problem": ps[:3] or what,
                                                      "how": HOW})


def type_label(v):
    """the class of the default, as one would write it"""
    if v["kind"] == "enum":
        name, base, _ = ENUMS[v["enum"]]
        return "enum " + name + {"real": "(Enum) of pyroll", "Enum": "(Enum)", "IntEnum": "(IntEnum)", "IntMix": "(int, Enum)",
                                 "StrMix": "(str, Enum)", "StrEnum": "(StrEnum)", "IntFlag": "(IntFlag)"}[base]
    if v.get("sub") is not None:
        cls, kind, parent, arity = SUBS[v["sub"]]
        return f"{cls.__name__}({'NamedTuple' if arity else ', '.join(b.__name__ for b in cls.__bases__)})"
    return v["kind"]


def readable(case):
    out = []
    for ci, c in enumerate(case["classes"]):
        out.append(f"class {ci}: style={c['style']} prefix={c['prefix']!r} values=" + ", ".join(
            f"{v['name']}:{type_label(v)}={v['default']}" + (f" parser#{v['parser']}" if v.get("parser") is not None else "")
            + (f" env_var={v['override']}" if v.get("override") else "") for v in c["values"])
                   + (" | plain attributes: " + ", ".join(f"{n}={val!r}" for n, val in c["extras"]) if c.get("extras") else ""))
    for op in case["ops"]:
        out.append(" ".join(json.dumps(x) if not isinstance(x, str) else repr(x) for x in op))
    return out


# the classes `ConfigValue.parse` dispatches on, in the order the model's `lattice` line lists them
DISPATCH_CLASSES = [("bool", bool), ("int", int), ("path", pathlib.Path), ("str", str), ("enum", enum.Enum),
                    ("mapping", collections.abc.Mapping), ("iterable", collections.abc.Iterable)]


# ---------------------------------------------------------------------------------------------------------------------
# direct parse stream
# ---------------------------------------------------------------------------------------------------------------------
def parse_stream(ctx, n):
    """-> (lines, impl_out, world) ; oracle problems reported on the way"""
    _init_enum_members()
    rng = ctx.rng
    case = {"classes": [], "pool": POOL, "enums": list(range(len(ENUMS)))}
    world = World(case)
    lines, out = [], []
    try:
        CV = api("ConfigValue")
    except ImplBroken as e:
        ctx.violation(e.key, e.what, {"how": "from pyroll.core.config import ConfigValue"})
        n, CV = 0, None
    for _ in range(n):
        kind = rng.choice(KINDS)
        v = {"name": "X", "kind": kind}
        rnd_type(rng, v)
        if rng.random() < 0.1:
            v["parser"] = rng.randrange(len(PARSERS))
        v["default"] = rnd_value_token(rng, kind, v.get("enum"), sub=v.get("sub"))
        text = clean_env_text(env_text(rng, v))
        try:
            cv = impl_call(f"ConfigValue({world.value(v['default'])!r}, parser=…)", CV, world.value(v["default"]),
                           parser=PARSERS[v["parser"]] if v.get("parser") is not None else None)
        except ImplBroken as e:
            ctx.violation(e.key, e.what, {"parse": {"value": v, "text": text}, "problem": e.what,
                                          "how": "pyroll.core.config.ConfigValue(<default of that kind>, parser=PARSERS[i] "
                                                 "if given)"})
            break
        got, exc = None, None
        try:
            got = cv.parse(text)
        except Exception as e:
            exc = e
        lines.append(f"parse {ty_token(world, v)} {'-' if v.get('parser') is None else v['parser']} {enc_text(text)}")
        out.append("ok " + world.token(got) if exc is None else "err " + err_name(exc))
        exp = expect_parse(world, v, text)
        bad = judge(world, exp, got, exc)
        ctx.case(["parse", kind, v.get("enum"), v.get("sub"), v.get("parser"), text], nontrivial=exp[0] != "free" and text != "")
        ctx.count("parse:" + kind_key(v))
        ctx.count("parse-expect:" + exp[0])
        if exc is not None:
            ctx.count("parse-err:" + err_name(exc))
        if bad:
            key = (f"parse-{kind_key(v)}-unparseable-not-raised" if exp[0] == "raises"
                   else f"parse-{kind_key(v)}" + variant_key(world, v, text))
            ctx.violation(key, f"ConfigValue({world.value(v['default'])!r}).parse({text!r}): {bad}",
                          {"parse": {"value": v, "text": text}, "problem": bad,
                           "how": "pyroll.core.config.ConfigValue(<default of that kind>, parser=PARSERS[i] if given)"
                                  ".parse(text); ./check C20 --replay <this file>"})
    # the type lattice of the model (`Ty.exact`, `Ty.supers`) against CPython's class relations, for every type the generators use
    shapes = [{"kind": k} for k in ("bool", "int", "float", "str", "path", "list", "tuple", "dict", "none")]
    shapes += [{"kind": "enum", "enum": i} for i in range(len(ENUMS))]
    shapes += [{"kind": kind, "sub": k} for k, (_, kind, _, _) in enumerate(SUBS)]
    tests = (ctx.notes.get("translated") or {}).get("parseTests")      # the tests of the source as the translator read them
    dispatch = dict(DISPATCH_CLASSES)
    for v in shapes:
        T = type_of(world, v)
        lines.append("lattice " + ty_token(world, v))
        out.append(next((n for n, D in DISPATCH_CLASSES if T is D), "none") + " "
                   + ",".join(n for n, D in DISPATCH_CLASSES if issubclass(T, D)))
        if tests:       # which `if` of parse CPython's own `is` / `issubclass` select for this type (no custom parser)
            hit = next((i for i, (b, kind, _) in enumerate(tests) if b != "custom" and
                        ((T is dispatch[b]) if kind == "identity" else issubclass(T, dispatch[b]))), None)
            lines.append("select " + ty_token(world, v))
            out.append("none" if hit is None else f"{hit} {tests[hit][0]}")
    # the text forms used by the theorems: str(int) and ','.join
    for _ in range(max(20, n // 10)):
        k = rng.choice([0, 1, -1, 9, 10, -10, 99, 100, 12345678901234567890, rng.randrange(-10 ** 9, 10 ** 9)])
        lines.append(f"render {k}")
        out.append(enc_text(str(k)))
        items = [rnd_item(rng) for _ in range(rng.randrange(0, 4))]
        lines.append("join L" + ",".join(enc_text(x) for x in items))
        out.append(enc_text(",".join(items)))
        t = rng.choice([render_text(rng, {"kind": "int"}), bad_text(rng, {"kind": "int"}), rnd_text(rng)])
        t = t.replace("١", "")
        lines.append("pyint " + enc_text(t))
        try:
            out.append(f"I{int(t)}")
        except ValueError:
            out.append("none")
    # the model's `str.isupper` (name test of the decorator) against CPython's: every code point of the table's range, names
    for t in [chr(i) for i in range(1, 256)] + ["".join(rng.choice(NAME_ALPHABET) for _ in range(rng.randrange(0, 6)))
                                                 for _ in range(max(50, n // 20))]:
        lines.append("isupper " + enc_text(t))
        out.append("1" if t.isupper() else "0")
    return lines, out, world


# ---------------------------------------------------------------------------------------------------------------------
def compare(ctx, label, lines, impl, model, world, case=None):
    if len(model) != len(impl):
        ctx.disagreement(f"{label}: model produced {len(model)} lines for {len(impl)} inputs", {"lines": lines[:5]})
        return False
    for i, (a, b) in enumerate(zip(impl, model)):
        if a != world.canon_model(b):
            ctx.disagreement(f"{label}: model and implementation differ at `{lines[i]}`: impl {a!r} model {b!r}",
                             {"line": lines[i], "impl": a, "model": b, "upto": lines[max(0, i - 12):i + 1],
                              "case": readable(case) if case else None})
            return False
    return True


def run(ctx):
    rng = ctx.rng
    n_hist = ctx.budget(600, 6000)
    n_parse = ctx.budget(5000, 50000)
    max_ops = 16 if ctx.tier == "quick" else 24
    cases = [json.loads(json.dumps(c)) for c in CORPUS]
    cspec, why = core_class_spec()
    if cspec is None:
        ctx.tie_breaks.append(f"core Config: {why} - its values are not exercised")
    elif cspec["skipped"]:
        ctx.notes["core_values_not_exercised"] = cspec["skipped"]
    for k in range(n_hist):
        cases.append(gen_case(rng, rng.randrange(4, max_ops), with_core=(k % 5 == 0)))
    all_lines, segments = [], []
    for ci, case in enumerate(cases):
        lines, out, problems, world = exec_case(case)
        segments.append((case, lines, out, world))
        all_lines += lines
        ops = [o[0] for o in case["ops"]]
        nontriv = any(o in ("setenv", "unsetenv") for o in ops) and \
            any(o in ("assign", "delete", "update", "update_todict") for o in ops)
        ctx.case(case, nontriv)
        for o in ops:
            ctx.count("op:" + o)
        for c in case["classes"]:
            ctx.count("class:" + c["style"])
            for v in c["values"]:
                ctx.count("value:" + kind_key(v))
        for line in out:
            if line.startswith("err "):
                ctx.count("err:" + line[4:])
        ctx.count("stream:" + ("corpus" if ci < len(CORPUS) else "random"))
        if ci >= len(CORPUS) and nontriv:
            ctx.sample({"case": readable(case)[:14]}, limit=2)
        if problems:
            report(ctx, case, problems)
    p_lines, p_out, p_world = parse_stream(ctx, n_parse)
    if getattr(ctx, "model_available", True):
        model = ctx.lean_model(MODEL, all_lines + p_lines)
        pos = 0
        for (case, lines, out, world) in segments:
            if compare(ctx, "history", lines, out, model[pos:pos + len(lines)], world, case):
                ctx.validated()
            pos += len(lines)
        if compare(ctx, "parse", p_lines, p_out, model[pos:pos + len(p_lines)], p_world):
            ctx.validated()
        if pos + len(p_lines) != len(model):
            ctx.disagreement("model output length mismatch", {"expected": pos + len(p_lines), "got": len(model)})
    ctx.notes.pop("_reported", None)


def replay(ctx, data):
    r = data.get("replay", data)
    _init_enum_members()
    if "case" in r:
        for (key, what, i) in problems_of(r["case"]):
            ctx.violation(key, what, r)
    elif "parse" in r:
        v, text = r["parse"]["value"], r["parse"]["text"]
        world = World({"classes": [], "pool": POOL, "enums": list(range(len(ENUMS)))})
        try:
            cv = impl_call("ConfigValue(…)", api("ConfigValue"), world.value(v["default"]),
                           parser=PARSERS[v["parser"]] if v.get("parser") is not None else None)
        except ImplBroken as e:
            ctx.violation(e.key, e.what, r)
            return
        got, exc = None, None
        try:
            got = cv.parse(text)
        except Exception as e:
            exc = e
        bad = judge(world, expect_parse(world, v, text), got, exc)
        if bad:
            ctx.violation(data.get("key", "replay"), bad, r)
