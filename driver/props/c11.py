"""C11 - results are independent of the unit of length (dimensional homogeneity).

Tie: T - `translate` re-reads EVERY hook implementation of the anchored hookimpls files (and of the remaining ones), the
groove junction chain, the solver residuals / closed forms / brackets / start values, every numeric comparison /
`np.isclose` and every geometry-call argument of the anchored files out of /repo's working tree
(driver/translate/c11_dims.py) and emits them, with the DECLARED dimension table `DIMS` of that module as `Γ`, to
lean/PyrollModel/Gen/C11*.lean together with one kernel-evaluated certificate `Expr.dim Γ e = .is d` per term.  The theorems of
lean/PyrollProps/C11.lean instantiate the homogeneity metatheorem over the generated tables; terms that are not homogeneous
land in the table `inhomogeneous`, which is pinned both here (EXPECTED_INHOMOGENEOUS) and by theorem `inhomogeneous_accepted`.
+ K - (a) every generated term is evaluated over Float by the Lean driver and compared with the python code it came from
(hook functions on stub objects driven into each alternative, the junction chain / contour functions on real groove
objects, the residuals at the roots the real solvers return, `np.isclose`); (b) the two-run relation on REAL objects.

Oracle (from the property statement, with the same declared Γ): build the same groove / profile / sequence twice, once as
described and once with every length input multiplied by k; every numeric value of the scaled run divided by k^d must
equal the unscaled run (d = declared dimension of the hook / attribute), geometry objects vertex by vertex, classifiers,
iteration counts and vertex counts must be equal.  Hooks without a declared dimension are reported, never skipped silently.
End-to-end homogeneity of solved sequences is validated by sampling only (partial).
The relation is between two EXECUTIONS: a parameter study (several near-identical grooves built one after the other), a
second solve on used objects and the values readable before solve are executions too, and are compared member by member.
Besides the formulas, T checks what it silently assumes of the files it reads (driver/translate/c11_dims.structure_items):
no wrapping decorators other than pass-through wrappers (the decorator's definition is read: checks that can only raise,
then `return func(*args, **kwargs)`, no state, every comparison of the wrapper a certified decision), no module-level
state, every module-level number a declared quantity; counts (`sum` of truth values, `len`) are pure numbers; accepted inhomogeneous items
are pinned WITH their translated term (EXPECTED_TERMS, theorem C11.inhomogeneous_terms_pinned).
"""
import math
import os

from ..translate import c11_dims, pyexpr
from ..translate import groove as groove_tr
from .. import stub

ID = "C11"
LEAN_MODULES = ["PyrollProps.C11"]
MODEL = "c11"
MODEL_MODULES = ["PyrollModel.Gen.C11", "PyrollModel.EvalDriver"]
RULE = ("(a) every generated term x random positive environments: Lean Float evaluation vs the python code (hook function on "
        "a stub satisfying the alternative's path condition; junction chain and contour functions on real grooves of every "
        "class; residuals at the root the real solver returns; np.isclose); (b) two-run relation: grooves of every class x "
        "parameter sets x real size x k over 6 decades, profile factories x k over 6 decades, solved sequences of <= 5 units "
        "(two-/three-roll passes, transports by duration and by length, rotators) described in m / dm / inch / cm / mm and "
        "compared pairwise (k in {1e-3, 1e-2, 1/25.4, 1/39.37, 10, 25.4, 39.37, 100, 1e3}); velocity loops in m/s vs mm/s; "
        "corpus of past findings first; finely sampled tangent-continuous spline contours (CAD style, 0.25 - 5 degree per "
        "segment) of thin-wire to bloom size, as grooves and inside passes; parameter studies (2-4 near-identical parameter "
        "sets of one class built one after the other in one process, per description); the sequence layouts for products "
        "of 1 mm .. 300 mm (range ends first) with explicit drives (surface / working / stock velocity, nominal diameter); "
        "sizing stands taking 0.03 % .. 3 % off the height; every fourth sequence solved twice on the used objects; every "
        "hook readable BEFORE solve compared on separately built objects. "
        "non-trivial = the pair has k != 1 and the objects could be built in both descriptions; distinct by rounded spec.")
ASSUMPTIONS = [
    "IEEE rounding: the scaling laws are theorems over the reals; on floats the two-run relation is checked with rtol 1e-9 "
    "(closed-form geometry and solved sequences; measured deviation <= 3e-14), 1e-6 (geometry behind scipy root finders: "
    "their xtol), 1e-9 + 50e-9 / smallest feature for the quantities hanging on the absolute contact buffer 1e-9",
    "scipy root_scalar/root/fixed_point return a root of the translated residual (in the bracket) or raise; shapely/GEOS "
    "operations commute with uniform scaling - both are parameters: end-to-end homogeneity is sampled, not proved (partial)",
    "the dimension table (driver/translate/c11_dims.py DIMS) is a declaration: densities, heat capacities, conductivities, "
    "temperatures, stresses, times and frequencies are held fixed, so mass flux scales like volume flux",
]
TRUSTED_EXTRA = ["declared dimension table DIMS / CALL_SIGS in driver/translate/c11_dims.py (shared by translator and oracle)"]

# ---- pinned expectations about the translation of the PRISTINE tree ---------------------------------------------------
# items that are not homogeneous of the declared degree (also pinned by theorem C11.inhomogeneous_accepted)
EXPECTED_INHOMOGENEOUS = {
    "profile/hookimpls.py:astm_grain_size_number#alt0":
        "unit-bound by design: converts a grain size in METRES to inches (0.0254) and takes a logarithm",
    "roll_pass/hookimpls/base_roll_pass.py:contact_contour_lines:arg:buffer#1": "absolute contact buffer 1e-9",
    "grooves/generic_elongation.py:GenericElongationGroove.__init__:isclose#1": "np.isclose(depth, 0): absolute 1e-8",
    "grooves/generic_elongation.py:GenericElongationGroove.__init__:isclose#2": "np.isclose(depth, 0): absolute 1e-8",
    "grooves/generic_elongation.py:GenericElongationGroove._enumerate_contour_points:isclose#1": "junction test z1~z3",
    "grooves/generic_elongation.py:GenericElongationGroove._enumerate_contour_points:isclose#2": "junction test z3~z4",
    "grooves/generic_elongation.py:GenericElongationGroove._enumerate_contour_points:isclose#3": "junction test z4~z5",
    "grooves/generic_elongation.py:GenericElongationGroove._enumerate_contour_points:isclose#4": "junction test z5~z6",
    "grooves/generic_elongation.py:GenericElongationGroove._enumerate_contour_points:isclose#5": "junction test z6~z7",
    "sequence/sequence.py:PassSequence.solve_velocities_backward:cmp#1": "absolute stop test 0.01 on velocities",
    "sequence/sequence.py:PassSequence.solve_velocities_forward:cmp#1": "absolute stop test 0.01 on velocities",
}
# (the chord buffers of Profile.local_width / local_height are relative since /repo 9e95dfa: certified `arg` items, required)
# Exceptions that exist only in the source form BEFORE the repair of a listed finding has landed in /repo (twin of
# `C11.acceptedPendingRepair`).  EMPTY: the repair of `tworun-spline-face-thin-fillet` is in /repo (53b0ef0); the three
# absolute face tests of SplineGroove it used to hold (RETIRED_SPLINE_FACE_TESTS, twin of `C11.retiredSplineFaceTests`) are
# reported like every other new absolute tolerance when they come back (revert of the repair, seeded change C11-2), and the
# corpus case c11_finding_spline_thin_wire.json replays the effect.  The relative face test SPLINE_FACE_KEY must be a
# certified decision with the term SPLINE_FACE_TERM (`_spline_face_form`, twin of theorem `C11.spline_face_test_form`).
PENDING_REPAIR = {}
EXPECTED_INHOMOGENEOUS.update(PENDING_REPAIR)
RETIRED_SPLINE_FACE_TESTS = {
    "grooves/spline.py:SplineGroove.__init__:isclose#1": "np.isclose(first y, 0): absolute 1e-8 (acceptance of the contour)",
    "grooves/spline.py:SplineGroove.__init__:isclose#2": "np.isclose(last y, 0): absolute 1e-8 (acceptance of the contour)",
    "grooves/spline.py:SplineGroove.__init__:isclose#3":
        "np.isclose(y, 0) strips the face runs: absolute 1e-8 - a vertex less than 1e-8 above the face is a face vertex "
        "(bites for finely sampled fillets of thin-wire grooves described in metres: see notes/C11.md, finding 2)",
}
SPLINE_FACE_KEY = "grooves/spline.py:SplineGroove.__init__:cmp#3"
SPLINE_FACE_TERM = '(.sub (.abs (.var "contour_points")) (.mul (.dec 1 9) (.var "contour_points")))'
# the accepted items are accepted WITH THEIR VALUE: the translated term (Lean syntax) of each; a changed literal
# (1e-9 -> 1e-6, atol=...) keeps the key but not the term.  Also pinned by theorem C11.inhomogeneous_terms_pinned.
_ISCLOSE0 = '(.sub (.abs (.sub (.var "%s") (.nat 0))) (.add (.dec 1 8) (.mul (.dec 1 5) (.abs (.nat 0)))))'
_ISCLOSE = '(.sub (.abs (.sub (.var "%s") (.var "%s"))) (.add (.dec 1 8) (.mul (.dec 1 5) (.abs (.var "%s")))))'
_STOP = '(.sub (.abs (.sub (.var "prior_velocities") (.var "current_velocities"))) (.dec 1 2))'
EXPECTED_TERMS = {
    "profile/hookimpls.py:astm_grain_size_number#alt0":
        '(.add (.nat 1) (.div (.log (.div (.div (.nat 1) (.mul .pi (.pow (.div (.div (.var "grain_size") (.dec 254 4)) '
        '(.nat 2)) 2))) (.pow (.nat 100) 2))) (.log (.nat 2))))',
    "roll_pass/hookimpls/base_roll_pass.py:contact_contour_lines:arg:buffer#1": "(.dec 1 9)",
    "grooves/generic_elongation.py:GenericElongationGroove.__init__:isclose#1": _ISCLOSE0 % "depth",
    "grooves/generic_elongation.py:GenericElongationGroove.__init__:isclose#2": _ISCLOSE0 % "depth",
    "grooves/generic_elongation.py:GenericElongationGroove._enumerate_contour_points:isclose#1": _ISCLOSE % ("z1", "z3", "z3"),
    "grooves/generic_elongation.py:GenericElongationGroove._enumerate_contour_points:isclose#2": _ISCLOSE % ("z3", "z4", "z4"),
    "grooves/generic_elongation.py:GenericElongationGroove._enumerate_contour_points:isclose#3": _ISCLOSE % ("z4", "z5", "z5"),
    "grooves/generic_elongation.py:GenericElongationGroove._enumerate_contour_points:isclose#4": _ISCLOSE % ("z5", "z6", "z6"),
    "grooves/generic_elongation.py:GenericElongationGroove._enumerate_contour_points:isclose#5": _ISCLOSE % ("z6", "z7", "z7"),
    "sequence/sequence.py:PassSequence.solve_velocities_backward:cmp#1": _STOP,
    "sequence/sequence.py:PassSequence.solve_velocities_forward:cmp#1": _STOP,
}
# the absolute tolerance on a COORDINATE of numpy's np.isclose default (accepted for the junction tests of the generic
# groove): spline contours whose vertices come closer than twice this to the face line in the smaller description form
# an input regime of their own (`_groove_regime`) - there C11.isclose_scale_stable does not protect a decision
ACCEPTED_COORDINATE_ATOL = 1e-8


def _load_corpus():
    """past failures, run first (driver/props/c11_finding_*.json: replay objects of findings 2 and 3 of notes/C11.md)"""
    import glob
    import json
    out = []
    for f in sorted(glob.glob(os.path.join(os.path.dirname(__file__), "c11_finding_*.json"))):
        out.append(json.load(open(f))["replay"])
    return out


CORPUS = _load_corpus()
# hook-implementation alternatives outside the translatable subset (array construction, loops, try/except)
EXPECTED_OPAQUE = {
    "roll/hookimpls.py:surface_x#alt0": "np.linspace / np.concatenate array construction (checked by the two-run oracle)",
    "roll/hookimpls.py:surface_x#alt1": "np.linspace / np.concatenate array construction (checked by the two-run oracle)",
    "roll_pass/hookimpls/base_roll_pass.py:detect_already_rotated#alt0": "try/except walk over the unit list (no numbers)",
    "roll_pass/hookimpls/deformation_unit.py:contact_contour_angles#alt0":
        "nested function over the coordinate arrays of the contact lines (arctan2 of coordinate differences)",
    "disk_elements/hookimpls.py:in_x#alt0": "try/except IndexError",
    "transport/hookimpls/transport.py:length_from_roll_pass_positions#alt1": "while loops over the unit list",
}
# comparisons that are not about quantities (indices, labels, counts)
IGNORED_DECISIONS = {
    "unit/unit.py:Unit.prev:cmp#1": "list index",
    "unit/unit.py:Unit.next:cmp#1": "list index",
    "sequence/sequence.py:PassSequence.__getitem__:cmp#1": "label comparison",
    "grooves/spline.py:SplineGroove.__init__:cmp#1": "rank of the coordinate array",
    "grooves/spline.py:SplineGroove.__init__:cmp#2": "shape of the coordinate array",
}

UNITS = {"m": 1.0, "dm": 10.0, "inch": 1 / 0.0254, "cm": 100.0, "mm": 1000.0}


# =====================================================================================================================
# (T)
# =====================================================================================================================
def _required_keys():
    """hook formulas of the anchored files on the pristine tree: `./check` complains when one of them is no longer
    translated (function removed, renamed, or moved outside the subset)"""
    path = os.path.join(os.path.dirname(__file__), "c11_required.txt")
    if not os.path.exists(path):
        return None
    return [ln.strip() for ln in open(path) if ln.strip() and not ln.startswith("#")]


def translate(ctx):
    data = c11_dims.collect()
    c11_dims.emit(ctx, data)
    ctx.c11 = data
    _report(ctx, data)


def _report(ctx, data):
    items = data["items"]
    for g in data["gaps"]:
        ctx.tie_breaks.append("translator: " + g)
    bad = [it for it in items if not it.ok]
    table = []
    for it in bad:
        table.append({"key": it.key, "where": it.src, "kind": it.kind, "what": it.note,
                      "declared": it.want, "certificate": c11_dims.lean_dim(it.got),
                      "accepted_because": EXPECTED_INHOMOGENEOUS.get(it.key)})
        if it.key not in EXPECTED_INHOMOGENEOUS:
            ctx.tie_breaks.append(
                f"not dimensionally homogeneous: {it.kind} {it.key} at {it.src} ({it.note}): declared L^{it.want}, "
                f"certificate {c11_dims.lean_dim(it.got)}"
                + (f"; variables without a declared dimension: {it.undeclared}" if it.undeclared else ""))
        elif pyexpr.lean_expr(it.expr) != EXPECTED_TERMS.get(it.key):
            ctx.tie_breaks.append(
                f"accepted inhomogeneous item {it.key} at {it.src} ({it.note}) changed its VALUE: translated term "
                f"{pyexpr.lean_expr(it.expr)} instead of the accepted {EXPECTED_TERMS.get(it.key)}")
    ctx.notes["inhomogeneous"] = table
    gone = sorted(set(EXPECTED_INHOMOGENEOUS) - {it.key for it in bad})
    if gone:
        ctx.notes["inhomogeneous_items_no_longer_present"] = gone      # a repair in the source: not a tie break
    n_gap = 0
    opq = []
    for (key, src, why, anchored, hook) in data["hook_opaque"]:
        opq.append({"key": key, "where": src, "hook": hook, "why": why, "anchored": anchored,
                    "accepted_because": EXPECTED_OPAQUE.get(key)})
        if key in EXPECTED_OPAQUE:
            n_gap += 1
        elif anchored:
            ctx.tie_breaks.append(f"translator: alternative {key} ({hook}, {src}) left the translatable subset: {why}")
        else:
            n_gap += 1
    ctx.notes["untranslated_hook_alternatives"] = opq
    ctx.notes["translator_gaps_counted"] = n_gap
    ctx.notes["hooks_without_numeric_value"] = [h for (_, _, h, _) in data["nonnumeric_hooks"]]
    for it in data["undeclared"]:
        if it.key in IGNORED_DECISIONS:
            continue
        msg = (f"{it.kind} {it.key} at {it.src} ({it.note}) reads {it.undeclared}, which have no declared dimension")
        if it.anchored:
            ctx.tie_breaks.append("translator: " + msg)
        else:
            ctx.count("gap:undeclared-variable")
    for (key, src, why) in data["skipped"]:
        if key in IGNORED_DECISIONS:
            continue
        ctx.tie_breaks.append(f"translator: decision {key} at {src} is outside the translatable subset: {why}")
    ctx.notes["opaque_brackets"] = [f"{a}: `{b}`" for a, b in data["opaque_brackets"]]
    # what the translation assumes about the files it reads (no wrapping decorators, no state between calls, every
    # module-level number a declared quantity)
    for (key, src, text) in data.get("structure", []):
        ctx.tie_breaks.append(f"translator: {src}: {text}")
    # decorators that were read and found to be pass-through wrappers (c11_dims.passthrough_wrapper)
    ctx.notes["decorators_accepted_as_pass_through"] = data.get("decorators_accepted", [])
    ctx.notes["module_constants"] = [f"{rel}:{name} (L^{d})" for (rel, name, _, _, d) in data.get("constants", [])]
    req = _required_keys()
    if req is not None:
        have = {it.key for it in items if it.ok}
        # `accepted:<key>`: the item is present as an accepted inhomogeneous row with the accepted value
        have |= {"accepted:" + it.key for it in bad
                 if it.key in EXPECTED_INHOMOGENEOUS and pyexpr.lean_expr(it.expr) == EXPECTED_TERMS.get(it.key)}
        for k in req:
            # `a | b`: one of the alternatives (the two source forms around a pending repair; none at present)
            if not any(alt.strip() in have for alt in k.split(" | ")):
                ctx.tie_breaks.append(f"translator: required item {k} is no longer translated / certified")
    _spline_face_form(ctx, items, bad)
    kinds = {}
    for it in items:
        kinds[it.kind] = kinds.get(it.kind, 0) + 1
    ctx.notes["generated_items_by_kind"] = kinds
    ctx.notes["certified_items"] = sum(1 for it in items if it.ok)


def _spline_face_form(ctx, items, bad):
    """python-side twin of theorem C11.spline_face_test_form: the face test of SplineGroove is the repaired relative one (a
    certified decision with the pinned term) and none of the former absolute tests is back"""
    old = [it for it in bad if it.key in RETIRED_SPLINE_FACE_TESTS]
    face = [it for it in items if it.key == SPLINE_FACE_KEY and it.ok and it.kind == "decision"]
    repaired = bool(face) and pyexpr.lean_expr(face[0].expr) == SPLINE_FACE_TERM
    if repaired and not old:
        ctx.notes["spline_face_test"] = "relative (repaired source form, /repo 53b0ef0)"
    else:
        ctx.tie_breaks.append(
            "translator: the face test of SplineGroove.__init__ is not the repaired relative one (fixed finding "
            f"tworun-spline-face-thin-fillet): {len(old)} of the {len(RETIRED_SPLINE_FACE_TESTS)} former absolute tests "
            f"np.isclose(y, 0) present, relative test {SPLINE_FACE_KEY} "
            + (f"translated as {pyexpr.lean_expr(face[0].expr)}" if face else "not found / not certified"))


# =====================================================================================================================
# (K a) generated terms vs the python code they came from
# =====================================================================================================================
class _Stub:
    """flat environment {"a.b[1].c": value} presented as an object graph; supports has_* guards, constant subscripts,
    `x[:, i]` column reads, query methods (`local_width(z)` -> env["...local_width()"]) and isinstance(groove)"""

    def __init__(self, env, prefix="", present=None, set_=None, cached=None):
        d = object.__getattribute__(self, "__dict__")
        d.update(_env=env, _prefix=prefix, _present=present, _set=set_, _cached=cached)

    @property
    def __class__(self):
        if self._prefix.endswith("groove."):
            from pyroll.core import GenericElongationGroove
            return GenericElongationGroove
        return _Stub

    def _sub(self, full):
        return _Stub(self._env, full, self._present, self._set, self._cached)

    def __getattr__(self, name):
        if name.startswith("__"):
            raise AttributeError(name)
        full = self._prefix + name
        env = self._env
        if self._present is not None and self._present.get(full) is False:
            raise AttributeError(full)
        if full in env:
            return env[full]
        if full + "()" in env:
            v = env[full + "()"]
            return lambda *a, **k: v
        if any(k.startswith(full + "[:,") for k in env):
            return _Columns(env, full)
        if any(k.startswith(full + ".") or k.startswith(full + "[") for k in env):
            return self._sub(full + ".")
        raise AttributeError(full)

    def __getitem__(self, i):
        key = self._prefix[:-1] + f"[{i}]"
        if key in self._env:
            return self._env[key]
        if any(k.startswith(key + ".") for k in self._env):
            return self._sub(key + ".")
        raise IndexError(key)

    def has_value(self, name):
        try:
            getattr(self, name)
            return True
        except AttributeError:
            return False

    def has_set(self, name):
        full = self._prefix + name
        return bool((self._set or {}).get(full, False))

    def has_cached(self, name):
        full = self._prefix + name
        return bool((self._cached or {}).get(full, False))

    def has_set_or_cached(self, name):
        return self.has_set(name) or self.has_cached(name)


class _Columns:
    def __init__(self, env, full):
        self.env, self.full = env, full

    def __getitem__(self, idx):
        import numpy as np
        return np.float64(self.env[f"{self.full}[:,{idx[1]}]"])


class _Unsat(Exception):
    pass


def _drive(g, want, st):
    """make guard `g` evaluate to `want`: st = {"present", "cached", "set": {path: bool}, "sets": {path: {elem: bool}},
    "cycle": bool|None}"""
    k = g[0]

    def put(d, name, val):
        if d.setdefault(name, val) != val:
            raise _Unsat(name)
    if k == "tt":
        if not want:
            raise _Unsat("tt")
    elif k == "cycle":
        if st.setdefault("cycle", want) != want:
            raise _Unsat("cycle")
    elif k in ("hasValue", "hasCached", "hasSet"):
        full = (g[1] + "." if g[1] else "") + g[2]
        put(st[{"hasValue": "present", "hasCached": "cached", "hasSet": "set"}[k]], full, want)
        if want:
            put(st["present"], full, True)
    elif k == "hasSetOrCached":
        full = (g[1] + "." if g[1] else "") + g[2]
        put(st["cached"], full, want)
        if want:
            put(st["present"], full, True)
        else:
            put(st["set"], full, False)
    elif k == "inSet":
        put(st["sets"].setdefault(g[2], {}), g[1], want)
    elif k == "not":
        _drive(g[1], not want, st)
    elif k in ("and", "or"):
        if (k == "and") == want:
            _drive(g[1], want, st)
            _drive(g[2], want, st)
        else:
            for sub in (g[1], g[2]):
                trial = {"present": dict(st["present"]), "cached": dict(st["cached"]), "set": dict(st["set"]),
                         "sets": {a: dict(b) for a, b in st["sets"].items()}, "cycle": st.get("cycle")}
                if trial["cycle"] is None:
                    trial.pop("cycle")
                try:
                    _drive(sub, want, trial)
                except _Unsat:
                    continue
                st.clear()
                st.update(trial)
                return
            raise _Unsat(k)
    elif k == "opaque":
        if g[1].startswith("isinstance(") and want:
            return                       # the stub claims to be a GenericElongationGroove where one is asked for
        if g[1].startswith("isinstance("):
            raise _Unsat("isinstance")
        raise _Unsat("opaque guard " + g[1][:40])
    else:
        raise _Unsat("guard " + k)


def _needed_paths(impl):
    """maximal attribute paths rooted at the first parameter that the python function reads (beyond the formula's own
    variables: arguments of query calls, other vector components)"""
    import ast
    fn = impl.node
    self_name = fn.args.args[0].arg if fn.args.args else "self"
    paths = set()
    for n in ast.walk(fn):
        if isinstance(n, (ast.Attribute, ast.Subscript)):
            p = pyexpr.attr_path(n)
            if p and p[0] == self_name and len(p) > 1:
                paths.add(".".join(p[1:]))
    skip = ("has_value", "has_set", "has_cached", "has_set_or_cached", "classifiers") + tuple(c11_dims.QUERY_CALLS)
    maximal = [p for p in paths if not any(q != p and (q.startswith(p + ".") or q.startswith(p + "[")) for q in paths)]
    return sorted(p for p in maximal if p.rsplit(".", 1)[-1] not in skip)


def _sample(rng, var):
    """random positive value; arguments of arcsin/arccos style formulas stay in range because numerators are sampled
    smaller than denominators only by chance - out-of-range inputs give NaN on both sides, which also agree"""
    return math.exp(rng.uniform(-2, 2))


def _hook_correspondence(ctx, data, n_each):
    import importlib
    jobs, lines = [], []
    for it in data["items"]:
        if it.kind != "hook":
            continue
        impl = it.impl
        if getattr(impl, "geom_locals", False):
            ctx.count("formula-eval:skipped-geometry-local")
            continue
        modname = "pyroll.core." + impl.module[:-3].replace("/", ".")
        pyfn = getattr(importlib.import_module(modname), impl.fn, None)
        if pyfn is None:
            ctx.tie_breaks.append(f"correspondence: {modname}.{impl.fn} not importable")
            continue
        g = impl.alts[it.alt][0]
        st = {"present": {}, "cached": {}, "set": {}, "sets": {}}
        try:
            _drive(g, True, st)
        except _Unsat as ex:
            ctx.count("formula-eval:undrivable")
            ctx.notes.setdefault("undrivable_alternatives", []).append(f"{it.key}: {ex}")
            continue
        vs = sorted(set(pyexpr.expr_vars(it.expr)))
        if any(st["present"].get(v) is False for v in vs):
            ctx.count("formula-eval:needs-absent-attribute")
            continue
        for _ in range(n_each):
            env = {}
            for v in vs:
                if v.startswith("Config."):
                    from pyroll.core import Config
                    env[v] = float(getattr(Config, v[7:]))       # the function reads the real configuration
                else:
                    env[v] = _sample(ctx.rng, v)
            pyenv = dict(env)

            def covered(v):
                return v in pyenv or any(k.startswith(v + ".") or k.startswith(v + "[") for k in pyenv)
            for v, want in list(st["present"].items()):
                if want and not covered(v):
                    pyenv[v] = _sample(ctx.rng, v)
            for v in _needed_paths(impl):
                if not covered(v) and st["present"].get(v) is not False and not any(
                        v == q or v.startswith(q + ".") for q, w in st["present"].items() if w is False):
                    pyenv[v] = _sample(ctx.rng, v)
            for spath, elems in st["sets"].items():
                pyenv[spath] = {e for e, w in elems.items() if w}
            fn = getattr(pyfn, "function", pyfn)
            import inspect
            kw = {}
            if "cycle" in inspect.signature(fn).parameters:
                kw["cycle"] = bool(st.get("cycle", False))
            real = None
            for attempt in range(12):
                try:
                    real = fn(_Stub(pyenv, "", st["present"], st["set"], st["cached"]), **kw)
                    if real is not None:
                        import numpy as np
                        arr = np.asarray(real, dtype=float).ravel()
                        real = float(arr[getattr(it, "comp", 0)])
                    break
                except AttributeError as ex:
                    # the function reads something the FORMULA does not depend on (the argument of a query call, a
                    # vector component that is not this item's): supply it and try again
                    miss = str(ex)
                    if attempt < 11 and miss and " " not in miss and not covered(miss) and st["present"].get(miss) is not False:
                        pyenv[miss] = _sample(ctx.rng, miss)
                        continue
                    real = ("raised", f"{type(ex).__name__}: {ex}")
                    break
                except Exception as ex:
                    real = ("raised", f"{type(ex).__name__}: {ex}")
                    break
            lines.append(it.lean + " " + " ".join(f"{k}={stub.bits(v)}" for k, v in env.items()))
            jobs.append((it, env, real))
    out = ctx.lean_model(MODEL, lines) if lines else []
    validated = {}
    for (it, env, real), o in zip(jobs, out):
        ctx.count("formula-eval")
        rp = {"formula": it.lean, "key": it.key, "env": env, "python": real}
        if isinstance(real, tuple):
            ctx.count("formula-eval:python-raised")
            validated.setdefault(it.key, False)
            rp["python"] = real[1]
            ctx.notes.setdefault("python_raised_on_stub", {}).setdefault(it.key, real[1])
            continue
        try:
            lean = stub.unbits(o)
        except Exception:
            ctx.disagreement(f"generated term {it.lean}: model driver answered {o!r}", rp)
            continue
        if real is None:
            ctx.disagreement(f"alternative {it.key} is a formula in the translation but the python function returned None "
                             f"under its path condition", rp)
        elif stub.close(real, lean, rtol=1e-10):
            ctx.validated()
            validated[it.key] = True
        else:
            rp["lean_float"] = lean
            ctx.disagreement(f"generated term {it.lean} ({it.key}) evaluates differently from the python function", rp)
    never = sorted(k for k, v in validated.items() if not v)
    if never:
        ctx.notes["formulas_never_validated_against_python"] = never
        for k in never:
            ctx.tie_breaks.append(f"correspondence: the python function behind {k} raised on every stub environment")


# ---- real grooves -----------------------------------------------------------------------------------------------------
# (class name, length parameters in mm, angle / count parameters) - from the repo's own groove tests
GROOVES = [
    ("BoxGroove", dict(depth=52, r1=15, r2=18, usable_width=185.29, ground_width=157.62), {}),
    ("BoxGroove", dict(depth=52, r1=15, r2=18, ground_width=157.62), dict(flank_angle=75.101163, pad_angle=30)),
    ("BoxGroove", dict(depth=52, r1=15, r2=18, usable_width=185.29, even_ground_width=129.94570038), {}),
    ("BoxGroove", dict(r1=2, r2=2, depth=10, usable_width=20, ground_width=10), dict(pad_angle=45)),
    ("ConstrictedBoxGroove", dict(depth=52, r1=15, r2=18, r4=10, usable_width=185.29, ground_width=157.62, indent=10), {}),
    ("ConstrictedBoxGroove", dict(r1=5, r2=10, r4=5, usable_width=100, depth=20, indent=5), dict(flank_angle=85)),
    ("UpsetBoxGroove", dict(depth=30, r1=5, r2=3, usable_width=20), dict(flank_angle=80)),
    ("UpsetBoxGroove", dict(depth=30, r1=5, r2=3, usable_width=20, ground_width=9.42038116), {}),
    ("ConstrictedUpsetBoxGroove", dict(depth=30, r1=5, r2=3, usable_width=20, indent=0.5, r4=1), dict(flank_angle=80)),
    ("DiamondGroove", dict(r1=5, r2=8, usable_width=40, tip_depth=11.54700538), {}),
    ("DiamondGroove", dict(r1=5, r2=8, usable_width=40), dict(tip_angle=120, pad_angle=30)),
    ("DiamondGroove", dict(r1=5, r2=8, tip_depth=11.54700538), dict(tip_angle=120)),
    ("SquareGroove", dict(r1=5, r2=3, usable_width=30, tip_depth=14.74045895), {}),
    ("SquareGroove", dict(r1=5, r2=3, tip_depth=14.74045895), dict(tip_angle=91)),
    ("GothicGroove", dict(depth=20, r1=3, r2=40, r3=2, usable_width=40), {}),
    ("CircularOvalGroove", dict(depth=5.05, r1=7, r2=33), {}),
    ("CircularOvalGroove", dict(depth=5.05, usable_width=35.27599946, r1=7), {}),
    ("CircularOvalGroove", dict(usable_width=35.27599946, r1=7, r2=33), dict(pad_angle=30)),
    ("CircularOvalGroove", dict(depth=8, r1=6, r2=40), {}),
    ("FlatOvalGroove", dict(depth=20, r1=5, r2=20, usable_width=60), {}),
    ("FlatOvalGroove", dict(depth=20, r1=5, r2=20, even_ground_width=19.17517096), {}),
    ("SwedishOvalGroove", dict(depth=20, r1=8, r2=10, usable_width=100, ground_width=40), {}),
    ("SwedishOvalGroove", dict(depth=7.66025404, r1=3, r2=1, usable_width=18.84529946), dict(flank_angle=60)),
    ("ConstrictedSwedishOvalGroove", dict(depth=18, r1=5, r2=10, r4=5, usable_width=78, ground_width=60, indent=3), {}),
    ("Oval3RadiiGroove", dict(depth=28.5, r1=10, r2=30, r3=170, usable_width=124.61815966), {}),
    ("Oval3RadiiFlankedGroove", dict(depth=30, r1=5, r2=20, r3=120, usable_width=100), dict(flank_angle=60)),
    ("UpsetOvalGroove", dict(depth=23.3303, r1=3, r2=30, r3=5, usable_width=26.2495), {}),
    ("ConstrictedCircularOvalGroove", dict(depth=16, r1=5, r2=30, r3=5, r4=10, indent=10, usable_width=93.34444328), {}),
    ("ConstrictedCircularOvalGroove", dict(depth=17, r1=3, r2=30, r3=5, r4=20, indent=3, usable_width=56.70672071), {}),
    ("RoundGroove", dict(depth=15.55, r1=2, r2=15.8), {}),
    ("RoundGroove", dict(depth=15.55, usable_width=31.79180677, r1=2), dict(pad_angle=30)),
    ("RoundGroove", dict(r1=1, r2=12.5, depth=11.5), {}),
    ("FalseRoundGroove", dict(depth=31.8646, r1=5, r2=38), dict(flank_angle=65)),
    ("FalseRoundGroove", dict(depth=31.8646, r1=5, r2=38, flank_width=3.2814933761920244), {}),
    ("FalseRoundGroove", dict(usable_width=78.13476937, r1=5, r2=38, flank_height=7.037185254850074), {}),
    ("FalseRoundGroove", dict(depth=31.8646, usable_width=78.13476937, r1=5, flank_length=7.764654), {}),
    ("FlatGroove", dict(usable_width=100), {}),
    ("FlatGroove", dict(usable_width=100, r1=20), dict(pad_angle=30)),
    ("HexagonalGroove", dict(r1=2, r2=3, depth=10, usable_width=30), dict(flank_angle=60)),
    ("HexagonalGroove", dict(r1=2, r2=3, depth=10, usable_width=30, ground_width=20), {}),
    ("EquivalentRibbedGroove", dict(r1=0.2, r3=3.45, rib_distance=8.4, rib_width=1.6, base_body_height=11.78,
                                    nominal_outer_diameter=14, usable_width=13.6788, depth=5.5091), dict(rib_angle=45)),
    ("GenericElongationGroove", dict(r1=3, r2=6, usable_width=40, depth=12), dict(flank_angle=1.0)),
    ("GenericElongationGroove", dict(r1=3, r2=6, usable_width=40, ground_width=24.5), dict(flank_angle=1.0, pad_angle=0.3)),
    ("GenericElongationGroove", dict(r1=2, r2=5, usable_width=50, depth=15, r4=3, indent=1, even_ground_width=4),
     dict(flank_angle=1.2, alpha4=0.4)),
]
# which numeric precision the construction of a class goes through: closed forms only / scipy root finders
_CLOSED_FORM = {"FlatGroove", "GenericElongationGroove", "EquivalentRibbedGroove", "SplineGroove"}


# SplineGroove (not built on the junction chain): only in the two-run oracle
SPLINES = [
    ("SplineGroove", dict(points=[(-25, 0), (-20, 0), (-12, 7), (-4, 10), (4, 10), (12, 7), (20, 0), (25, 0)]),
     dict(classifiers=["spline", "oval"])),
    ("SplineGroove", dict(points=[(-16, 0), (-14, 0), (-10, 6), (0, 9.5), (10, 6), (14, 0), (16, 0)], usable_width=28),
     dict(classifiers=["spline"])),
]


# SplineGroove given the way a CAD export gives it: a tangent-continuous contour of straight lines and circular arcs,
# every arc discretised in equal steps of at most `step_deg` degrees (SplineGroove.from_dxf_drawing: 0.5 degree per
# segment by default).  Where the contour leaves the face TANGENTIALLY (a fillet), its first vertices rise above the face
# by only r (1 - cos(step)), r (1 - cos(2 step)), ... - the inputs on which an absolute tolerance on coordinates shows.
# `path`: the right half from the groove centre outwards, [("line", length) | ("arc", radius, turn in degrees)], positive
# turn = towards the face; lengths in mm.  The path must end heading along the face (sum of turns 0); `face` = length
# of the face run appended.
SAMPLED_SPLINES = [
    # circular oval: main arc r2, fillet r1
    ("oval", dict(path=[("arc", 40.0, 34.3), ("arc", 6.0, -34.3)], face=5.0, step_deg=0.5), ["spline", "oval"]),
    ("oval-small-fillet", dict(path=[("arc", 33.0, 28.0), ("arc", 3.0, -28.0)], face=3.0, step_deg=0.5), ["spline", "oval"]),
    # box: flat ground, bottom radius, straight flank, fillet
    ("box", dict(path=[("line", 30.0), ("arc", 12.0, 78.0), ("line", 25.0), ("arc", 10.0, -78.0)], face=8.0, step_deg=1.0),
     ["spline", "box"]),
    # false round / flanked: arc, flank, fillet
    ("flanked", dict(path=[("arc", 19.0, 60.0), ("line", 6.0), ("arc", 4.0, -60.0)], face=4.0, step_deg=0.5),
     ["spline", "round"]),
    # three radii
    ("three-radii", dict(path=[("arc", 120.0, 8.0), ("arc", 25.0, 40.0), ("arc", 8.0, -48.0)], face=6.0, step_deg=0.25),
     ["spline", "oval"]),
    # corner type (no fillet): the control - nothing is near the face
    ("corner", dict(path=[("line", 5.0), ("arc", 10.0, 45.0), ("line", 12.0)], face=5.0, step_deg=2.0, corner=-45.0),
     ["spline", "diamond"]),
]


def _sample_contour(p):
    """-> list of (z, y) in the units of `p`, z ascending, face runs at both ends at y = 0 exactly"""
    z, y, th = 0.0, 0.0, 0.0          # start at the groove centre (deepest point), heading outwards; y measured downwards
    pts = [(z, y)]
    for el in p["path"]:
        if el[0] == "line":
            z, y = z + el[1] * math.cos(th), y + el[1] * math.sin(th)
            pts.append((z, y))
        else:
            _, r, turn = el
            n = max(1, int(math.ceil(abs(turn) / p["step_deg"] - 1e-9)))
            sgn = 1.0 if turn > 0 else -1.0
            cz, cy = z - sgn * r * math.sin(th), y + sgn * r * math.cos(th)
            for i in range(1, n + 1):
                a = th + math.radians(turn) * i / n
                pts.append((cz + sgn * r * math.sin(a), cy - sgn * r * math.cos(a)))
            th += math.radians(turn)
            z, y = pts[-1]
    if "corner" in p:                 # corner type: the face starts with a kink
        th += math.radians(p["corner"])
    if abs(math.sin(th)) > 1e-9:
        raise ValueError("sampled contour does not end heading along the face")      # harness error (bad catalogue entry)
    depth = y                         # the face is `depth` below the start: re-reference y to the face, upwards positive
    right = [(a, depth - b) for a, b in pts[:-1]] + [(pts[-1][0], 0.0), (pts[-1][0] + p["face"], 0.0)]
    left = [(-a, b) for a, b in right[1:]][::-1]
    return left + right


def _smallest_rise(points):
    """smallest non-zero distance of a contour vertex from the face line"""
    ys = [abs(y) for _, y in points if y != 0.0]
    return min(ys) if ys else math.inf


def _spline_points(spec):
    if "sampled" in spec:
        sc = spec.get("scale", 1.0)
        return [(z * sc, y * sc) for z, y in _sample_contour(spec["sampled"])]
    return spec["lengths"]["points"]


def _build_groove(spec, factor):
    import pyroll.core as pr
    cls = getattr(pr, spec["cls"])
    if spec["cls"] == "SplineGroove":
        kw = dict(spec["other"])
        kw["contour_points"] = [(z * factor, y * factor) for z, y in _spline_points(spec)]
        if "usable_width" in spec["lengths"]:
            kw["usable_width"] = spec["lengths"]["usable_width"] * factor
        return cls(**kw)
    kw = {n: v * factor for n, v in spec["lengths"].items()}
    kw.update(spec["other"])
    return cls(**kw)


def _impl_raised(ex):
    import traceback
    return any("/pyroll/" in f.filename or "/scipy/" in f.filename or "/shapely/" in f.filename
               for f in traceback.extract_tb(ex.__traceback__))


def _groove_inputs(g):
    c = math.cos(g.pad_angle)
    pad = (g.z0 - g.z1) / c if abs(c) > 1e-9 else (g.y0 - g.y1) / math.sin(g.pad_angle)
    return {"r1": g.r1, "r2": g.r2, "r3": g.r3, "r4": g.r4, "alpha3": g.alpha3, "alpha4": g.alpha4, "indent": g.indent,
            "even_ground_width": g.even_ground_width, "pad": pad, "pad_angle": g.pad_angle, "flank_angle": g.flank_angle,
            "usable_width": g.usable_width, "ground_width": g.ground_width, "depth": g.depth}


def _groove_correspondence(ctx, data, n):
    """junction chain / contour functions / resolution of the translation vs real groove objects of every class"""
    import numpy as np
    rng = ctx.rng
    chain_items = [it for it in data["items"] if it.kind in ("chain", "contour", "resolve")]
    jobs, lines = [], []
    for i in range(n):
        cname, lengths, other = GROOVES[i % len(GROOVES)] if i < len(GROOVES) else rng.choice(GROOVES)
        spec = {"cls": cname, "lengths": lengths, "other": other}
        f = 1e-3 * math.exp(rng.uniform(-1, 1))
        try:
            g = _build_groove(spec, f)
        except Exception as ex:
            if _impl_raised(ex):
                ctx.count("groove-rejected:" + type(ex).__name__)
                continue
            raise
        inp = _groove_inputs(g)
        ctx.count("chain-eval:" + cname)
        for it in chain_items:
            env = dict(inp)
            name = it.lean[2:]
            if it.kind == "chain":
                real = getattr(g, name, None)
                if real is None:
                    continue               # a local of __init__ (l12): covered through the entries that use it
            elif it.kind == "contour":
                zlo, zhi = {"fn_r1_contour_line": (g.z3, g.z1), "fn_r2_contour_line": (g.z5, g.z4),
                            "fn_r3_contour_line": (g.z6, g.z5), "fn_r4_contour_line": (g.z7, g.z6),
                            "fn_flank_contour_line": (g.z4, g.z3)}.get(name, (0.0, g.z1))
                z = rng.uniform(min(zlo, zhi), max(zlo, zhi))
                env["z"] = z
                with np.errstate(all="ignore"):
                    real = float(getattr(g, "_" + name[3:])(z))
            else:
                real = {"resolve_usable_width": g.usable_width, "resolve_ground_width": g.ground_width,
                        "resolve_flank_angle": g.flank_angle, "resolve_depth": g.depth}[name]
                if abs(g.depth) < 1e-12 or abs(math.tan(g.flank_angle)) < 1e-9:
                    continue               # the degenerate branches (np.isclose(depth, 0)) are not closed forms
            vs = set(pyexpr.expr_vars(it.expr)) | _ref_vars(it.expr, data)
            lines.append(it.lean + " " + " ".join(f"{k}={stub.bits(v)}" for k, v in env.items() if k in vs))
            jobs.append((it, spec, f, env, float(real)))
    out = ctx.lean_model(MODEL, lines) if lines else []
    for (it, spec, f, env, real), o in zip(jobs, out):
        ctx.count("chain-eval")
        try:
            lean = stub.unbits(o)
        except Exception:
            ctx.disagreement(f"generated term {it.lean}: model driver answered {o!r}", {"formula": it.lean})
            continue
        scale = max(abs(env["usable_width"]), abs(env["depth"]), 1e-300) if it.d == 1 else 1.0
        if (math.isnan(real) and math.isnan(lean)) or abs(real - lean) <= 1e-9 * scale:
            ctx.validated()
        else:
            ctx.disagreement(f"generated term {it.lean} differs from the real groove object's value",
                             {"formula": it.lean, "groove": spec, "factor": f, "env": env, "python": real,
                              "lean_float": lean})


_REF_CACHE = {}


def _ref_vars(e, data):
    """variables reachable through ("ref", name) links"""
    by = _REF_CACHE.get(id(data))
    if by is None:
        by = _REF_CACHE[id(data)] = {it.lean: it.expr for it in data["items"]}
    out = set()

    def walk(x):
        if x[0] == "ref":
            walk(by[x[1]])
        elif x[0] == "var":
            out.add(x[1])
        else:
            for y in x[1:]:
                if isinstance(y, tuple):
                    walk(y)
    walk(e)
    return out


def _plain_correspondence(ctx, data, n_each):
    """solver / plumbing / decision / argument terms: Lean Float evaluation vs the python evaluation of the same tuple
    (checks the emission), and np.isclose terms against numpy itself"""
    import numpy as np
    kinds = ("residual", "map", "closed", "bracket", "start", "plumb", "decision", "isclose", "arg", "sum", "attr")
    jobs, lines = [], []
    for it in data["items"]:
        if it.kind not in kinds:
            continue
        vs = sorted(set(pyexpr.expr_vars(it.expr)))
        for _ in range(n_each if vs else 1):
            env = {v: ctx.rng.uniform(0.2, 1.3) for v in vs}
            with np.errstate(all="ignore"):
                try:
                    ref = float(pyexpr.py_eval(it.expr, env))
                except ZeroDivisionError:
                    continue
            lines.append(it.lean + " " + " ".join(f"{k}={stub.bits(v)}" for k, v in env.items()))
            jobs.append((it, env, ref))
    out = ctx.lean_model(MODEL, lines) if lines else []
    for (it, env, ref), o in zip(jobs, out):
        ctx.count("term-eval")
        try:
            lean = stub.unbits(o)
        except Exception:
            ctx.disagreement(f"generated term {it.lean}: model driver answered {o!r}", {"formula": it.lean})
            continue
        if stub.close(ref, lean, rtol=1e-10):
            ctx.validated()
        else:
            ctx.disagreement(f"generated term {it.lean} evaluates differently in Lean and in python",
                             {"formula": it.lean, "env": env, "python": ref, "lean_float": lean})
        if it.kind == "isclose":
            # the term is |a-b| - (atol + rtol |b|): its sign must reproduce numpy's decision
            a = pyexpr.py_eval(it.expr[1][1][1], env)
            b = pyexpr.py_eval(it.expr[1][1][2], env)
            for (x, y) in ((a, b), (a, a), (a, a + 5e-9), (a * 1e-4, a * 1e-4 + 2e-8)):
                e2 = ("sub", ("abs", ("sub", ("var", "@a"), ("var", "@b"))), it.expr[2])
                t = pyexpr.py_eval(e2, dict(env, **{"@a": x, "@b": y})) if not pyexpr.expr_vars(it.expr[2]) else None
                if t is not None and (t <= 0) != bool(np.isclose(x, y)):
                    ctx.disagreement(f"np.isclose({x}, {y}) is {bool(np.isclose(x, y))} but the translated term has sign {t}",
                                     {"formula": it.lean})


def _residual_at_roots(ctx, data, n):
    """call the REAL solvers on random admissible inputs and evaluate the translated residuals at the angles they return:
    the contract 'returns a root of the translated residual'"""
    import numpy as np
    from pyroll.core.grooves import generic_elongation_solvers as S
    rng = ctx.rng
    res_items = {it.lean: it for it in data["items"] if it.kind in ("residual", "map")}
    cases = []
    for _ in range(n):
        s = 1e-3 * math.exp(rng.uniform(-1.5, 1.5))
        r1, r2, depth = 2 * s, 15.8 * s, 15.55 * s
        cases.append(("r124_widthNone_free", S.solve_r124, dict(r1=r1, r2=r2, depth=depth, width=None, pad_angle=0.0),
                      lambda ret: {"_x0": ret["alpha"]}, ["res0"]))
        cases.append(("r124_depthNone_free", S.solve_r124, dict(r1=7 * s, r2=33 * s, depth=None, width=35.276 * s,
                                                                 pad_angle=rng.choice([0.0, 0.5])),
                      lambda ret: {"_x0": ret["alpha"]}, ["res0"]))
        cases.append(("r124_r2None_free", S.solve_r124, dict(r1=7 * s, r2=None, depth=5.05 * s, width=35.276 * s, pad_angle=0.0),
                      lambda ret: {"_x0": ret["alpha"]}, ["res0"]))
        cases.append(("r124_widthNone_fw", S.solve_r124, dict(r1=5 * s, r2=38 * s, depth=31.8646 * s, width=None, pad_angle=0.0,
                                                               flank_width=3.28149 * s),
                      lambda ret: {"_x0": ret["alpha"]}, ["res0"]))
        cases.append(("box_uw_egw", S.solve_box_like, dict(r2=18 * s, r4=0.0, depth=52 * s, indent=0.0, ground_width=None,
                                                           even_ground_width=129.9457 * s, usable_width=185.29 * s,
                                                           flank_angle=None),
                      lambda ret: {"_x0": ret["flank_angle"]}, ["res0"]))
        cases.append(("r123_free", S.solve_r123, dict(r1=10 * s, r2=30 * s, r3=170 * s, depth=28.5 * s, width=124.618 * s,
                                                      pad_angle=0.0),
                      lambda ret: {"_x0": ret["alpha2"], "_x1": ret["alpha3"]}, ["res0", "res1"]))
        cases.append(("r123_fa", S.solve_r123, dict(r1=5 * s, r2=20 * s, r3=120 * s, depth=30 * s, width=100 * s, pad_angle=0.0,
                                                    flank_angle=math.radians(60)),
                      lambda ret: {"_x0": ret["alpha2"]}, ["res0"]))
        cases.append(("r1234_free", S.solve_r1234, dict(r1=5 * s, r2=30 * s, r3=5 * s, r4=10 * s, depth=16 * s,
                                                        width=93.3444 * s, indent=10 * s, pad_angle=0.0),
                      lambda ret: {"_x0": ret["alpha2"], "_x1": ret["alpha3"], "_x2": ret["alpha4"]}, None))
    # every call is followed by a NEAR-IDENTICAL one (one length changed by a relative 1e-5 .. 1e-3): the contract holds
    # for each call on its own arguments - a solver that answers from what it solved before (memo on rounded arguments,
    # warm start kept at module level) returns angles that are not a root of the second problem
    paired = []
    for (pname, fn, kw, unknowns, suffixes) in cases:
        paired.append((pname, fn, kw, unknowns, suffixes))
        lk = sorted(k_ for k_, v in kw.items() if v is not None and c11_dims.var_dim(k_) == 1 and v != 0.0)
        kw2 = dict(kw)
        nk = rng.choice(lk)
        kw2[nk] = kw[nk] * (1 + rng.choice([-1, 1]) * 10 ** rng.uniform(-5, -3))
        paired.append((pname, fn, kw2, unknowns, suffixes))
    jobs, lines = [], []
    for (pname, fn, kw, unknowns, suffixes) in paired:
        try:
            with np.errstate(all="ignore"):
                ret = fn(**kw)
        except Exception as ex:
            if _impl_raised(ex) or isinstance(ex, (ValueError, RuntimeError, TypeError, IndexError)):
                ctx.count("solver-raised:" + pname)
                continue
            raise
        import inspect
        env = {n: float(p.default) for n, p in inspect.signature(fn).parameters.items()
               if isinstance(p.default, (int, float)) and not isinstance(p.default, bool)}
        env.update({k: float(v) for k, v in kw.items() if v is not None})
        env.update({k: float(v) for k, v in unknowns(ret).items()})
        if suffixes is None:      # branching residual: the branch in force is decided by _x1 > _x2
            suffixes = [f"res{i}{'a' if env['_x1'] > env['_x2'] else 'b'}" for i in range(3)]
        for suf in suffixes:
            it = res_items.get(f"s_{pname}_{suf}")
            if it is None:
                ctx.tie_breaks.append(f"correspondence: residual s_{pname}_{suf} is not among the generated terms")
                continue
            vs = set(pyexpr.expr_vars(it.expr))
            missing = vs - set(env)
            if missing:
                ctx.tie_breaks.append(f"correspondence: residual {it.lean} reads {sorted(missing)} which the solver call "
                                      f"does not supply")
                continue
            lines.append(it.lean + " " + " ".join(f"{k}={stub.bits(v)}" for k, v in env.items() if k in vs))
            jobs.append((it, pname, kw, env))
    out = ctx.lean_model(MODEL, lines) if lines else []
    for (it, pname, kw, env), o in zip(jobs, out):
        ctx.count("residual-at-root")
        v = stub.unbits(o)
        scale = max(abs(x) for k, x in env.items() if c11_dims.var_dim(k) == 1)
        # root_scalar (brentq, xtol 2e-12) / root (hybr, xtol 1.5e-8): |f| <= |f'| * xtol with |f'| ~ a few lengths
        if abs(v) <= 1e-6 * scale:
            ctx.validated()
        else:
            ctx.disagreement(f"the real solver's result is not a root of the translated residual {it.lean}: f = {v}",
                             {"formula": it.lean, "solver_args": kw, "env": env, "residual": v})


# =====================================================================================================================
# (K b) the two-run relation on real objects - written from the property statement
# =====================================================================================================================
def _rel(a, b, floor):
    return abs(a - b) / max(abs(a), abs(b), floor)


def _cmp_array(name, a, b, k, d, rtol, probs, floor_scale):
    """b (scaled run) / k^d vs a (unscaled run), element-wise; absolute floor = rtol * overall magnitude"""
    import numpy as np
    a = np.asarray(a, dtype=float)
    b = np.asarray(b, dtype=float)
    if a.shape != b.shape:
        probs.append((name + ":shape", f"{name}: shape {a.shape} unscaled vs {b.shape} scaled by k={k}"))
        return
    if a.size == 0:
        return
    bb = b / k ** d
    fin = np.isfinite(a) & np.isfinite(bb)
    if not np.array_equal(np.isfinite(a), np.isfinite(bb)):
        probs.append((name + ":finite", f"{name}: finiteness differs between the runs"))
        return
    if not fin.any():
        return
    # magnitude the deviation is measured against: the largest entry, but not less than the overall size of the object
    # (a z coordinate that happens to be ~0 is only known relative to the groove width); dimensionless quantities
    # (angles in radians, ratios, strains) are known to the solvers' tolerance relative to O(0.1)
    mag = max(float(np.max(np.abs(a[fin]))), floor_scale ** d if d else 0.1, 1e-300)
    err = float(np.max(np.abs(a[fin] - bb[fin]))) / mag
    if err > rtol:
        i = int(np.argmax(np.abs(np.where(fin, a - bb, 0))))
        probs.append((name, f"{name}: scaled/k^{d} = {bb.ravel()[i]!r} vs unscaled {a.ravel()[i]!r} "
                            f"(relative deviation {err:.3g} > {rtol:g}, k = {k})"))


def _geom_coords(g):
    """shapely geometry -> list of coordinate arrays"""
    import numpy as np
    if hasattr(g, "geoms"):
        out = []
        for x in g.geoms:
            out += _geom_coords(x)
        return out
    if g.geom_type == "Polygon":
        return [np.asarray(g.exterior.coords)] + [np.asarray(r.coords) for r in g.interiors]
    return [np.asarray(g.coords)]


def _cmp_value(name, a, b, k, d, rtol, probs, floor_scale, missing):
    """one hook value / attribute of the two runs"""
    import numpy as np
    from shapely.geometry.base import BaseGeometry
    if callable(a) and callable(b):
        return
    if isinstance(a, BaseGeometry) or isinstance(b, BaseGeometry):
        if not (isinstance(a, BaseGeometry) and isinstance(b, BaseGeometry)) or a.geom_type != b.geom_type:
            probs.append((name + ":type", f"{name}: geometry type differs ({getattr(a, 'geom_type', a)} vs "
                                          f"{getattr(b, 'geom_type', b)})"))
            return
        ca, cb = _geom_coords(a), _geom_coords(b)
        if [len(x) for x in ca] != [len(x) for x in cb]:
            probs.append((name + ":vertices", f"{name}: vertex counts {[len(x) for x in ca]} unscaled vs "
                                              f"{[len(x) for x in cb]} scaled by k={k}"))
            return
        for x, y in zip(ca, cb):
            _cmp_array(name, x, y, k, 1, rtol, probs, floor_scale)
        return
    if isinstance(a, (set, frozenset, str, bool)) or a is None or isinstance(b, (set, frozenset, str, bool)) or b is None:
        if a != b:
            probs.append((name + ":value", f"{name}: {a!r} unscaled vs {b!r} scaled by k={k}"))
        return
    if isinstance(a, dict) and isinstance(b, dict):
        if a != b:
            probs.append((name + ":value", f"{name}: dict values differ"))
        return
    if isinstance(a, (list, tuple)) and all(isinstance(x, str) for x in a):
        if list(a) != list(b):
            probs.append((name + ":value", f"{name}: {a!r} unscaled vs {b!r} scaled by k={k}"))
        return
    if d is None:
        missing.add(name.split(".")[-1])
        return
    try:
        if isinstance(a, (list, tuple)) and a and not np.isscalar(a[0]):
            if len(a) != len(b):
                probs.append((name + ":shape", f"{name}: {len(a)} vs {len(b)} parts"))
                return
            for i, (x, y) in enumerate(zip(a, b)):
                _cmp_array(f"{name}", x, y, k, d, rtol, probs, floor_scale)
            return
        _cmp_array(name, a, b, k, d, rtol, probs, floor_scale)
    except (TypeError, ValueError):
        if a != b:
            probs.append((name + ":value", f"{name}: {a!r} unscaled vs {b!r} scaled"))


def _hook_values(obj):
    """{hook name: value | ('raised', type)} for every hook declared on the object's class"""
    out = {}
    for n in sorted(type(obj).__hooks__):
        try:
            out[n] = getattr(obj, n)
        except AttributeError:
            continue
        except RecursionError:
            out[n] = ("raised", "RecursionError")
        except Exception as ex:
            if not _impl_raised(ex):
                raise
            out[n] = ("raised", type(ex).__name__)
    return out


def _cmp_objects(prefix, oa, ob, k, rtol, probs, floor_scale, missing, rtol_for=None):
    va, vb = _hook_values(oa), _hook_values(ob)
    for n in sorted(set(va) | set(vb)):
        name = f"{prefix}.{n}"
        if (n in va) != (n in vb):
            probs.append((name + ":presence", f"{name}: has a value in only one of the runs (k={k})"))
            continue
        a, b = va[n], vb[n]
        ra = isinstance(a, tuple) and len(a) == 2 and a[0] == "raised"
        rb = isinstance(b, tuple) and len(b) == 2 and b[0] == "raised"
        if ra or rb:
            if not (ra and rb and a[1] == b[1]):
                probs.append((name + ":raises", f"{name}: {a!r} unscaled vs {b!r} scaled by k={k}"))
            continue
        _cmp_value(name, a, b, k, c11_dims.var_dim(n), (rtol_for or {}).get(n, rtol), probs, floor_scale, missing)


# ---- grooves ----------------------------------------------------------------------------------------------------------
_GROOVE_ATTRS = ["usable_width", "depth", "width", "ground_width", "even_ground_width", "flank_angle", "r1", "r2", "r3", "r4",
                 "alpha1", "alpha2", "alpha3", "alpha4", "indent", "pad_angle", "groove_factor", "beta", "gamma"] + \
                [f"{c}{i}" for c in "zy" for i in range(13)]


def _build_or_exc(spec, factor):
    """groove object, or the exception the implementation raised"""
    import numpy as np
    try:
        with np.errstate(all="ignore"):
            return _build_groove(spec, factor)
    except Exception as ex:
        if not _impl_raised(ex):
            raise
        return ex


def _groove_pair_problems(spec, ga, gb, k):
    """ga: the groove as described, gb: the same groove described with every length multiplied by k (either may be the
    exception raised by the constructor)"""
    import numpy as np
    if isinstance(ga, Exception) or isinstance(gb, Exception):
        if isinstance(ga, Exception) and isinstance(gb, Exception):
            return None            # rejected in both descriptions: consistent, not a case
        which = "unscaled" if isinstance(ga, Exception) else "scaled"
        ex = ga if isinstance(ga, Exception) else gb
        return [("groove:accepted-in-one-unit-only", f"{spec['cls']} is rejected only in the {which} description "
                                                    f"(k={k}): {type(ex).__name__}: {ex}")]
    probs, missing = [], set()
    # closed-form classes: only rounding; solver-backed classes: the root finders' tolerance (brentq xtol 2e-12 on an
    # angle; hybr / fixed_point 1.5e-8 relative)
    rtol = 1e-9 if spec["cls"] in _CLOSED_FORM else 1e-6
    size = float(ga.usable_width)
    for n in _GROOVE_ATTRS:
        if hasattr(ga, n) != hasattr(gb, n):
            probs.append((f"groove.{n}:presence", f"{n} present in one description only"))
        elif hasattr(ga, n):
            _cmp_value(f"groove.{n}", getattr(ga, n), getattr(gb, n), k, c11_dims.var_dim(n), rtol, probs, size, missing)
    _cmp_value("groove.contour_points", ga.contour_points, gb.contour_points, k, 1, rtol, probs, size, missing)
    _cmp_value("groove.cross_section", ga.cross_section, gb.cross_section, k, 1, rtol, probs, size, missing)
    _cmp_value("groove.cross_section.area", ga.cross_section.area, gb.cross_section.area, k, 2, rtol, probs, size, missing)
    _cmp_value("groove.contour_line", ga.contour_line, gb.contour_line, k, 1, rtol, probs, size, missing)
    _cmp_value("groove.contour_line.length", ga.contour_line.length, gb.contour_line.length, k, 1, rtol, probs, size, missing)
    _cmp_value("groove.classifiers", set(ga.classifiers), set(gb.classifiers), k, None, rtol, probs, size, missing)
    zs = np.linspace(-0.6, 0.6, 41) * float(ga.width)
    with np.errstate(all="ignore"):
        _cmp_value("groove.local_depth", ga.local_depth(zs), gb.local_depth(zs * k), k, 1, rtol, probs, size, missing)
    if missing:
        probs.append(("groove:undeclared", f"attributes without a declared dimension: {sorted(missing)}"))
    return probs


def _groove_problems(spec, base, k):
    """the same groove described with factor `base` and with `base * k`"""
    return _groove_pair_problems(spec, _build_or_exc(spec, base), _build_or_exc(spec, base * k), k)


def _study_problems(members, base, k):
    """A parameter study / design iteration: the grooves `members` are constructed one after the other in one process,
    once described with factor `base` and once with `base * k`.  Every member of the scaled study must be the scaled
    member of the unscaled study - whatever was constructed before it (the statement is about EVERY groove and
    parameter set; a result that depends on the history of the process in one unit and not in the other breaks it)."""
    run_a = [_build_or_exc(m, base) for m in members]
    run_b = [_build_or_exc(m, base * k) for m in members]
    probs, live = [], 0
    for i, (m, ga, gb) in enumerate(zip(members, run_a, run_b)):
        pr_ = _groove_pair_problems(m, ga, gb, k)
        if pr_ is None:
            continue
        live += 1
        probs += [("study-member:" + key, f"member {i + 1} of {len(members)}: " + what) for key, what in pr_]
    return None if live == 0 else probs


def _run_grooves(ctx):
    rng = ctx.rng
    ks = [10.0 ** e for e in (-3, -2, -1, 1, 2, 3)] + [25.4, 1 / 25.4, 39.37007874015748]
    catalogue = GROOVES + SPLINES
    n = ctx.budget(len(catalogue) * 3, len(catalogue) * 80)
    for i in range(n):
        cname, lengths, other = catalogue[i % len(catalogue)]
        spec = {"cls": cname, "lengths": lengths, "other": other}
        # real size: the catalogue is in millimetres; real products between a tenth and ten times that size
        size = math.exp(rng.uniform(math.log(0.1), math.log(10))) if i >= len(catalogue) else 1.0
        base = 1e-3 * size                     # described in metres
        k = ks[(i // len(catalogue) + i) % len(ks)] if i < 3 * len(catalogue) else rng.choice(ks)
        if rng.random() < 0.3:
            k = 10 ** rng.uniform(-3, 3)
        probs = _groove_problems(spec, base, k)
        if probs is None:
            ctx.count("groove:rejected-in-both")
            continue
        ctx.case(["groove", cname, sorted(lengths), sorted(other.items(), key=str), round(math.log10(base), 3),
                  round(math.log10(k), 3)])
        ctx.count("groove:" + cname)
        ctx.count("groove-k:1e%+d" % round(math.log10(k)))
        for key, what in probs:
            ctx.violation(_key(key), f"{cname}: " + what, {"kind": "groove", "spec": spec, "base": base, "k": k})
        if len(ctx.samples) < 1:
            ctx.sample({"groove": spec, "base": base, "k": k})


def _key(key):
    return "tworun-" + key.replace(".", "-").replace(":", "-")


# Input regimes that are reported under ONE key of their own (whatever deviates), so that a defect living in such a regime
# is one item to repair or to list, and does not hide behind / drown the per-hook keys of the ordinary cases.  A regime
# is defined by the INPUT alone (never by what went wrong).
THREE_ROLL_BAR_RANGE = 2.0     # three-roll blocks roll wire rod and bar: the 55 mm layouts up to 2x are "ordinary"


def _groove_regime(spec, base, k):
    """a sampled spline contour whose fillet vertices rise less than 2e-8 above the face in the smaller description
    (thin-wire grooves described in metres, very fine sampling)"""
    if spec.get("cls") == "SplineGroove" and "sampled" in spec:
        if _smallest_rise(_spline_points(spec)) * min(base, base * k) < 2 * ACCEPTED_COORDINATE_ATOL:
            return "spline-face-thin-fillet"
    return None


def _sequence_regime(units, real_size, fa, fb):
    for u in units:
        if "groove" in u and _groove_regime(u["groove"], fa, fb / fa):
            return "spline-face-thin-fillet"
    if real_size > THREE_ROLL_BAR_RANGE and any(u["u"] == "pass3" for u in units):
        return "three-roll-large-product"
    return None


def _emit(ctx, regime, probs, pre, rp):
    if not probs:
        return
    if regime is None:
        for key, what in probs:
            ctx.violation(_key(key), pre + what, rp)
        return
    keys = sorted({_key(k_) for k_, _ in probs})
    ctx.violation("tworun-" + regime, pre + f"{len(probs)} deviations between the two descriptions ({', '.join(keys[:8])}"
                  + (", ..." if len(keys) > 8 else "") + "); first: " + probs[0][1], rp)


def _run_corpus(ctx):
    """past failures first"""
    for r in CORPUS:
        replay(ctx, {"replay": r})
        ctx.case(["corpus", r["kind"], r.get("name") or r["spec"]["cls"]])
        ctx.count("corpus")


def _run_sampled_splines(ctx):
    """finely sampled, tangent-continuous spline contours (CAD exports) of thin-wire to bloom size, between the
    descriptions in metres and in millimetres.  Where the contour leaves the face through a fillet, the first vertices
    rise above the face by r (1 - cos(step)) only: 1e-7 m for r = 3 mm at 0.5 degree, 4e-9 m for the 0.1 mm fillet of a
    thin-wire groove - whatever compares ordinates with an absolute number shows here."""
    rng = ctx.rng
    pairs = [("m", "mm"), ("m", "inch"), ("m", "cm"), ("mm", "m"), ("cm", "inch"), ("m", "dm")]
    n = ctx.budget(3 * len(SAMPLED_SPLINES), 60 * len(SAMPLED_SPLINES))
    for i in range(n):
        name, sp, cl = SAMPLED_SPLINES[i % len(SAMPLED_SPLINES)]
        rnd = i // len(SAMPLED_SPLINES)
        sp = dict(sp)
        if rnd > 0:
            sp["step_deg"] = rng.choice([0.25, 0.5, 0.5, 1.0, 2.0, 5.0])
        # real size: the catalogue (grooves for 20 .. 60 mm stock) from 1/30 (thin wire) to 10 times; range ends first
        size = [1.0, 1 / 30, 10.0][rnd] if rnd < 3 else math.exp(rng.uniform(math.log(1 / 30), math.log(10)))
        ua, ub = pairs[(rnd + i) % len(pairs)] if rnd != 1 else pairs[i % 4]
        spec = {"cls": "SplineGroove", "sampled": sp, "scale": size, "lengths": {}, "other": {"classifiers": cl}}
        if rng.random() < 0.3:
            w = _spline_points(spec)[-1][0] * 2
            spec["lengths"] = {"usable_width": w * rng.uniform(0.8, 0.98)}
        base, k = 1e-3 * UNITS[ua], UNITS[ub] / UNITS[ua]       # the catalogue is in millimetres
        rise = _smallest_rise(_spline_points(spec)) * min(base, base * k)
        probs = _groove_problems(spec, base, k)
        if probs is None:
            ctx.count("groove:rejected-in-both")
            continue
        ctx.case(["spline-sampled", name, sp["step_deg"], round(size, 6), ua, ub, sorted(spec["lengths"])])
        ctx.count("spline-sampled:" + name)
        ctx.count("spline-sampled-rise:1e%+d" % math.floor(math.log10(rise)))
        _emit(ctx, _groove_regime(spec, base, k), [("sampled-" + k_, w_) for k_, w_ in probs],
              f"SplineGroove ({name}, {sp['step_deg']} degree per segment, size x{size:.3g}, smallest rise above the face "
              f"{rise:.3g} in the smaller description): ",
              {"kind": "groove", "spec": spec, "base": base, "k": k, "prefix": "sampled-"})


def _study_members(rng, cname, lengths, other):
    """a design iteration around one catalogue entry: 2-4 parameter sets that differ in ONE length by a relative
    1e-5 .. 2e-3 (hundredths of a millimetre on a 30 mm groove), in different orders, with repeats"""
    def spec(L):
        return {"cls": cname, "lengths": L, "other": other}
    name = rng.choice(sorted(lengths))
    d1 = rng.choice([-1, 1]) * 10 ** rng.uniform(-5, -2.7)
    d2 = rng.choice([-1, 1]) * 10 ** rng.uniform(-5, -2.7)
    a = dict(lengths)
    b = dict(lengths, **{name: lengths[name] * (1 + d1)})
    c = dict(lengths, **{name: lengths[name] * (1 + d1 + d2)})
    pattern = rng.choice(["abc", "aba", "abca", "ab", "aab", "ba"])
    return [spec({"a": a, "b": b, "c": c}[ch]) for ch in pattern], name, pattern


def _run_studies(ctx):
    rng = ctx.rng
    ks = [1e3, 1 / 0.0254 * 1e-3 * 1e3, 1e2, 25.4, 10.0, 1e-3, 1e-1]
    n = ctx.budget(len(GROOVES), 30 * len(GROOVES))
    for i in range(n):
        cname, lengths, other = GROOVES[i % len(GROOVES)]
        members, pname, pattern = _study_members(rng, cname, lengths, other)
        size = 1.0 if i < len(GROOVES) else math.exp(rng.uniform(math.log(0.1), math.log(10)))
        base = 1e-3 * size                     # the study described in metres ...
        k = ks[0] if i < len(GROOVES) else rng.choice(ks)   # ... and in millimetres / inches / ...
        probs = _study_problems(members, base, k)
        if probs is None:
            ctx.count("study:rejected-in-both")
            continue
        ctx.case(["study", cname, pattern, pname, [sorted((a, round(b, 12)) for a, b in m["lengths"].items()) for m in members],
                  round(math.log10(base), 3), round(math.log10(k), 3)])
        ctx.count("study:" + cname)
        ctx.count("study-pattern:" + pattern)
        for key, what in probs:
            ctx.violation(_key(key), f"{cname} study ({pattern}, varying {pname}): " + what,
                          {"kind": "study", "members": members, "base": base, "k": k})


# ---- profiles ---------------------------------------------------------------------------------------------------------
def _build_profile(spec, factor):
    from pyroll.core import Profile
    kw = {n: v * factor for n, v in spec["lengths"].items()}
    kw.update(spec.get("other", {}))
    if spec["factory"] == "from_groove":
        g = _build_groove(spec["groove"], factor)
        return Profile.from_groove(g, **kw)
    return getattr(Profile, spec["factory"])(**kw)


def _profile_problems(spec, base, k):
    import numpy as np
    objs = []
    for f in (base, base * k):
        try:
            objs.append(_build_profile(spec, f))
        except Exception as ex:
            if not _impl_raised(ex):
                raise
            objs.append(ex)
    pa, pb = objs
    if isinstance(pa, Exception) or isinstance(pb, Exception):
        if isinstance(pa, Exception) and isinstance(pb, Exception) and type(pa) is type(pb):
            return None
        return [("profile:accepted-in-one-unit-only", f"{spec['factory']}: {pa!r} unscaled vs {pb!r} scaled by k={k}")]
    probs, missing = [], set()
    size = float(pa.width)
    # Point.buffer / Polygon.buffer build their arcs from the radius: pure rounding. from_groove: the groove's precision
    rtol = 1e-9 if spec["factory"] != "from_groove" or spec["groove"]["cls"] in _CLOSED_FORM else 1e-6
    # local_height / local_width measure the chord on the cross-section buffered by the absolute 1e-12: the chord of the
    # scaled run, divided by k, deviates by up to ~2e-12 (1/k + 1) - see C11.additive_offset_deviation
    chord_rtol = rtol + 4e-12 * max(1.0, 1 / k) / (size * 0.05)
    _cmp_objects("profile", pa, pb, k, rtol, probs, size, missing)
    for attr in ("radius", "diameter", "side", "diagonal", "corner_radius"):
        if hasattr(pa, attr):
            _cmp_value(f"profile.{attr}", getattr(pa, attr), getattr(pb, attr), k, c11_dims.var_dim(attr), rtol, probs, size,
                       missing)
    zs = np.linspace(-0.45, 0.45, 7) * float(pa.width)
    ys = np.linspace(-0.45, 0.45, 7) * float(pa.height)
    ha = [pa.local_height(z) for z in zs]
    hb = [pb.local_height(z * k) for z in zs]
    wa = [pa.local_width(y) for y in ys]
    wb = [pb.local_width(y * k) for y in ys]
    _cmp_array("profile.local_height()", ha, hb, k, 1, chord_rtol, probs, size)
    _cmp_array("profile.local_width()", wa, wb, k, 1, chord_rtol, probs, size)
    if missing:
        probs.append(("profile:undeclared", f"hooks without a declared dimension: {sorted(missing)}"))
    return probs


def _profile_specs(rng):
    s = 1.0
    yield {"factory": "round", "lengths": {"radius": 15 * s}}
    yield {"factory": "round", "lengths": {"diameter": 30 * s}}
    yield {"factory": "square", "lengths": {"side": 24 * s, "corner_radius": 2 * s}}
    yield {"factory": "square", "lengths": {"diagonal": 34 * s, "corner_radius": rng.uniform(0, 3) * s}}
    yield {"factory": "box", "lengths": {"height": 27 * s, "width": 24 * rng.uniform(0.6, 2) * s, "corner_radius": 1.5 * s}}
    yield {"factory": "diamond", "lengths": {"height": 24 * s, "width": 33 * s, "corner_radius": rng.uniform(0, 2) * s}}
    yield {"factory": "hexagon", "lengths": {"side": 15 * s, "corner_radius": 1 * s}}
    yield {"factory": "hexagon", "lengths": {"height": 26 * s}}
    yield {"factory": "hexagon", "lengths": {"diagonal": 30 * s, "corner_radius": rng.uniform(0, 2) * s}}
    for gi, fill in ((15, 0.9), (29, 0.95), (0, 1.0), (9, 0.8), (12, 0.85), (36, 0.7)):
        cname, lengths, other = GROOVES[gi]
        yield {"factory": "from_groove", "groove": {"cls": cname, "lengths": lengths, "other": other},
               "lengths": {"gap": lengths.get("depth", 10) * 0.2 * rng.uniform(0.5, 1.5)}, "other": {"filling": fill}}
    cname, lengths, other = GROOVES[15]
    yield {"factory": "from_groove", "groove": {"cls": cname, "lengths": lengths, "other": other},
           "lengths": {"height": 14.0, "width": 30.0}}


def _run_profiles(ctx):
    rng = ctx.rng
    ks = [10.0 ** e for e in (-3, -2, -1, 1, 2, 3)] + [25.4, 1 / 25.4]
    rounds = ctx.budget(2, 60)
    i = 0
    for r in range(rounds):
        for spec in _profile_specs(rng):
            size = 1.0 if r == 0 else math.exp(rng.uniform(math.log(0.1), math.log(10)))
            base = 1e-3 * size
            k = ks[i % len(ks)] if r < 2 else 10 ** rng.uniform(-3, 3)
            i += 1
            probs = _profile_problems(spec, base, k)
            if probs is None:
                ctx.count("profile:rejected-in-both")
                continue
            ctx.case(["profile", spec["factory"], sorted((a, round(b, 9)) for a, b in spec["lengths"].items()),
                      spec.get("groove", {}).get("cls"), round(math.log10(base), 3), round(math.log10(k), 3)])
            ctx.count("profile:" + spec["factory"])
            for key, what in probs:
                ctx.violation(_key(key), f"Profile.{spec['factory']}: " + what,
                              {"kind": "profile", "spec": spec, "base": base, "k": k})


# ---- solved sequences -------------------------------------------------------------------------------------------------
# unit specs: lengths in METRES of the real product (multiplied by the unit factor when the objects are built)
def _seq_specs(rng):
    def oval(f=1.0, three=False, **kw):
        return {"u": "pass3" if three else "pass", "groove": {"cls": "CircularOvalGroove",
                "lengths": dict(depth=8e-3 * f, r1=6e-3, r2=40e-3), "other": dict(pad_angle=30) if three else {}},
                "lengths": dict(gap=2e-3), "roll": dict(nominal_radius=160e-3), **kw}

    def rnd(f=1.0, three=False, **kw):
        if three:
            g = dict(r1=3e-3, r2=25e-3 * f, depth=11e-3)
        else:
            g = dict(r1=1e-3, r2=12.5e-3 * f, depth=11.5e-3)
        return {"u": "pass3" if three else "pass", "groove": {"cls": "RoundGroove", "lengths": g,
                "other": dict(pad_angle=30) if three else {}}, "lengths": dict(gap=2e-3), "roll": dict(nominal_radius=160e-3),
                **kw}

    def box(f=1.0):
        return {"u": "pass", "groove": {"cls": "BoxGroove", "lengths": dict(r1=2e-3, r2=4e-3, depth=10e-3 * f,
                usable_width=30e-3, ground_width=24e-3), "other": {}}, "lengths": dict(gap=2e-3),
                "roll": dict(nominal_radius=160e-3)}

    def diamond(f=1.0):
        return {"u": "pass", "groove": {"cls": "DiamondGroove", "lengths": dict(r1=3e-3, r2=5e-3,
                usable_width=38e-3 * f, tip_depth=12e-3), "other": {}}, "lengths": dict(gap=2e-3),
                "roll": dict(nominal_radius=160e-3)}

    def square():
        return {"u": "pass", "groove": {"cls": "SquareGroove", "lengths": dict(r1=3e-3, r2=4e-3, usable_width=30e-3,
                tip_depth=15e-3), "other": {}}, "lengths": dict(gap=2e-3), "roll": dict(nominal_radius=160e-3)}

    def t_dur(d=1.0):
        return {"u": "transport", "lengths": {}, "other": {"duration": d}}

    def t_len(l=1.5):
        return {"u": "transport", "lengths": {"length": l}, "other": {}}

    rot = {"u": "rotator", "lengths": {}, "other": {}}
    rot45 = {"u": "rotator", "lengths": {}, "other": {"rotation": 45}}
    f = lambda: rng.uniform(0.95, 1.08)
    rd = lambda s=30e-3: {"factory": "round", "lengths": {"diameter": s * rng.uniform(0.9, 1.03)}}
    sq = lambda: {"factory": "square", "lengths": {"side": 24e-3 * rng.uniform(0.95, 1.05), "corner_radius": 1.5e-3}}
    bx = lambda: {"factory": "box", "lengths": {"height": 27e-3, "width": 24e-3 * rng.uniform(0.95, 1.05),
                                                 "corner_radius": 1.5e-3}}
    yield "oval-round-oval", rd(), [oval(f(), neutral_point=-20e-3), t_dur(), rnd(f()), t_dur(2.0), oval(0.75)]
    yield "oval-rot-round", rd(), [oval(f()), rot, rnd(f())]
    yield "three-roll", rd(55e-3), [oval(f(), three=True), t_dur(), rnd(f(), three=True)]
    yield "three-roll-single", rd(58e-3), [oval(f(), three=True)]
    yield "oval-tlen-round", rd(), [oval(f()), t_len(rng.uniform(0.5, 3)), rnd(f())]
    yield "box-single", bx(), [box(f())]
    yield "diamond-square", bx(), [diamond(f()), t_dur(0.5), rot, square()]
    yield "square-oval", sq(), [rot45, oval(1.1)]
    yield "single-oval", rd(), [oval(f())]
    yield "box-oval", bx(), [oval(f()), t_len(0.8)]


def _sizing_specs(rng, first):
    """round sizing stands that only just touch the stock: height reduction eps of 0.03 % .. 3 % (the displaced
    cross-section is a sliver of ~ 0.9 D^2 eps).  Lengths in metres for a 30 mm product, like _seq_specs."""
    D = 30e-3

    def sizing(eps, d=D):
        return {"u": "pass", "groove": {"cls": "RoundGroove", "lengths": dict(r1=0.05 * d, r2=0.5 * d, depth=0.42 * d),
                                        "other": {}},
                "lengths": dict(gap=d * (0.16 - eps)), "roll": dict(nominal_radius=160e-3)}

    def t_dur(d=0.5):
        return {"u": "transport", "lengths": {}, "other": {"duration": d}}
    e = (lambda lo, hi: 10 ** rng.uniform(lo, hi))
    rd = {"factory": "round", "lengths": {"diameter": D}}
    e1 = 2e-3 if first else e(-3.5, -1.5)
    yield "sizing-single", rd, [sizing(e1)]
    e1, e2 = (4e-3, 1e-3) if first else (e(-3.5, -1.5), e(-3.5, -2))
    # the second stand works on the same axis (explicit rotator by 0 degree: no automatic rotation), on what the first left
    yield "sizing-double", rd, [sizing(e1), t_dur(), {"u": "rotator", "lengths": {}, "other": {"rotation": 0}},
                                sizing(e2, D * (1 - e1))]
    g = 0.9 if first else rng.uniform(0.85, 1.0)
    yield "oval-round-sizing", {"factory": "round", "lengths": {"diameter": D * g}}, [
        {"u": "pass", "groove": {"cls": "CircularOvalGroove", "lengths": dict(depth=8e-3, r1=6e-3, r2=40e-3), "other": {}},
         "lengths": dict(gap=2e-3), "roll": dict(nominal_radius=160e-3)}, t_dur(1.0),
        {"u": "pass", "groove": {"cls": "RoundGroove", "lengths": dict(r1=1e-3, r2=12.5e-3, depth=11.5e-3), "other": {}},
         "lengths": dict(gap=2e-3), "roll": dict(nominal_radius=160e-3)}, t_dur(1.0),
        sizing(5e-3 if first else e(-3, -1.7), 25e-3)]


def _spline_pass_specs(rng):
    """passes whose groove is a finely sampled SplineGroove (lengths in metres: the sampled catalogue is in mm)"""
    for (name, sp, cl), dia in ((SAMPLED_SPLINES[0], 30e-3), (SAMPLED_SPLINES[1], 22e-3), (SAMPLED_SPLINES[3], 40e-3)):
        g = {"cls": "SplineGroove", "sampled": sp, "scale": 1e-3, "lengths": {}, "other": {"classifiers": cl}}
        yield "spline-pass-" + name, {"factory": "round", "lengths": {"diameter": dia * rng.uniform(0.95, 1.02)}}, [
            {"u": "pass", "groove": g, "lengths": dict(gap=2e-3), "roll": dict(nominal_radius=160e-3)}]


def _scale_layout(in_spec, units, s):
    """the same layout for a product `s` times as large (every length of the specification multiplied by s)"""
    import copy
    in_spec, units = copy.deepcopy(in_spec), copy.deepcopy(units)
    in_spec["lengths"] = {n: v * s for n, v in in_spec["lengths"].items()}
    for u in units:
        u["lengths"] = {n: v * s for n, v in u["lengths"].items()}
        if "roll" in u:
            u["roll"] = {n: v * s for n, v in u["roll"].items()}
        if "neutral_point" in u:
            u["neutral_point"] *= s
        if "groove" in u:
            g = u["groove"]
            if "sampled" in g:
                g["scale"] = g.get("scale", 1.0) * s
            g["lengths"] = {n: v * s for n, v in g["lengths"].items()}
    return in_spec, units


def _vary_inputs(rng, units):
    """explicit values for inputs that usually default to / are derived from another one: the roll given by its nominal
    DIAMETER, the pass driven by an explicit velocity (lengths in the units of the specification, i.e. metres)"""
    for u in units:
        if "roll" not in u:
            continue
        if rng.random() < 0.4 and "nominal_radius" in u["roll"]:
            u["roll"] = dict(u["roll"], nominal_diameter=2 * u["roll"].pop("nominal_radius"))
        r = u["roll"].get("nominal_radius", u["roll"].get("nominal_diameter", 0) / 2)
        by = rng.choice(["rotational_frequency", "surface_velocity", "working_velocity", "velocity"])
        if by == "rotational_frequency":
            u["drive"] = {"by": by, "value": rng.uniform(0.5, 5)}
        else:
            u["drive"] = {"by": by, "value": 2 * math.pi * r * rng.uniform(0.5, 5)}
    return units


def _smallest_feature(g):
    """smallest length of a groove specification"""
    if "sampled" in g:
        vals = [el[1] for el in g["sampled"]["path"]] + [g["sampled"]["face"]]
        return min(vals) * g.get("scale", 1.0)
    return min(g["lengths"].values())


def _build_sequence(in_spec, units, factor):
    import pyroll.core as pr
    seq = []
    for i, u in enumerate(units):
        L = {n: v * factor for n, v in u["lengths"].items()}
        if u["u"] in ("pass", "pass3"):
            roll_kw = {n: v * factor for n, v in u["roll"].items()}
            extra = {}
            # how the pass is driven: by default the rotational frequency (a fixed time quantity); alternatively an explicit
            # velocity (a LENGTH per time: scaled with the unit) of the roll surface / at the working radius / of the stock
            drive = u.get("drive", {"by": "rotational_frequency", "value": 1.0})
            if drive["by"] == "rotational_frequency":
                roll_kw["rotational_frequency"] = drive["value"]
            elif drive["by"] in ("surface_velocity", "working_velocity"):
                roll_kw[drive["by"]] = drive["value"] * factor
            else:
                extra["velocity"] = drive["value"] * factor
            roll = pr.Roll(groove=_build_groove(u["groove"], factor), **roll_kw)
            if "neutral_point" in u:
                roll.neutral_point = u["neutral_point"] * factor
            cls = pr.ThreeRollPass if u["u"] == "pass3" else pr.RollPass
            seq.append(cls(label=f"u{i}", roll=roll, **L, **extra))
        elif u["u"] == "transport":
            seq.append(pr.Transport(label=f"u{i}", **L, **u["other"]))
        else:
            seq.append(pr.Rotator(label=f"u{i}", **u["other"]))
    ip_kw = {n: v * factor for n, v in in_spec["lengths"].items()}
    ip = getattr(pr.Profile, in_spec["factory"])(
        **ip_kw, temperature=1200 + 273.15, strain=0, material=["C45", "steel"], flow_stress=100e6, density=7.5e3,
        specific_heat_capacity=690, thermal_conductivity=23.0, length=1.0 * factor)
    return pr.PassSequence(seq, label="seq"), ip


class _IterationLog:
    """collect 'Finished solving of X after N iterations' / 'exceeded the maximum iteration count' records"""

    def __enter__(self):
        import logging
        self.records = []
        outer = self

        class H(logging.Handler):
            def emit(self, record):
                msg = record.getMessage()
                if "Finished solving" in msg or "exceeded the maximum iteration count" in msg:
                    outer.records.append(msg)
        self.h = H(level=logging.INFO)
        self.lg = logging.getLogger("pyroll.core")
        self.old = self.lg.level
        self.lg.setLevel(logging.INFO)
        self.lg.addHandler(self.h)
        return self

    def __exit__(self, *a):
        self.lg.removeHandler(self.h)
        self.lg.setLevel(self.old)


def _solve(in_spec, units, factor, velocity=None, resolve=False):
    """-> (sequence, iteration records) or exception raised inside the implementation.  `resolve`: the sequence is
    solved a second time on the used objects (the way a parameter study re-runs a model); the records and values of
    BOTH runs are what is compared"""
    import numpy as np
    seq, ip = _build_sequence(in_spec, units, factor)
    with _IterationLog() as log, np.errstate(all="ignore"):
        try:
            if velocity is None:
                seq.solve(ip)
                if resolve:
                    seq.solve(ip)
            elif velocity[0] == "forward":
                seq.solve_velocities_forward(ip, velocity[1] * factor)
            else:
                seq.solve_velocities_backward(ip, velocity[1] * factor, velocity[2] * factor ** 2)
        except Exception as ex:
            if not _impl_raised(ex):
                raise
            return ex, log.records
    return seq, log.records


def _presolve_problems(in_spec, units, fa, fb):
    """what can be read on the constructed objects BEFORE they are handed to solve (pass height, usable width, roll radii,
    the groove, the incoming profile ...) on separately built objects, so that reading does not touch the solved runs.
    A hook that has no value yet (needs the profiles) raises in both descriptions alike."""
    import numpy as np
    k = fb / fa
    probs, missing = [], set()
    with np.errstate(all="ignore"):
        (qa, ia), (qb, ib) = _build_sequence(in_spec, units, fa), _build_sequence(in_spec, units, fb)
        size = float(ia.width)
        _cmp_objects("presolve.in_profile", ia, ib, k, 1e-9, probs, size, missing)
        for j, (x, y) in enumerate(zip(qa.units, qb.units)):
            tag = f"presolve.unit{j}({type(x).__name__})"
            _cmp_objects(tag, x, y, k, 1e-9, probs, size, missing)
            if hasattr(x, "roll"):
                _cmp_objects(tag + ".roll", x.roll, y.roll, k, 1e-9, probs, size, missing)
    if missing:
        probs.append(("presolve:undeclared", f"hooks without a declared dimension: {sorted(missing)}"))
    return probs


def _sequence_problems(name, in_spec, units, fa, fb, velocity=None, real_size=1.0, resolve=False):
    """the same process described with unit factors fa (reference) and fb; k = fb / fa.  `real_size`: size of the product
    relative to the 30 mm bar the layouts are written for (only sets the magnitude deviations are measured against)"""
    k = fb / fa
    pre = _presolve_problems(in_spec, units, fa, fb)
    sa, ra = _solve(in_spec, units, fa, velocity, resolve)
    sb, rb = _solve(in_spec, units, fb, velocity, resolve)
    if isinstance(sa, Exception) or isinstance(sb, Exception):
        if isinstance(sa, Exception) and isinstance(sb, Exception) and type(sa) is type(sb):
            return ("both-raise", f"{type(sa).__name__}: {sa}")
        return [("sequence:solves-in-one-unit-only", f"{name}: {sa!r} with factor {fa} vs {sb!r} with factor {fb}")]
    probs, missing = list(pre), set()
    if ra != rb:
        diff = [(x, y) for x, y in zip(ra, rb) if x != y][:3]
        outer = [sum(1 for m in r if "PassSequence" in m) for r in (ra, rb)]
        probs.append(("sequence:iterations", f"{name}: iteration log differs between unit factor {fa} and unit factor {fb}: "
                                             f"{len(ra)} vs {len(rb)} 'finished solving' records, {outer[0]} vs {outer[1]} "
                                             f"solves of the whole sequence; first differing records {diff}"))
    # In exact arithmetic the two runs perform the SAME iteration up to the factors k^d (every formula is homogeneous, the
    # convergence test of Unit.solve is relative), so what remains is rounding: measured <= 3e-14, allowed 1e-9.
    # The exception is what hangs on the contact detection `cl.intersection(exterior.buffer(1e-9))` (found by the translator
    # as inhomogeneous): each contact line is ~1e-9 / sin(angle) longer at both ends, i.e. relatively 1e-9 / feature size,
    # and the angle between its last vertices moves by 1e-9 / segment length.  In a three-roll pass the contact area of the
    # roll is computed from the width of a contact line, so roll force, torque, power inherit it.
    small = min(_smallest_feature(u["groove"]) for u in units if "groove" in u) * min(fa, fb)
    size = 30e-3 * real_size * fa
    rtol = 1e-9
    rtol_buffer = rtol + 50 * 1e-9 / small
    affected = {"contact_lines", "contact_angles", "free_surface_lines", "contact_width", "contact_depth"}
    if any(u["u"] == "pass3" for u in units):
        affected |= {"contact_area", "free_surface_area", "roll_force", "roll_torque", "roll_power", "power",
                     "energy_consumption", "contact_pressure"}
    rtol_for = {n: rtol_buffer for n in affected}
    ua, ub = [sa] + list(sa.units), [sb] + list(sb.units)
    for j, (x, y) in enumerate(zip(ua, ub)):
        tag = "seq" if j == 0 else f"unit{j - 1}({type(x).__name__})"
        _cmp_objects(tag, x, y, k, rtol, probs, size, missing, rtol_for)
        _cmp_objects(tag + ".in_profile", x.in_profile, y.in_profile, k, rtol, probs, size, missing, rtol_for)
        _cmp_objects(tag + ".out_profile", x.out_profile, y.out_profile, k, rtol, probs, size, missing, rtol_for)
        if hasattr(x, "roll"):
            _cmp_objects(tag + ".roll", x.roll, y.roll, k, rtol, probs, size, missing, rtol_for)
            _cmp_value(tag + ".contour_lines", x.contour_lines, y.contour_lines, k, 1, rtol, probs, size, missing)
    if missing:
        probs.append(("sequence:undeclared", f"hooks without a declared dimension: {sorted(missing)}"))
    return probs


UNIT_PAIRS = [("m", "mm"), ("mm", "m"), ("m", "cm"), ("m", "inch"), ("mm", "inch"), ("inch", "mm"), ("mm", "dm"),
              ("cm", "mm"), ("inch", "m")]


# pairs with the description in metres on one side (the end of the stated range at which small products have the smallest
# numbers) - used for the streams that vary the real size of the product
UNIT_PAIRS_M = [("m", "mm"), ("mm", "m"), ("m", "inch"), ("m", "cm"), ("inch", "m"), ("m", "dm")]
# real product sizes relative to the 30 mm bar of the layouts: 1 mm wire ... 300 mm bloom, range ends first
REAL_SIZES = [1 / 30, 10.0, 1 / 25, 1 / 10, 1 / 3, 3.0]


def _real_size(rng, i, units, lo=1 / 30, hi=10.0):
    if i < 2 * len(REAL_SIZES):
        return REAL_SIZES[i % len(REAL_SIZES)]
    return math.exp(rng.uniform(math.log(lo), math.log(hi)))


def _sequence_case(ctx, stream, i, name, in_spec, units, ua, ub, real_size=1.0, resolve=False):
    fa, fb = UNITS[ua], UNITS[ub]
    probs = _sequence_problems(name, in_spec, units, fa, fb, real_size=real_size, resolve=resolve)
    if isinstance(probs, tuple):
        ctx.count("sequence:fails-in-both")
        ctx.notes.setdefault("sequences_failing_in_both_descriptions", {})[name] = probs[1][:300]
        return
    ctx.case(["sequence", name, ua, ub, resolve,
              [sorted((a, round(b, 12)) for a, b in u["lengths"].items()) for u in units],
              sorted((a, round(b, 12)) for a, b in in_spec["lengths"].items())])
    ctx.count("sequence:" + name)
    ctx.count(f"sequence-units:{ua}->{ub}")
    if stream != "layout":
        ctx.count("sequence-stream:" + stream)
        ctx.count("sequence-real-size:1e%+d mm" % round(math.log10(30 * real_size)))
    if resolve:
        ctx.count("sequence:solved-twice")
    _emit(ctx, _sequence_regime(units, real_size, fa, fb), probs, "",
          {"kind": "sequence", "name": name, "in": in_spec, "units": units, "unit_a": ua, "unit_b": ub,
           "real_size": real_size, "resolve": resolve})
    if len(ctx.samples) < 3:
        ctx.sample({"sequence": name, "units": [u["u"] for u in units], "described_in": [ua, ub]})


def _run_sequences(ctx):
    rng = ctx.rng
    n = ctx.budget(20, 300)
    specs = []
    while len(specs) < n:
        specs += list(_seq_specs(rng))
    for i, (name, in_spec, units) in enumerate(specs[:n]):
        ua, ub = UNIT_PAIRS[(i + ctx.seed) % len(UNIT_PAIRS)]
        # every fourth case: solved a second time on the used objects
        _sequence_case(ctx, "layout", i, name, in_spec, units, ua, ub, resolve=(i % 4 == 3))
    # --- the same layouts for products of other real sizes (1 mm wire ... 300 mm bloom)
    n = ctx.budget(10, 200)
    specs = []
    while len(specs) < n:
        specs += list(_seq_specs(rng))
    for i, (name, in_spec, units) in enumerate(specs[:n]):
        rs = _real_size(rng, i, units)
        in2, units2 = _scale_layout(in_spec, units, rs)
        if i % 2 == 1:
            units2 = _vary_inputs(rng, units2)
            name += "+explicit-drive"
        ua, ub = UNIT_PAIRS_M[(i + ctx.seed) % len(UNIT_PAIRS_M)]
        _sequence_case(ctx, "real-size", i, name, in2, units2, ua, ub, real_size=rs)
    # --- sizing stands that only just touch the stock, products of every real size
    n = ctx.budget(9, 150)
    i = 0
    while i < n:
        for (name, in_spec, units) in _sizing_specs(rng, first=(i < 3)):
            if i >= n:
                break
            rs = REAL_SIZES[(i // 3) % len(REAL_SIZES)] if i < 3 * len(REAL_SIZES) else \
                math.exp(rng.uniform(math.log(1 / 30), math.log(10)))
            in2, units2 = _scale_layout(in_spec, units, rs)
            ua, ub = UNIT_PAIRS_M[(i + ctx.seed) % len(UNIT_PAIRS_M)]
            _sequence_case(ctx, "sizing", i, name, in2, units2, ua, ub, real_size=rs)
            i += 1
    # --- passes in finely sampled spline grooves
    n = ctx.budget(3, 45)
    i = 0
    while i < n:
        for (name, in_spec, units) in _spline_pass_specs(rng):
            if i >= n:
                break
            ua, ub = UNIT_PAIRS_M[(i + ctx.seed) % len(UNIT_PAIRS_M)]
            rs = 1.0 if i < 3 else math.exp(rng.uniform(math.log(1 / 30), math.log(10)))
            in2, units2 = _scale_layout(in_spec, units, rs)
            i += 1
            _sequence_case(ctx, "spline-pass", i, name, in2, units2, ua, ub, real_size=rs)


def _run_velocity_loops(ctx):
    """PassSequence.solve_velocities_forward/backward: the stop test `difference < 0.01` is absolute (found by the
    translator as inhomogeneous) - here its consequence is looked for on real sequences: fast lines (m/s, where the first
    correction exceeds 0.01 in every unit and the second is exactly 0: the case of C11.abs_tolerance_scale_stable) and
    slow lines (tens of mm/s, where the first correction is below 0.01 in m/s but not in mm/s)"""
    rng = ctx.rng
    n = ctx.budget(4, 40)
    layouts = [s for s in _seq_specs(rng) if s[0] in ("oval-round-oval", "oval-rot-round", "oval-tlen-round")]
    for i in range(n):
        name, in_spec, units = layouts[i % len(layouts)]
        slow = i % 2 == 1
        speed = rng.uniform(0.02, 0.05) if slow else rng.uniform(1.0, 8.0)
        mode = ("forward", speed) if (i // 2) % 2 == 0 else ("backward", speed, 4.2e-4)
        ua, ub = ("m", "mm") if i % 3 else ("m", "inch")
        probs = _sequence_problems(name + ":" + mode[0], in_spec, units, UNITS[ua], UNITS[ub], velocity=mode)
        if isinstance(probs, tuple):
            ctx.count("velocity-loop:fails-in-both")
            continue
        ctx.case(["velocity-loop", name, mode[0], round(mode[1], 6), ua, ub])
        ctx.count("velocity-loop:" + mode[0] + (":slow" if slow else ":fast"))
        for key, what in probs:
            ctx.violation(_key(("velocity-loop-slow-" if slow else "velocity-loop-") + key), what,
                          {"kind": "velocity-loop", "name": name, "in": in_spec, "units": units, "mode": list(mode),
                           "unit_a": ua, "unit_b": ub})


# =====================================================================================================================
def replay(ctx, data):
    r = data.get("replay", data)
    kind = r.get("kind")
    regime = None
    if kind == "groove":
        probs = _groove_problems(r["spec"], r["base"], r["k"]) or []
        probs = [(r.get("prefix", "") + k_, w) for k_, w in probs]
        pre = r["spec"]["cls"] + ": "
        regime = _groove_regime(r["spec"], r["base"], r["k"])
    elif kind == "study":
        probs = _study_problems(r["members"], r["base"], r["k"]) or []
        pre = r["members"][0]["cls"] + " study: "
    elif kind == "profile":
        probs = _profile_problems(r["spec"], r["base"], r["k"]) or []
        pre = f"Profile.{r['spec']['factory']}: "
    elif kind in ("sequence", "velocity-loop"):
        vel = tuple(r["mode"]) if kind == "velocity-loop" else None
        probs = _sequence_problems(r["name"], r["in"], r["units"], UNITS[r["unit_a"]], UNITS[r["unit_b"]], vel,
                                   real_size=r.get("real_size", 1.0), resolve=r.get("resolve", False))
        probs = [] if isinstance(probs, tuple) else probs
        pre = ""
        if kind == "sequence":
            regime = _sequence_regime(r["units"], r.get("real_size", 1.0), UNITS[r["unit_a"]], UNITS[r["unit_b"]])
        if kind == "velocity-loop":
            # same key scheme as _run_velocity_loops: lines slower than 0.1 (m/s) are the "slow" regime
            pre_k = "velocity-loop-slow-" if r["mode"][1] < 0.1 else "velocity-loop-"
            probs = [(pre_k + k, w) for k, w in probs]
    else:
        raise NotImplementedError("replay of this kind of case: re-run ./check C11 with the recorded seed")
    _emit(ctx, regime, probs, pre, r)


def run(ctx):
    from . import common  # noqa: F401  (silences pyroll's loggers)
    data = getattr(ctx, "c11", None)
    if data is None:                     # extended search re-enters run() without translate()
        data = c11_dims.collect()
    if getattr(ctx, "model_available", True):
        _hook_correspondence(ctx, data, ctx.budget(4, 40))
        _groove_correspondence(ctx, data, ctx.budget(len(GROOVES), 4 * len(GROOVES)))
        _plain_correspondence(ctx, data, ctx.budget(2, 12))
        _residual_at_roots(ctx, data, ctx.budget(2, 20))
    _run_corpus(ctx)
    _run_grooves(ctx)
    _run_sampled_splines(ctx)
    _run_studies(ctx)
    _run_profiles(ctx)
    _run_sequences(ctx)
    _run_velocity_loops(ctx)
