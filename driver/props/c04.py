"""C04 - groove parameters resolve consistently whichever defining subset is given.

Tie: T (the solver module, the solver-backed constructors and the junction chain of
`GenericElongationGroove.__init__` are re-translated on every run -> lean/PyrollModel/Gen/C04.lean and
Gen/C04Groove.lean; the theorems of lean/PyrollProps/C04.lean are re-checked against the regenerated terms)
 + K (every generated definition is evaluated over Float by the Lean driver and compared with the real code:
      * solver closed forms      vs. the dict the real solver returned for the very same arguments,
      * solver residuals         vs. the real residual closure (captured by wrapping scipy's root finders inside
                                   pyroll's solver module) at the returned root and at random probe points,
      * constructor plumbing     vs. the arguments the real constructor handed to the solver and the attributes
                                   of the finished groove,
      * junction chain z*/y*, alpha1/2, beta, gamma, contour-line functions, fourth-of-four resolution
                                 vs. the attributes / methods of the real groove object,
      * both sides of every test of `test_plausibility` vs. the code's own sub-expressions executed on the object, and
        "one of them fires" vs. what the real method does).
The independent oracle is written from the property text: a tracer re-traces the contour from the resolved radii and
angles starting at the groove centre and checks that it closes at (usable_width/2, face) and at `depth`, that all joints
are tangential without gaps or steps, that every given value is echoed, and that re-building from another admissible
subset filled with the derived values gives the same contour wherever the values determine the groove uniquely.
The same oracle is applied to the parameters the constructor had already resolved when it refuses an input (the generic
constructor validates what it computed and raises: inconsistent derived values then show up as a rejection, not as a groove),
to a sibling of every groove (same values, another pad angle) and to a re-build from the same values.
Fourth wave: the values a constructor stores on the object and the public properties handing them out are translated too
(`driver/translate/c04_stored.py` -> Gen/C04Stored.lean, theorems in PyrollProps/C04Stored.lean, K on every construction);
the oracle has value clauses `derived-value:<Class>:<name>` for every derived dimension the object reports and `face-end` for
the end point of the roll face; a pass-through stream gives the generic constructor's optional arguments explicitly.
"""
import contextlib
import functools
import inspect
import math

from ..translate import c04_solvers as T_solvers
from ..translate import c04_stored as T_stored
from ..translate import c04_validator as T_valid
from ..translate import groove as T_groove
from ..translate import pyexpr
from .. import stub

ID = "C04"
LEAN_MODULES = ["PyrollProps.C04", "PyrollProps.C04Boundary", "PyrollProps.C04Stored"]
MODEL = "c04"
MODEL_MODULES = ["PyrollModel.Gen.C04", "PyrollModel.Gen.C04Groove", "PyrollModel.Gen.C04Valid", "PyrollModel.Gen.C04Stored",
                 "PyrollModel.EvalDriver"]
RULE = ("for each solver-backed groove class (20 incl. the Upset/Square subclasses and the generic class) and each admissible "
        "defining subset: a *feasible* geometry is drawn forwards (angles, radii, flank length, pad angle in {0,30,45,random}, "
        "scale log-uniform over 5 decades), the over-determined parameters are computed from it and the subset is handed to "
        "the real constructor; a case = one constructed groove (or one rejected draw); non-trivial = constructed and checked; "
        "distinct by class, subset and rounded parameters. Every constructed groove A is re-built from every other admissible "
        "subset B filled with the values measured on A, then built with the same values under another pad angle (sibling) "
        "and finally once more from A's own values (must give A's contour again). A draw the constructor refuses AFTER "
        "it has resolved the parameters is checked on the refused object. Boundary stream: every class x admissible subset "
        "with parameters exactly on the end of their range. Pass-through stream: every class handing **kwargs to the generic "
        "constructor x pad angle 0/30/45 x the generic constructor's optional non-geometric arguments (pad, rel_pad, "
        "classifiers; read from its signature) given explicitly. Every derived dimension the object reports (tip_angle, "
        "tip_depth, ground_width, width, end of the roll face) is recomputed from the traced geometry.")
ASSUMPTIONS = [
    "IEEE rounding: theorems are over the reals; float comparisons use rtol 1e-9 (closed forms) and tolerances derived "
    "from the iteration precision of the scipy root finders (xtol 1.5e-8 for root/fixed_point, 2e-12 for root_scalar)",
    "scipy root_scalar/root/fixed_point return a root of the residual they are given, or raise (contract; the harness checks "
    "the returned root against the translated residual on every case)",
    "closure theorems are conditional on that contract; uniqueness of the root is proved only for the box-like "
    "even_ground_width+usable_width branch (under r2 <= W/2) and is otherwise established numerically per case",
    "of the generic constructor's validation only test_plausibility is in the model (a resolution that closes is not refused, "
    "the step test is two-sided); test_contour_points / test_complexity_of_contour_line work on sampled arrays and are only "
    "exercised: a refusal of a consistent resolution is counted (rejected-consistent), not reported",
]
TRUSTED_EXTRA = ["translator driver/translate/c04_solvers.py + c04_stored.py + groove.py (symbolic execution of the solver "
                 "module and of the constructors per None-pattern, incl. the values stored on the object and the getters "
                 "handing them out); mitigated by the per-definition differential run"]

DEG = math.pi / 180

# ---------------------------------------------------------------------------------------------------------
# the real classes and their admissible subsets
# ---------------------------------------------------------------------------------------------------------
R124_PLAIN = ["RoundGroove", "CircularOvalGroove"]
BOX_PLAIN = ["BoxGroove", "UpsetBoxGroove", "HexagonalGroove", "SwedishOvalGroove"]
BOX_CONSTR = ["ConstrictedBoxGroove", "ConstrictedUpsetBoxGroove", "ConstrictedSwedishOvalGroove"]
R123_PLAIN = ["Oval3RadiiGroove", "UpsetOvalGroove", "GothicGroove"]
FLANK = ["flank_angle", "flank_width", "flank_height", "flank_length"]
BOX_SUBSETS = [("usable_width", "ground_width"), ("usable_width", "even_ground_width"), ("usable_width", "flank_angle"),
               ("ground_width", "flank_angle"), ("even_ground_width", "flank_angle")]
PAIRS3 = [("r2", "depth"), ("r2", "usable_width"), ("depth", "usable_width")]


DIRECT = ["solve_r124:direct", "solve_r1234:direct"]      # the solver functions themselves (patterns no class reaches)
MODEL_CLASS = {"UpsetBoxGroove": "BoxGroove", "ConstrictedUpsetBoxGroove": "ConstrictedBoxGroove",
               "SquareGroove": "DiamondGroove"}             # subclasses that inherit the constructor


def _cls(name):
    import pyroll.core.grooves as G
    if name == "solve_r124:direct":
        return _direct_r124
    if name == "solve_r1234:direct":
        return _direct_r1234
    return getattr(G, name)


def _direct_r124(r1, pad_angle, r4, indent, r2=None, depth=None, usable_width=None, flank_angle=None, **flank):
    """solve_r124 called the way a (hypothetical) constricted one-radius class would, then the generic constructor"""
    import numpy as np
    import pyroll.core.grooves.rounds.round as M             # its `solve_r124` is the logging wrapper while instrumented
    from pyroll.core.grooves import GenericElongationGroove
    p = pad_angle * DEG
    sol = M.solve_r124(r1=r1, r2=r2, depth=depth, width=usable_width, pad_angle=p, r4=r4, indent=indent,
                       flank_angle=None if flank_angle is None else flank_angle * DEG, **flank)
    a4 = float(np.arccos(1 - indent / (sol["r2"] + r4)))
    return GenericElongationGroove(r1=r1, r2=float(sol["r2"]), depth=float(sol["depth"]), usable_width=float(sol["width"]),
                                   flank_angle=float(sol["alpha"]), r4=r4, alpha4=a4, indent=indent, pad_angle=p)


def _direct_r1234(r1, r2, r3, r4, depth, usable_width, indent, pad_angle, flank_angle=None, **flank):
    import pyroll.core.grooves.ovals.constricted_circular_oval as M
    from pyroll.core.grooves import GenericElongationGroove
    p = pad_angle * DEG
    sol = M.solve_r1234(r1, r2, r3, r4, depth, usable_width, indent, p,
                        flank_angle=None if flank_angle is None else flank_angle * DEG, **flank)
    return GenericElongationGroove(r1=r1, r2=r2, r3=r3, r4=r4, depth=depth, usable_width=usable_width, indent=indent,
                                   flank_angle=float(sol["flank_angle"]), alpha3=float(sol["alpha3"]),
                                   alpha4=float(sol["alpha4"]), pad_angle=p)


def subsets_of(cname):
    if cname in R124_PLAIN:
        return PAIRS3
    if cname == "FalseRoundGroove":
        return [p + (f,) for p in PAIRS3 for f in FLANK]
    if cname == "FlatOvalGroove":
        return [("usable_width",), ("even_ground_width",)]
    if cname == "Oval3RadiiFlankedGroove":
        return [(f,) for f in FLANK]
    if cname in BOX_PLAIN + BOX_CONSTR:
        return BOX_SUBSETS
    if cname in ("DiamondGroove", "SquareGroove"):
        return [("usable_width", "tip_depth"), ("usable_width", "tip_angle"), ("tip_depth", "tip_angle")]
    if cname == "solve_r124:direct":
        return [p + (f,) for p in PAIRS3 for f in FLANK] + PAIRS3
    if cname == "solve_r1234:direct":
        return [(f,) for f in FLANK[1:]]       # the flank_angle branch never converges (see notes/C04.md): rejections only
    if cname == "GenericElongationGroove":
        return [("ground_width", "flank_angle", "depth"), ("usable_width", "flank_angle", "depth"),
                ("usable_width", "ground_width", "depth"), ("usable_width", "ground_width", "flank_angle")]
    return [()]


ALL_CLASSES = (R124_PLAIN + ["FalseRoundGroove", "FlatOvalGroove"] + R123_PLAIN
               + ["Oval3RadiiFlankedGroove", "EquivalentRibbedGroove", "ConstrictedCircularOvalGroove"]
               + BOX_PLAIN + BOX_CONSTR + ["DiamondGroove", "SquareGroove", "GenericElongationGroove"])

NO_FLANK = set(R124_PLAIN + ["FlatOvalGroove"] + R123_PLAIN + ["EquivalentRibbedGroove", "ConstrictedCircularOvalGroove"])

# parameters whose value the solvers determine numerically, per class family: solver precision applies to them
# and to everything computed from them
ITERATIVE = set(R124_PLAIN + ["FalseRoundGroove", "FlatOvalGroove"] + R123_PLAIN
                + ["Oval3RadiiFlankedGroove", "EquivalentRibbedGroove", "ConstrictedCircularOvalGroove"] + DIRECT)


# ---------------------------------------------------------------------------------------------------------
# feasible geometries, drawn forwards
# ---------------------------------------------------------------------------------------------------------
def _pad_angle(rng, fa_max_deg):
    p = rng.choice([0.0, 0.0, 30.0, 45.0, rng.uniform(0, 50)])
    return min(p, 170 - fa_max_deg)


# ---------------------------------------------------------------------------------------------------------
# boundary stream: a legitimate parameter exactly ON a boundary of its range
# ---------------------------------------------------------------------------------------------------------
# The documented range of every measure is "non-negative" (GenericElongationGroove.__init__: "All measures must be
# non-negative"), of the flank angle "less than 90 degrees", of the pad angle "commonly 0 / 30 / 45 degrees".  A value
# exactly on the end of its range (a radius exactly 0 = sharp edge, no indent, no even ground, no flank, a flank angle
# next to 0 or 90 degrees) or exactly equal to a neighbouring dimension (two radii equal: the joint between their arcs
# disappears) is where formulas degenerate (a quadratic becomes linear, an arc becomes a point, a denominator a factor)
# and where code tends to branch (`if r1 > 0`, `if indent == 0`, `if pad_angle == 0`): random draws from the interior
# never hit these values.  The property quantifies over the whole feasible region, which includes its boundary.
EDGE_PADS = ("pad=0", "pad=30", "pad=45")
EDGE_FA_LO = (0.5, 2.0)          # degrees: next to the lower end of the flank-angle range (0 itself: no groove at all)
EDGE_FA_HI = (88.0, 89.5)        # next to the documented upper limit "less than 90 degrees"


def edge_features(cname):
    """the boundary features that exist for class `cname` (see `draw(..., edge=...)`)"""
    if cname in R124_PLAIN:
        return ["r1=0", "r1=r2", "fa-lo", "fa-hi"]
    if cname == "FalseRoundGroove":
        return ["r1=0", "r1=r2", "fa-lo", "fa-hi", "flank=0"]
    if cname == "FlatOvalGroove":
        return ["r1=0", "r1=r2", "fa-lo", "fa-hi", "egw=0"]
    if cname in R123_PLAIN:
        return ["r1=0", "r1=r2", "r2=r3", "fa-lo", "fa-hi"]
    if cname == "Oval3RadiiFlankedGroove":
        return ["r1=0", "r1=r2", "r2=r3", "fa-lo", "fa-hi", "flank=0"]
    if cname == "EquivalentRibbedGroove":
        return ["r1=0", "fa-lo", "fa-hi"]
    if cname == "ConstrictedCircularOvalGroove":
        return ["r1=0", "r1=r2", "r2=r3", "r3=r4", "r2=r4", "egw=0", "egw>0", "indent=0", "fa-lo", "fa-hi"]
    if cname in BOX_PLAIN:
        return ["r1=0", "r2=0", "r1=r2", "egw=0", "fa-lo", "fa-hi"]
    if cname in BOX_CONSTR:
        return ["r1=0", "r2=0", "r1=r2", "r2=r4", "r4=0", "indent=0", "egw=0", "fa-lo", "fa-hi"]
    if cname == "DiamondGroove":
        return ["r1=0", "r2=0", "r1=r2", "fa-lo", "fa-hi"]
    if cname == "SquareGroove":
        return ["r1=0", "r2=0", "r1=r2"]
    if cname == "GenericElongationGroove":
        return ["r1=0", "r2=0", "r1=r2", "egw=0", "fa-lo", "fa-hi"]
    return []


def _edge_fa(rng, edge, a):
    """the flank angle (radians) of the witness geometry: next to an end of its range when the feature is asked for"""
    if "fa-lo" in edge:
        return rng.choice(EDGE_FA_LO) * DEG
    if "fa-hi" in edge:
        return rng.choice(EDGE_FA_HI) * DEG
    return a


def _edge_pad(edge, p, fa_deg):
    for e in edge:
        if e.startswith("pad="):
            return min(float(e[4:]), 170 - fa_deg)
    return p


# ---------------------------------------------------------------------------------------------------------
# pass-through stream: optional arguments of the generic constructor that usually keep their default
# ---------------------------------------------------------------------------------------------------------
# `GenericElongationGroove.__init__` has optional keyword arguments that no solver-backed class sets itself and that every
# class taking `**kwargs` hands through unchanged (`pad`, `rel_pad`, `classifiers` - read from the signature, see
# `passthrough_params`).  They do not enter the resolution of the over-determined parameters, so the statement must hold
# unchanged when they are given explicitly: the contour is the same whichever defining subset is given, the roll face runs
# from junction 1 along the line through (usable_width/2, 0) inclined by the pad angle and joins the r1 arc tangentially,
# given values are reproduced.  Tests and examples leave them at their defaults (or give them with pad angle 0), so code
# that treats an explicitly given value differently from the default is exercised only by a stream that gives them, for
# every class x pad angle 0 / 30 / 45.
# the arguments through which the groove geometry itself is given / resolved (handed over by the constructors, `plumb_*`)
GEOMETRIC_ARGS = frozenset(["r1", "r2", "r3", "r4", "alpha3", "alpha4", "indent", "even_ground_width", "usable_width",
                            "ground_width", "flank_angle", "depth", "pad_angle"])


@functools.lru_cache(maxsize=None)
def passthrough_params():
    """{name: default} of the optional parameters of the generic constructor that are not geometric arguments"""
    from pyroll.core.grooves import GenericElongationGroove
    out = {}
    for n, prm in inspect.signature(GenericElongationGroove.__init__).parameters.items():
        if n == "self" or prm.default is inspect.Parameter.empty or n in GEOMETRIC_ARGS \
                or prm.kind in (inspect.Parameter.VAR_POSITIONAL, inspect.Parameter.VAR_KEYWORD):
            continue
        out[n] = prm.default
    return out


def _passthrough_names():
    return frozenset(passthrough_params())


def accepts_passthrough(cname):
    """the class hands unknown keyword arguments on to the generic constructor (`**kwargs`), or is the generic class"""
    if cname == "GenericElongationGroove":
        return True
    if cname in DIRECT:
        return False
    return any(prm.kind is inspect.Parameter.VAR_KEYWORD
               for prm in inspect.signature(_cls(cname).__init__).parameters.values())


def passthrough_value(rng, name, default, scale):
    """an explicit, non-default value for the pass-through parameter `name`; None when its kind is unknown to the harness.
    A number named `rel_*` is a ratio to the usable width, any other number an absolute measure of the size of the groove;
    a sequence is a sequence of (classifier) strings."""
    if isinstance(default, bool):
        return None
    if isinstance(default, (int, float)):
        return rng.uniform(0.05, 0.6) if name.startswith("rel_") else scale * rng.uniform(0.05, 0.5)
    if isinstance(default, (tuple, list, set, frozenset)):
        return ["c04_probe", "c04_" + name]
    return None


def draw(rng, cname, edge=frozenset()):
    """-> (fixed kwargs, values of all over-determined parameters, info) for a feasible geometry of class `cname`.
    `edge`: boundary features (see `edge_features`, `EDGE_PADS`): the named parameters are put exactly ON the boundary of
    their range, everything else is drawn as usual and the over-determined parameters are computed forwards from the lot."""
    s = 10 ** rng.uniform(-3, 2)
    ext = {}
    if rng.random() < 0.3 and cname not in ("DiamondGroove", "SquareGroove", "GothicGroove"):
        ext["pad"] = s * rng.uniform(0.05, 0.5)
    if cname in R124_PLAIN + ["FalseRoundGroove", "FlatOvalGroove"]:
        a = rng.uniform(12, 80) * DEG
        p = _pad_angle(rng, a / DEG)
        r2 = s
        r1 = s * rng.uniform(0.02, 0.4)
        fl = s * rng.uniform(0.02, 0.8) if cname == "FalseRoundGroove" else 0.0
        if edge:
            a = _edge_fa(rng, edge, a)
            p = _edge_pad(edge, p, a / DEG)
            r1 = 0.0 if "r1=0" in edge else r2 if "r1=r2" in edge else r1
            fl = 0.0 if "flank=0" in edge else fl
        l = r1 * math.tan((a + p * DEG) / 2)
        depth = r2 * (1 - math.cos(a)) + (fl + l) * math.sin(a)
        half = r2 * math.sin(a) + (fl + l) * math.cos(a)
        fixed = dict(r1=r1, pad_angle=p, **ext)
        vals = dict(r2=r2, depth=depth, usable_width=2 * half, flank_angle=a / DEG, flank_length=fl,
                    flank_width=fl * math.cos(a), flank_height=fl * math.sin(a))
        if cname == "FlatOvalGroove":
            egw = s * rng.uniform(0.05, 3)
            if "egw=0" in edge:
                egw = 0.0
            fixed.update(r2=r2, depth=depth)
            vals = dict(usable_width=2 * half + egw, even_ground_width=egw)
        return fixed, vals, dict(scale=s, fa=a)
    if cname == "solve_r124:direct":
        a = rng.uniform(12, 80) * DEG
        p = _pad_angle(rng, a / DEG)
        r2 = s
        r1 = s * rng.uniform(0.02, 0.4)
        r4 = s * rng.uniform(0.1, 1.5)
        indent = (r2 + r4) * (1 - math.cos(rng.uniform(3, 30) * DEG))
        fl = s * rng.uniform(0.02, 0.8)
        l = r1 * math.tan((a + p * DEG) / 2)
        a4 = math.acos(1 - indent / (r2 + r4))
        depth = r2 * (1 - math.cos(a)) + (fl + l) * math.sin(a)
        half = r2 * math.sin(a) + (fl + l) * math.cos(a) + (r2 + r4) * math.sin(a4)
        return (dict(r1=r1, pad_angle=p, r4=r4, indent=indent),
                dict(r2=r2, depth=depth, usable_width=2 * half, flank_angle=a / DEG, flank_length=fl,
                     flank_width=fl * math.cos(a), flank_height=fl * math.sin(a)), dict(scale=s, fa=a, fl=fl))
    if cname == "solve_r1234:direct":
        a4 = rng.uniform(5, 25) * DEG
        a3 = a4 + rng.uniform(5, 30) * DEG
        a2 = rng.uniform(15, 45) * DEG
        fa = a2 + a3 - a4
        p = _pad_angle(rng, fa / DEG)
        r4 = s * rng.uniform(0.3, 2)
        r3 = s * rng.uniform(1, 4)
        r2 = s * rng.uniform(0.2, 1)
        r1 = s * rng.uniform(0.02, 0.3)
        fl = s * rng.uniform(0.02, 0.6)
        indent = (r3 + r4) * (1 - math.cos(a4))
        l = r1 * math.tan((fa + p * DEG) / 2)
        depth = r3 - (r3 - r2) * math.cos(a3 - a4) - r2 * math.cos(fa) + (fl + l) * math.sin(fa)
        half = (r3 - r2) * math.sin(a3 - a4) + r2 * math.sin(fa) + (fl + l) * math.cos(fa) + (r3 + r4) * math.sin(a4)
        return (dict(r1=r1, r2=r2, r3=r3, r4=r4, depth=depth, usable_width=2 * half, indent=indent, pad_angle=p),
                dict(flank_angle=fa / DEG, flank_length=fl, flank_width=fl * math.cos(fa), flank_height=fl * math.sin(fa)),
                dict(scale=s, fa=fa))
    if cname in R123_PLAIN + ["Oval3RadiiFlankedGroove", "EquivalentRibbedGroove"]:
        a3 = rng.uniform(8, 35) * DEG
        a2 = rng.uniform(15, 50) * DEG
        fa = a2 + a3
        p = _pad_angle(rng, fa / DEG)
        r3 = s * rng.uniform(1.5, 6)
        r2 = s * rng.uniform(0.2, 1.2)
        if cname == "UpsetOvalGroove" and rng.random() < 0.5:
            r3, r2 = r2, r3
        r1 = s * rng.uniform(0.02, 0.3)
        fl = s * rng.uniform(0.02, 0.6) if cname == "Oval3RadiiFlankedGroove" else 0.0
        if edge:
            fa = _edge_fa(rng, edge, fa)
            if fa != a2 + a3:                       # the same split of the turning between the r3 and the r2 arc
                a3, a2 = fa * a3 / (a2 + a3), fa * a2 / (a2 + a3)
            p = _edge_pad(edge, p, fa / DEG)
            r3 = r2 if "r2=r3" in edge else r3
            r1 = 0.0 if "r1=0" in edge else r2 if "r1=r2" in edge else r1
            fl = 0.0 if "flank=0" in edge else fl
        l = r1 * math.tan((fa + p * DEG) / 2)
        depth = r3 - (r3 - r2) * math.cos(a3) - r2 * math.cos(fa) + (fl + l) * math.sin(fa)
        half = (r3 - r2) * math.sin(a3) + r2 * math.sin(fa) + (fl + l) * math.cos(fa)
        fixed = dict(r1=r1, r2=r2, r3=r3, depth=depth, usable_width=2 * half, pad_angle=p, **ext)
        vals = dict(flank_angle=fa / DEG, flank_length=fl, flank_width=fl * math.cos(fa), flank_height=fl * math.sin(fa))
        if cname == "EquivalentRibbedGroove":
            # r2 is itself computed from the rib data: draw those and recompute the geometry with the resulting r2
            D = s * rng.uniform(8, 14)
            h = D * rng.uniform(0.88, 0.97)
            rib = dict(rib_distance=s * rng.uniform(4, 9), rib_width=s * rng.uniform(1, 3), rib_angle=rng.uniform(30, 70),
                       base_body_height=h, nominal_outer_diameter=D)
            r2 = _ribbed_r2(**rib)
            r3 = r2 * rng.uniform(1.5, 4)
            r1 = r2 * rng.uniform(0.02, 0.2)
            if "r1=0" in edge:
                r1 = 0.0
            l = r1 * math.tan((fa + p * DEG) / 2)
            depth = r3 - (r3 - r2) * math.cos(a3) - r2 * math.cos(fa) + l * math.sin(fa)
            half = (r3 - r2) * math.sin(a3) + r2 * math.sin(fa) + l * math.cos(fa)
            ext.pop("pad", None)
            fixed = dict(r1=r1, r3=r3, depth=depth, usable_width=2 * half, pad_angle=p, **rib)
            vals = {}
        if cname in R123_PLAIN + ["EquivalentRibbedGroove"]:
            vals = {}
        return fixed, vals, dict(scale=s, fa=fa)
    if cname == "ConstrictedCircularOvalGroove":
        a4 = rng.uniform(5, 25) * DEG
        a3 = a4 + rng.uniform(5, 30) * DEG
        a2 = rng.uniform(15, 45) * DEG
        fa = a2 + a3 - a4
        p = _pad_angle(rng, fa / DEG)
        r4 = s * rng.uniform(0.3, 2)
        r3 = s * rng.uniform(1, 4)
        r2 = s * rng.uniform(0.2, 1)
        r1 = s * rng.uniform(0.02, 0.3)
        egw = s * rng.choice([0.0, rng.uniform(0.1, 2)])
        if edge:
            if "indent=0" in edge:
                a3, a4 = a3 - a4, 0.0               # no constriction: the r4 arc has no extent, the ground is flat
            t = _edge_fa(rng, edge, fa)
            if t != fa:                             # the r2 arc takes up the difference (at least 0.1 degree of it is left)
                a2 = max(t - (a3 - a4), 0.1 * DEG)
            fa = a2 + a3 - a4
            p = _edge_pad(edge, p, fa / DEG)
            r3 = r2 if "r2=r3" in edge else r3
            r4 = r3 if "r3=r4" in edge else r2 if "r2=r4" in edge else r4
            r1 = 0.0 if "r1=0" in edge else r2 if "r1=r2" in edge else r1
            egw = 0.0 if "egw=0" in edge else s * rng.uniform(0.1, 2) if "egw>0" in edge else egw
        indent = (r3 + r4) * (1 - math.cos(a4))
        l = r1 * math.tan((fa + p * DEG) / 2)
        depth = r3 - (r3 - r2) * math.cos(a3 - a4) - r2 * math.cos(fa) + l * math.sin(fa)
        half = (r3 - r2) * math.sin(a3 - a4) + r2 * math.sin(fa) + l * math.cos(fa) + (r3 + r4) * math.sin(a4)
        fixed = dict(r1=r1, r2=r2, r3=r3, r4=r4, depth=depth, usable_width=2 * half + egw, indent=indent,
                     even_ground_width=egw, pad_angle=p, **ext)
        return fixed, {}, dict(scale=s, fa=fa)
    if cname in BOX_PLAIN + BOX_CONSTR:
        fa = rng.uniform(25, 88) * DEG if "Hex" not in cname and "Swedish" not in cname else rng.uniform(25, 70) * DEG
        p = _pad_angle(rng, fa / DEG)
        depth = s
        r2 = s * rng.uniform(0.02, 0.45)
        r1 = s * rng.uniform(0.02, 0.3)
        egw = s * rng.uniform(0.1, 4)
        if edge:
            fa = _edge_fa(rng, edge, fa)
            p = _edge_pad(edge, p, fa / DEG)
            r2 = 0.0 if "r2=0" in edge else r2
            r1 = 0.0 if "r1=0" in edge else r2 if "r1=r2" in edge else r1
            egw = 0.0 if "egw=0" in edge else egw
        fixed = dict(r1=r1, r2=r2, depth=depth, pad_angle=p, **ext)
        c4 = 0.0
        if cname in BOX_CONSTR:
            r4 = s * rng.uniform(0.05, 1)
            indent = (r2 + r4) * (1 - math.cos(rng.uniform(3, 40) * DEG))
            if edge:
                r4 = 0.0 if "r4=0" in edge else r2 if "r2=r4" in edge else r4
                indent = 0.0 if "indent=0" in edge else min(indent, 0.9 * (r2 + r4))
                if r2 + r4 == 0:
                    indent = 0.0                    # two sharp corners leave nothing to indent with
            fixed.update(r4=r4, indent=indent)
            c4 = (r4 + r2) * math.sin(math.acos(1 - indent / (r2 + r4))) if r2 + r4 > 0 else 0.0
        gw = egw + 2 * (c4 + r2 * math.tan(fa / 2))
        uw = gw + 2 * depth / math.tan(fa)
        vals = dict(ground_width=gw, even_ground_width=egw, usable_width=uw, flank_angle=fa / DEG)
        return fixed, vals, dict(scale=s, fa=fa)
    if cname in ("DiamondGroove", "SquareGroove"):
        a = (rng.uniform(43, 47) if cname == "SquareGroove" else rng.uniform(20, 70)) * DEG
        p = _pad_angle(rng, a / DEG)
        uw = 2 * s
        td = s * math.tan(a)
        r2 = s * rng.uniform(0.02, 0.4) * min(1.0, math.tan(a))
        r1 = s * rng.uniform(0.02, 0.3)
        if edge:
            a = _edge_fa(rng, edge, a)
            p = _edge_pad(edge, p, a / DEG)
            td = s * math.tan(a)
            r2 = 0.0 if "r2=0" in edge else min(r2, 0.4 * s * math.tan(a))
            r1 = 0.0 if "r1=0" in edge else r2 if "r1=r2" in edge else r1
        fixed = dict(r1=r1, r2=r2, pad_angle=p)
        vals = dict(usable_width=uw, tip_depth=td, tip_angle=(math.pi - 2 * a) / DEG)
        return fixed, vals, dict(scale=s, fa=a)
    if cname == "GenericElongationGroove":
        fa = rng.uniform(20, 85) * DEG
        p = _pad_angle(rng, fa / DEG) * DEG
        depth = s
        r2 = s * rng.uniform(0.02, 0.4)
        r1 = s * rng.uniform(0.02, 0.3)
        egw = s * rng.uniform(0.1, 4)
        if edge:
            fa = _edge_fa(rng, edge, fa)
            p = _edge_pad(edge, p / DEG, fa / DEG) * DEG
            r2 = 0.0 if "r2=0" in edge else r2
            r1 = 0.0 if "r1=0" in edge else r2 if "r1=r2" in edge else r1
            egw = 0.0 if "egw=0" in edge else egw
        gw = egw + 2 * r2 * math.tan(fa / 2)
        uw = gw + 2 * depth / math.tan(fa)
        fixed = dict(r1=r1, r2=r2, even_ground_width=egw, pad_angle=p, **ext)
        vals = dict(usable_width=uw, ground_width=gw, flank_angle=fa, depth=depth)
        return fixed, vals, dict(scale=s, fa=fa)
    raise KeyError(cname)


def _canon_items(kwargs):
    """constructor arguments in a canonical, hashable form (numbers rounded to 6 digits, anything else - a sequence of
    classifiers - as text)"""
    return sorted((k, float("%.6g" % v) if isinstance(v, (int, float)) else str(v)) for k, v in kwargs.items())


def _pad_of(kwargs, g):
    """the length of the face beyond junction 1 as the generic constructor takes it from its arguments: the absolute `pad`
    when one is given (and non-zero), else `rel_pad` (given or the configured default) times the usable width"""
    return kwargs.get("pad") or g.usable_width * kwargs.get("rel_pad", _rel_pad())


def _ribbed_r2(rib_distance, rib_width, rib_angle, base_body_height, nominal_outer_diameter):
    """the circular-segment radius of equal mean area (from the docstring of EquivalentRibbedGroove: segment of height
    h_eq over a chord c has radius (4 h^2 + c^2) / (8 h))"""
    R = nominal_outer_diameter / 2
    h_eq = (R - base_body_height / 2) * (rib_width / math.cos(rib_angle * DEG)) / rib_distance
    diag = base_body_height * math.sqrt(2)
    inner = math.pi - (math.pi / 4 + (math.pi - math.asin(diag / 2 * math.sin(math.pi / 4) / R)))
    c = base_body_height - 2 * (R * math.sin(inner) / math.sin(math.pi / 4))
    return (4 * h_eq ** 2 + c ** 2) / (8 * h_eq)


def derived_values(cname, g):
    """all over-determined parameters measured on the finished groove, in the units of the constructor"""
    if cname in R124_PLAIN + ["FalseRoundGroove"]:
        return dict(r2=g.r2, depth=g.depth, usable_width=g.usable_width, flank_angle=g.flank_angle / DEG,
                    flank_width=g.z3 - g.z4, flank_height=g.y4 - g.y3,
                    flank_length=math.copysign(math.hypot(g.z3 - g.z4, g.y4 - g.y3), g.z3 - g.z4))
    if cname == "FlatOvalGroove":
        return dict(usable_width=g.usable_width, even_ground_width=g.even_ground_width)
    if cname == "Oval3RadiiFlankedGroove":
        return dict(flank_angle=g.flank_angle / DEG, flank_width=g.z3 - g.z4, flank_height=g.y4 - g.y3,
                    flank_length=math.copysign(math.hypot(g.z3 - g.z4, g.y4 - g.y3), g.z3 - g.z4))
    if cname in BOX_PLAIN + BOX_CONSTR:
        return dict(ground_width=g.ground_width, even_ground_width=g.even_ground_width, usable_width=g.usable_width,
                    flank_angle=g.flank_angle / DEG)
    if cname in ("DiamondGroove", "SquareGroove"):
        return dict(usable_width=g.usable_width, tip_depth=g.tip_depth,
                    tip_angle=None if g.tip_angle is None else g.tip_angle / DEG)
    if cname == "GenericElongationGroove":
        return dict(usable_width=g.usable_width, ground_width=g.ground_width, flank_angle=g.flank_angle, depth=g.depth)
    return {}


# ---------------------------------------------------------------------------------------------------------
# instrumentation of the real code (undone in `finally`)
# ---------------------------------------------------------------------------------------------------------
class Log:
    def __init__(self, rng):
        self.rng = rng
        self.reset()

    def reset(self):
        self.solver_calls = []     # (solver name, bound args incl. defaults, result dict)
        self.oracles = []          # dict(kind, probes=[(x, f(x))], result, bracket)
        self.f1d = None            # the last scalar residual handed to root_scalar and its bracket
        self.generic = []          # every object that entered GenericElongationGroove.__init__ (also when it raised later)


@contextlib.contextmanager
def instrumented(log):
    import importlib
    import numpy as np
    ges = importlib.import_module("pyroll.core.grooves.generic_elongation_solvers")
    saved = []

    def patch(mod, name, new):
        saved.append((mod, name, getattr(mod, name)))
        setattr(mod, name, new)

    def real(f):
        """call through to the implementation: an exception coming out of it is the implementation's (also when it is raised
        by C code and leaves no frame of its own, e.g. a cache refusing an unhashable argument), not the harness's"""
        @functools.wraps(f)
        def call(*a, **kw):
            try:
                return f(*a, **kw)
            except Exception as ex:
                ex._c04_from_implementation = True
                raise
        return call

    o_rs, o_root, o_fp = real(ges.root_scalar), real(ges.root), real(ges.fixed_point)

    def root_scalar(f, bracket=None, **kw):
        res = o_rs(f, bracket=bracket, **kw)
        a, b = float(bracket[0]), float(bracket[1])
        xs = [float(res.root)] + [a + (b - a) * log.rng.random() for _ in range(2)]
        log.oracles.append(dict(kind="root_scalar", probes=[([x], [float(f(x))]) for x in xs], result=[float(res.root)],
                                bracket=(a, b)))
        log.f1d = (f, a, b)
        return res

    def root(f, x0, **kw):
        sol = o_root(f, x0, **kw)
        probes = []
        if sol.success:
            xs = [list(map(float, sol.x))] + [[float(v) + log.rng.uniform(-0.2, 0.2) for v in sol.x] for _ in range(2)]
            probes = [(x, [float(v) for v in f(np.array(x))]) for x in xs]
        log.oracles.append(dict(kind="root", probes=probes, result=list(map(float, sol.x)), success=bool(sol.success)))
        return sol

    def fixed_point(f, x0, **kw):
        r = o_fp(f, x0, **kw)
        xs = [float(r)] + [float(r) * log.rng.uniform(0.5, 2) for _ in range(2)]
        log.oracles.append(dict(kind="fixed_point", probes=[([x], [float(f(x))]) for x in xs], result=[float(r)]))
        return r

    gen = importlib.import_module("pyroll.core.grooves.generic_elongation").GenericElongationGroove
    o_init = gen.__dict__["__init__"]

    @functools.wraps(o_init)
    def generic_init(self, *a, **kw):
        # the object is remembered BEFORE the real constructor runs: when the validation at its end raises, the resolved
        # parameters and the junction chain are already stored on it and can still be looked at (see `resolved_of`)
        log.generic.append(self)
        return real(o_init)(self, *a, **kw)

    try:
        patch(gen, "__init__", generic_init)
        patch(ges, "root_scalar", root_scalar)
        patch(ges, "root", root)
        patch(ges, "fixed_point", fixed_point)
        for sname in T_solvers.SOLVERS:
            real_solver = getattr(ges, sname)
            sig = inspect.signature(real_solver)

            def wrapper(*a, _real=real(real_solver), _sig=sig, _name=sname, **kw):
                ba = _sig.bind(*a, **kw)
                ba.apply_defaults()
                res = _real(*a, **kw)
                log.solver_calls.append((_name, dict(ba.arguments), dict(res)))
                return res
            for rel, cname in T_solvers.CLASSES:
                mod = importlib.import_module("pyroll.core.grooves." + rel[:-3].replace("/", "."))
                if getattr(mod, sname, None) is real_solver:
                    patch(mod, sname, wrapper)
        yield
    finally:
        for mod, name, old in reversed(saved):
            setattr(mod, name, old)


# ---------------------------------------------------------------------------------------------------------
# the independent oracle: re-trace the contour from the resolved radii and angles
# ---------------------------------------------------------------------------------------------------------
def trace(g):
    """Own tracer.  Heading psi = angle of the tangent below the horizontal; start at the groove centre (0, depth - indent)
    heading outwards.  Pieces: ground (even_ground_width/2), arc r4 turning by -alpha4 (deeper), arc r3 by +alpha3, arc r2 by
    +alpha2, then the straight flank down to the face y = 0.  Returns the junctions, the final heading, the point where the
    flank reaches the face and the deepest point passed."""
    z, y, psi = 0.0, g.depth - g.indent, 0.0
    pts = [("9", z, y)]
    deepest = y
    z += g.even_ground_width / 2
    pts.append(("7", z, y))
    # (radius, side of the centre: -1 ground side / +1 face side, resolved angle).  A resolved angle is taken with its
    # sign: a negative one runs backwards on the SAME circle (still tangential; whether such a contour is acceptable at all
    # is contour validity = C03, here it is only counted).
    for name, r, sgn, ang in (("6", g.r4, -1.0, g.alpha4), ("5", g.r3, 1.0, g.alpha3), ("4", g.r2, 1.0, g.alpha2)):
        turn = sgn * ang
        new = psi + turn
        if sgn > 0 and psi < 0 <= new:         # the heading passes the horizontal inside this arc: locally deepest point
            deepest = max(deepest, y + r * (1 - math.cos(psi)))
        z += sgn * r * (math.sin(new) - math.sin(psi))
        y += sgn * r * (math.cos(new) - math.cos(psi))
        psi = new
        deepest = max(deepest, y)
        pts.append((name, z, y))
    z_face = z + y / math.tan(psi) if math.tan(psi) != 0 else float("inf")
    return pts, psi, z_face, deepest


def check_groove(ctx, cname, subset, kwargs, g, scale, iterative, given, observe_only=False, rejected=None, after=None):
    """the property on one finished groove.  `given`: {attribute name: expected value} for the echo.
    `observe_only`: count instead of reporting (solver patterns no groove class reaches are outside the property).
    `rejected`: name of the exception the constructor raised AFTER it had resolved the parameters (`g` is then the object
    the generic constructor was filling in, see `resolved_of`): the same clauses, reported under `rejected-inconsistent:*`.
    `after`: the input that was built immediately before (sibling cases: the replay re-executes the sequence)."""
    replay = {"class": cname, "kwargs": kwargs} if after is None else {"class": cname, "A": after, "B": kwargs}
    tag = cname + ":" + "+".join(subset)
    if rejected is not None:
        # attributes a subclass stores only after the generic constructor has returned do not exist on such an object
        given = {k: v for k, v in given.items() if hasattr(g, k)}
    sfa = max(abs(math.sin(g.flank_angle)), 1e-3)
    # tolerance: solver precision (xtol of root/fixed_point 1.5e-8, relative) times the conditioning of the closure
    # (a small flank angle amplifies by 1/sin^2); closed-form families are exact up to rounding
    rt = (2e-6 if iterative else 1e-9) / sfa ** 2
    tol = rt * scale
    pts, psi, z_face, deepest = trace(g)
    ok = True
    if min(g.alpha2, g.alpha3, g.alpha4) < -1e-9:
        # a root outside the geometric range was accepted (hybr converged to alpha2 < 0): an arc runs backwards, "re-tracing"
        # is no longer defined by the property text, the contour is malformed (deepest point != depth, z not monotone).
        # That such roots are not rejected is defect F7 of DESIGN section 6 = property C03 (contour validity); here the
        # case is counted and the consistency checks are only observed, so that C04 does not re-report F7.
        ctx.count("observed:negative-resolved-angle:" + cname)
        observe_only = True

    def bad(key, what, name=None):
        """`name`: the reported dimension a value clause is about (keys `derived-value:<Class>:<name>`)"""
        nonlocal ok
        ok = False
        full = key + ":" + cname + ("" if name is None else ":" + name)
        if observe_only:
            key = key if name is None else key + ":" + name
            ctx.count(f"observed:{key}:{tag}")
            ctx.notes.setdefault("observed", {}).setdefault(f"{key}:{tag}", {"what": what, "replay": replay})
        elif rejected is not None:
            ctx.violation("rejected-inconsistent:" + full,
                          f"{tag}: the parameters derived for this input are geometrically inconsistent - {what} - and the "
                          f"constructor then fails with {rejected} instead of resolving the groove", replay)
        else:
            ctx.violation(full, f"{tag}: {what}", replay)

    if abs(psi - g.flank_angle) > rt:
        bad("heading-at-flank", f"turning -alpha4+alpha3+alpha2 = {psi} differs from the flank angle {g.flank_angle}")
    if not (abs(z_face - g.usable_width / 2) <= tol):
        bad("closure-width", f"the re-traced contour reaches the face at z={z_face}, usable_width/2={g.usable_width / 2}")
    if abs(deepest - g.depth) > tol:
        bad("closure-depth", f"the deepest point of the re-traced contour is {deepest}, depth={g.depth}")
    # joints of the object: the junction attributes must be the traced points (no gap/step at 7, 6, 5, 4)
    for (name, z, y) in pts:
        gz, gy = getattr(g, "z" + name), getattr(g, "y" + name)
        if abs(gz - z) > tol or abs(gy - y) > tol:
            bad("joint-gap", f"junction {name} of the object ({gz}, {gy}) is not on the re-traced contour ({z}, {y})")
    # flank: (z3,y3) lies on the flank through junction 4 (two-sided: neither step up nor step down) ...
    (_, z4, y4) = pts[-1]
    fdir = (math.cos(psi), -math.sin(psi))
    cross = (g.z3 - z4) * fdir[1] - (g.y3 - y4) * fdir[0]
    if abs(cross) > tol:
        bad("flank-step", f"junction 3 is {cross} off the flank line through junction 4")
    along = (g.z3 - z4) * fdir[0] + (g.y3 - y4) * fdir[1]
    if along < -tol:
        ctx.count("observed:negative-flank-length:" + cname)        # an overlap, not a gap: C03's contour validity (F7/F8)
    if cname in NO_FLANK and abs(along) > tol:
        # these classes have no flank parameter: the r2 arc joins the face fillet r1 directly (docstrings; the solvers'
        # `fw = fh = 0` mode), so junctions 3 and 4 coincide
        bad("unexpected-flank", f"a flank of length {along} appears between the r2 arc and the fillet r1")
    # ... the face fillet r1 touches flank and face: centre at distance r1 from 3 and 1, radius normal to both lines
    pa = g.pad_angle
    for (nm, pz, py, d) in (("3", g.z3, g.y3, fdir), ("1", g.z1, g.y1, (math.cos(pa), math.sin(pa)))):
        vz, vy = pz - g.z12, py - g.y12
        if abs(math.hypot(vz, vy) - g.r1) > tol or abs(vz * d[0] + vy * d[1]) > tol * max(g.r1 / scale, 1e-3) + 1e-12 * scale:
            bad("joint-tangent", f"fillet r1 is not tangent at junction {nm}")
    # face: junction 2 = (usable_width/2, 0) lies on the flank line and on the face line through junction 1
    if abs(g.z2 - g.usable_width / 2) > 1e-12 * scale or g.y2 != 0:
        bad("face-corner", "junction 2 is not (usable_width/2, 0)")
    c1 = (g.z1 - g.z2) * math.sin(pa) - (g.y1 - g.y2) * math.cos(pa)
    if abs(c1) > tol:
        bad("face-step", f"junction 1 is {c1} off the face line through (usable_width/2, 0)")
    if abs(g.alpha1 - (g.flank_angle + pa)) > 1e-12:
        bad("alpha1", "alpha1 != flank_angle + pad_angle")
    # ... and the roll face runs on from junction 1 along the same line (inclined by the pad angle) up to its end point
    # (z0, y0), the outermost vertex of the contour: on the face line through (usable_width/2, 0), not before junction 1,
    # hence joining the r1 arc tangentially in junction 1 - whether the padding is the default, relative or absolute
    ftol = tol + 1e-12 * abs(g.z0)
    c0 = (g.z0 - g.z2) * math.sin(pa) - (g.y0 - g.y2) * math.cos(pa)
    a0 = (g.z0 - g.z1) * math.cos(pa) + (g.y0 - g.y1) * math.sin(pa)
    if abs(c0) > ftol or a0 < -ftol:
        kink = math.degrees(math.atan2((g.y0 - g.y1), (g.z0 - g.z1)) - pa) if math.hypot(g.z0 - g.z1, g.y0 - g.y1) > 0 else 0.0
        back = g.z0 - g.y0 / math.tan(pa) if math.tan(pa) != 0 else float("nan")
        bad("face-end", f"the end of the roll face ({g.z0}, {g.y0}) lies {c0} off the face line through (usable_width/2, 0) "
            f"inclined by the pad angle ({a0} beyond junction 1 along it): the face leaves junction 1 with a kink of {kink} deg, "
            f"prolonged back to y=0 it gives a usable width of {2 * back} instead of {g.usable_width}")
    import numpy as _np
    last = _np.asarray(g.contour_points)[-1]
    if abs(float(last[0]) - g.z0) > ftol or abs(float(last[1]) - g.y0) > ftol:
        bad("face-end", f"the outermost contour vertex ({last[0]}, {last[1]}) is not the end of the roll face ({g.z0}, {g.y0})")
    if kwargs.get("classifiers") is not None:
        try:
            have_c = set(g.classifiers)
        except AttributeError:
            have_c = None
        if have_c is not None and not set(kwargs["classifiers"]) <= have_c:
            bad("echo-classifiers", f"given classifiers {list(kwargs['classifiers'])!r}, the groove reports {sorted(have_c)!r}")
    # every derived dimension the object REPORTS besides the ones the tracer has just used
    _reported_values(cname, g, pts, psi, rt, tol, scale, bad)
    # contour vertices lie on the traced pieces (right half, between junction 1 and the centre)
    _vertices_on_path(g, pts, psi, tol, bad)
    # echo
    for k, v in given.items():
        have = getattr(g, k, None)
        exact = k in ("r1", "r2", "r3", "r4", "indent")
        lim = 0.0 if exact else (rt if k in _SOLVED_ECHO else 1e-9) * max(abs(v), 1e-300)
        if v == 0 and k in _SOLVED_ECHO:
            lim = tol       # a flank dimension given as exactly 0 (no flank): "relative to the value" is void, the measured
            #                 flank is a difference of two junction coordinates of the size of the groove (solver precision)
        if have is None or not (abs(have - v) <= lim):
            bad("echo-" + k, f"given {k}={v!r}, the groove reports {have!r}")
    return ok


_SOLVED_ECHO = {"flank_width", "flank_height", "flank_length"}

TIP_CLASSES = ("DiamondGroove", "SquareGroove")


def _reported_values(cname, g, pts, psi, rt, tol, scale, bad):
    """Value clauses for the derived dimensions a groove reports that the tracer does not itself start from (it starts from
    the radii, the resolved angles, `depth`, `indent`, `even_ground_width` and checks `usable_width`, `flank_angle`, the
    junctions against them).  "Whatever admissible subset is supplied, the derived ones are geometrically consistent": each
    of these is defined by the traced geometry, independently of which subset was given, in the unit in which the object
    hands its angles out (radians, like `flank_angle` / `pad_angle` / `alpha1..4`).

    * `ground_width` ("width of flank/ground-line intersections", generic constructor: "give any three of usable_width,
      ground_width, flank_angle and depth"): the flank line through (usable_width/2, 0) falling with tan(flank_angle)
      reaches `depth` at ground_width/2.
    * `width`: the face fillet r1 turns by flank angle + pad angle, its tangent length is r1 tan(turn/2); the groove is as
      wide as the two points where the fillets run out into the faces are apart.
    * `tip_depth`, `tip_angle` (diamond, square: "depth of the intersection of the extrapolated flanks", "angle between the
      flanks"): the flank traced through junction 4 with the traced heading, prolonged to the axis z = 0, and twice the
      angle between it and the axis; both together: tan(tip_angle/2) = (usable_width/2) / tip_depth.
    Tolerances: `rt` / `tol` of `check_groove` (closed forms: 1e-9 / sin^2; solver-backed: solver precision)."""
    fa, uw, depth = g.flank_angle, g.usable_width, g.depth
    (_, z4, y4) = pts[-1]
    gw = getattr(g, "ground_width", None)
    # the generic constructor treats a depth that `np.isclose` calls zero (absolute 1e-8) as "no groove: both widths equal"
    if gw is not None and abs(depth) > 1e-7 and math.tan(fa) != 0:
        want = uw - 2 * depth / math.tan(fa)
        if not abs(gw - want) <= tol * (1 + 1 / abs(math.tan(fa))):
            bad("derived-value", f"the groove reports ground_width={gw!r}; the flank through (usable_width/2, 0) reaches the "
                f"depth at {want / 2} = ground_width/2 for ground_width={want}", name="ground_width")
    try:
        width = g.width
    except AttributeError:
        width = None
    if width is not None:
        want = uw + 2 * g.r1 * math.tan((fa + g.pad_angle) / 2) * math.cos(g.pad_angle)
        if not abs(width - want) <= tol:
            bad("derived-value", f"the groove reports width={width!r}; the face fillets run out into the faces {want} apart",
                name="width")
    if cname in TIP_CLASSES:
        td, ta = getattr(g, "tip_depth", None), getattr(g, "tip_angle", None)
        flagged = False
        if ta is not None:
            want = math.pi - 2 * psi
            if not abs(ta - want) <= rt:
                flagged = True
                bad("derived-value", f"the groove reports tip_angle={ta!r} rad; the traced flanks enclose {want} rad "
                    f"(flank heading {psi} rad below the horizontal on either side)", name="tip_angle")
        if td is not None:
            want = y4 + z4 * math.tan(psi)
            if not abs(td - want) <= tol * (1 + abs(math.tan(psi))):
                flagged = True
                bad("derived-value", f"the groove reports tip_depth={td!r}; the flank through junction 4 prolonged to the "
                    f"groove axis reaches {want}", name="tip_depth")
        if td is not None and ta is not None and not flagged:
            # the triangle relation in the reported values alone (tip angle strictly between 0 and pi)
            lhs = math.tan(ta / 2) * td
            if not abs(lhs - uw / 2) <= tol * (1 + abs(math.tan(ta / 2))) + rt * abs(td) / max(math.cos(ta / 2) ** 2, 1e-12):
                bad("derived-value", f"reported tip_angle={ta!r} rad, tip_depth={td!r}, usable_width={uw!r} do not form the tip "
                    f"triangle: tan(tip_angle/2) * tip_depth = {lhs}, usable_width/2 = {uw / 2}", name="tip_triangle")


def _vertices_on_path(g, pts, psi, tol, bad):
    import numpy as np
    P = {n: (z, y) for (n, z, y) in pts}
    arcs = []      # (centre, r)
    z7, y7 = P["7"]
    arcs.append(((z7, y7 + g.r4), g.r4, P["7"], P["6"]))
    z6, y6 = P["6"]
    c3 = (z6 + g.r3 * math.sin(g.alpha4), y6 - g.r3 * math.cos(g.alpha4))
    arcs.append((c3, g.r3, P["6"], P["5"]))
    z5, y5 = P["5"]
    h5 = g.alpha3 - g.alpha4
    c2 = (z5 - g.r2 * math.sin(h5), y5 - g.r2 * math.cos(h5))
    arcs.append((c2, g.r2, P["5"], P["4"]))
    arcs.append(((g.z12, g.y12), g.r1, (g.z3, g.y3), (g.z1, g.y1)))
    segs = [(P["9"], P["7"]), (P["4"], (g.z3, g.y3)), ((g.z1, g.y1), (g.z0, g.y0))]
    cp = np.asarray(g.contour_points)
    right = cp[len(cp) // 2:]
    worst = 0.0
    for (z, y) in right:
        d = min(_seg_dist(z, y, a, b) for a, b in segs)
        for (c, r, a, b) in arcs:
            if r > 0 and min(a[0], b[0]) - tol <= z <= max(a[0], b[0]) + tol:
                d = min(d, abs(math.hypot(z - c[0], y - c[1]) - r))
        worst = max(worst, d)
    if not worst <= tol:
        bad("vertex-off-contour", f"a contour vertex is {worst} away from the re-traced contour")


def _seg_dist(z, y, a, b):
    dz, dy = b[0] - a[0], b[1] - a[1]
    L2 = dz * dz + dy * dy
    t = 0.0 if L2 == 0 else max(0.0, min(1.0, ((z - a[0]) * dz + (y - a[1]) * dy) / L2))
    return math.hypot(z - a[0] - t * dz, y - a[1] - t * dy)


def expected_echo(cname, kwargs, g):
    """{attribute: value} every given constructor value must be reproduced as (angles after the unit conversion)"""
    out = {}
    deg = cname != "GenericElongationGroove"
    for k, v in kwargs.items():
        if v is None or k in _passthrough_names():
            continue
        if k in ("pad_angle", "flank_angle", "tip_angle"):
            out[k] = v * DEG if deg else v
        elif k == "flank_width":
            out[k] = v
        elif k in ("rib_distance", "rib_width", "rib_angle"):
            continue
        else:
            out[k] = v
    return out


class _View:
    """a groove plus the measured flank dimensions as attributes (for the echo of flank_width/height/length)"""

    def __init__(self, g):
        self._g = g

    def __getattr__(self, k):
        g = self._g
        if k == "flank_width":
            return g.z3 - g.z4
        if k == "flank_height":
            return g.y4 - g.y3
        if k == "flank_length":
            return math.hypot(g.z3 - g.z4, g.y4 - g.y3)
        return getattr(g, k)


# ---------------------------------------------------------------------------------------------------------
# correspondence: generated definitions vs the real code
# ---------------------------------------------------------------------------------------------------------
class Corr:
    def __init__(self, ctx, solvers, classes, chain, resolution, contour_fns, tests=(), stored=None):
        self.ctx = ctx
        self.solvers, self.classes = solvers, classes
        self.chain, self.resolution, self.cf = chain, resolution, contour_fns
        self.tests = list(tests)
        self.stored = stored or {}
        self.lines, self.expect = [], []

    def add(self, name, env, want, what, rtol=1e-9, atol=0.0):
        env = {k: float(v) for k, v in env.items() if v is not None}
        self.lines.append(name + " " + " ".join(f"{k}={stub.bits(v)}" for k, v in env.items()))
        self.expect.append((name, env, float(want), what, rtol, atol))

    def canonical(self, sname, args):
        info = self.solvers[sname]
        pat = {o: args.get(o) is None for o in info["optional"]}
        for name, p in T_solvers.SOLVERS[sname]()[1].items():
            if p == pat and name in info["canonical"] and info["canonical"][name].kind == "return":
                return name, info["canonical"][name]
        return None, None

    def solver_case(self, sname, args, result, oracles, scale):
        name, oc = self.canonical(sname, args)
        if name is None:
            self.ctx.count("K:solver-pattern-noncanonical")
            return
        env = {k: v for k, v in args.items() if v is not None}
        roots = {}
        if len(oracles) != len(oc.oracles):
            self.ctx.disagreement(f"{name}: the model expects {len(oc.oracles)} root-finder call(s), the implementation made "
                                  f"{len(oracles)}", {"solver": sname, "args": args})
            return
        for oi, (mo, ro) in enumerate(zip(oc.oracles, oracles)):
            if mo["kind"] != ro["kind"]:
                self.ctx.disagreement(f"{name}: root finder #{oi} is {ro['kind']}, model has {mo['kind']}", {"args": args})
                return
            tag = "" if oi == 0 else f"o{oi + 1}_"
            for v, x in zip(mo["vars"], ro["result"]):
                roots[v] = x
            for (x, fx) in ro["probes"]:
                xenv = dict(env, **roots, **{f"_x{i}": xi for i, xi in enumerate(x)})
                suf = ""
                if isinstance(mo["residual"], T_solvers.Cases):
                    g0 = mo["residual"][0][0]
                    holds = _guard_holds(g0, xenv)
                    suf = "a" if holds else "b"
                kind = "map" if mo["kind"] == "fixed_point" else "res"
                for i, fxi in enumerate(fx):
                    if not math.isfinite(fxi):
                        continue
                    # the residual is a difference of lengths of the order of `scale`
                    self.add(f"{name}_{tag}{kind}{i}{suf}", xenv, fxi, "residual", rtol=1e-8, atol=1e-10 * scale)
        env.update(roots)
        for k in oc.value:
            if result.get(k) is not None:
                self.add(f"{name}_{k}", env, result[k], "closed-form", rtol=1e-9, atol=1e-12 * scale)
        self.ctx.count("K:solver:" + name)

    def plumbing_case(self, cname, kwargs, calls, g, scale):
        info = self.classes.get(MODEL_CLASS.get(cname, cname))
        if info is None:
            return
        pat = {o: kwargs.get(o) is None for o in info["optional"]}
        oc = info["patterns"].get(T_solvers.pattern_str(info["optional"], pat))
        if oc is None or oc.kind != "return" or not hasattr(oc, "lean_name"):
            self.ctx.disagreement(f"{cname}: the model has no returning pattern for {pat} but the implementation constructed",
                                  {"class": cname, "kwargs": kwargs})
            return
        env = {k: v for k, v in kwargs.items() if v is not None and k not in _passthrough_names()}
        env.setdefault("pad_angle", 0.0)
        if len(calls) != len(oc.calls):
            self.ctx.disagreement(f"{cname}: {len(calls)} solver call(s), model has {len(oc.calls)}", {"kwargs": kwargs})
            return
        for (ms, margs), (rs, rargs, rres) in zip(oc.calls, calls):
            if ms != rs:
                self.ctx.disagreement(f"{cname}: calls {rs}, model has {ms}", {"kwargs": kwargs})
                return
            for k, e in margs.items():
                if (e is None) != (rargs.get(k) is None):
                    self.ctx.disagreement(f"{cname}: solver argument {k} None-ness differs", {"kwargs": kwargs})
                elif e is not None:
                    self.add(f"{oc.lean_name}_call.{k}", env, rargs[k], "solver-argument", rtol=1e-12, atol=0.0)
            for k, v in rres.items():
                env["sol." + k] = v
        for k in oc.value:
            have = getattr(g, k, None)
            if have is not None:
                self.add(f"{oc.lean_name}.{k}", env, have, "constructor-kwarg", rtol=1e-9, atol=1e-12 * scale)
        self.ctx.count("K:plumbing:" + cname)

    def reported_case(self, cname, kwargs, calls, g, pad, scale):
        """the generated `reported_<Class>_<k>` (stored expression composed with the getter, over the constructor's own
        arguments) vs what the finished object hands out under that public name; the generic class's numeric properties
        (`getters_GenericElongationGroove`, over the chain) vs the object's"""
        mname = MODEL_CLASS.get(cname, cname)
        info, entry = self.classes.get(mname), self.stored.get(mname)
        if info is not None and entry is not None and entry["patterns"]:
            pat = {o: kwargs.get(o) is None for o in info["optional"]}
            pt = entry["patterns"].get(T_solvers.pattern_str(info["optional"], pat))
            if pt is not None:
                env = {k: v for k, v in kwargs.items() if v is not None and k not in _passthrough_names()}
                env.setdefault("pad_angle", 0.0)
                for (_, _, rres) in calls:
                    for k, v in rres.items():
                        env["sol." + k] = v
                for name in pt["reported"]:
                    have = getattr(g, name, None)
                    if have is None:
                        self.ctx.disagreement(f"{cname}: the model has a value for the reported `{name}`, the object reports "
                                              "None / nothing", {"class": cname, "kwargs": kwargs})
                        continue
                    self.add(f"reported_{mname}{pt['suffix']}.{name}", env, have, "reported-value", rtol=1e-9,
                             atol=1e-12 * scale)
                for g_name in entry["getters"]:
                    if g_name not in pt["reported"] and getattr(g, g_name, None) is not None:
                        self.ctx.disagreement(f"{cname}: the object reports `{g_name}` = {getattr(g, g_name)!r}, the model has the "
                                              "attribute behind it stored as None in this pattern",
                                              {"class": cname, "kwargs": kwargs})
                self.ctx.count("K:reported:" + cname)
        gg = self.stored.get(T_stored.GENERIC[1], {}).get("getters") or {}
        if gg:
            env = self.chain_env(g, pad)
            for name, _ in self.chain:
                if hasattr(g, name):
                    env[name] = getattr(g, name)
            for name, e in gg.items():
                self.add(f"getters_{T_stored.GENERIC[1]}.{name}", {k: env[k] for k in set(pyexpr.expr_vars(e)) if k in env},
                         getattr(g, name), "generic-getter", rtol=1e-12, atol=0.0)

    @staticmethod
    def chain_env(g, pad):
        return dict(r1=g.r1, r2=g.r2, r3=g.r3, r4=g.r4, alpha3=g.alpha3, alpha4=g.alpha4, indent=g.indent,
                    even_ground_width=g.even_ground_width, pad=pad, pad_angle=g.pad_angle, flank_angle=g.flank_angle,
                    usable_width=g.usable_width, ground_width=g.ground_width, depth=g.depth)

    def validator_case(self, obj, pad, scale, what):
        """the translated `test_plausibility` vs the real one, on a finished groove or on an object the constructor refused
        after resolving (`what` = "constructed" / "refused"):
        * each side of each test over Float vs the code's own source sub-expression executed on the object,
        * "one of the tests holds" vs what the real method does when called on the object (raises / returns)."""
        if not self.tests:
            return
        env = self.chain_env(obj, pad)
        predicted = False
        for i, t in enumerate(self.tests):
            lhs, rhs = T_valid.evaluate(t, obj)
            # the left sides are differences that vanish on a closed chain (rounding noise of sums of size `scale`)
            self.add(f"plaus_{i}_lhs", env, lhs, "validator", rtol=1e-9, atol=1e-11 * max(scale, 1e-300))
            self.add(f"plaus_{i}_rhs", env, rhs, "validator", rtol=1e-9, atol=1e-15 * max(scale, 1e-300))
            predicted = predicted or T_valid.fires(t, lhs, rhs)
        try:
            obj.test_plausibility()
            raised = False
        except (ValueError, TypeError):
            raised = True
        if raised != predicted:
            self.ctx.disagreement(f"test_plausibility {'raises' if raised else 'returns'} on a {what} groove, the translated "
                                  f"tests say {'raise' if predicted else 'return'}", {"env": env})
        self.ctx.count(f"K:validator:{what}:{'raises' if raised else 'accepts'}")

    def chain_case(self, g, pad, scale, rng):
        env = self.chain_env(g, pad)
        for name, _ in self.chain:
            if hasattr(g, name):
                # angles: absolute 1e-12; lengths: relative to the groove size (sums of many terms of that size)
                self.add(name, env, getattr(g, name), "chain", rtol=1e-10, atol=1e-12 * max(scale, 1.0) if name[0] in "abg"
                         else 1e-11 * scale)
        for name, meth, lo, hi in (("fn_flank_contour_line", "_flank_contour_line", g.z4, g.z3),
                                   ("fn_r1_contour_line", "_r1_contour_line", g.z3, g.z1),
                                   ("fn_r2_contour_line", "_r2_contour_line", g.z5, g.z4),
                                   ("fn_r3_contour_line", "_r3_contour_line", g.z6, g.z5),
                                   ("fn_r4_contour_line", "_r4_contour_line", g.z7, g.z6)):
            if name[3:] in self.cf and hi - lo > 1e-6 * scale:
                z = lo + (hi - lo) * rng.uniform(0.15, 0.85)
                # sqrt(r^2 - dz^2): cancellation near the ends of an arc, stay inside
                self.add(name, dict(env, z=z), float(getattr(g, meth)(z)), "contour-fn", rtol=1e-8, atol=1e-9 * scale)
        self.ctx.count("K:chain")

    def resolution_case(self, missing, vals, g):
        if missing in self.resolution:
            env = {k: v for k, v in vals.items() if k != missing}
            self.add("resolve_" + missing, env, getattr(g, missing), "resolution", rtol=1e-12)

    def flush(self):
        if not self.lines:
            return
        out = self.ctx.lean_model(MODEL, self.lines)
        if len(out) != len(self.lines):
            self.ctx.disagreement(f"model driver answered {len(out)} lines for {len(self.lines)} requests", {})
            return
        nbad = 0
        for (name, env, want, what, rtol, atol), o in zip(self.expect, out):
            try:
                have = stub.unbits(o)
            except Exception:
                nbad += 1
                if nbad <= 5:
                    self.ctx.disagreement(f"generated definition {name}: model driver answered {o!r}", {"def": name, "env": env})
                continue
            if (math.isnan(have) and math.isnan(want)) or abs(have - want) <= atol + rtol * max(abs(have), abs(want)):
                self.ctx.validated()
            else:
                nbad += 1
                if nbad <= 5:
                    self.ctx.disagreement(f"generated {what} {name} evaluates to {have!r} over Float, the implementation gives {want!r}",
                                          {"def": name, "env": env, "lean_float": have, "python": want})
        self.ctx.count("K:definitions-evaluated", len(self.lines))
        self.lines, self.expect = [], []


def _guard_holds(g, env):
    if g[0] == "not":
        return not _guard_holds(g[1], env)
    a, b = pyexpr.py_eval(g[1], env), pyexpr.py_eval(g[2], env)
    return {"gt": a > b, "lt": a < b, "ge": a >= b, "le": a <= b}[g[0]]


# ---------------------------------------------------------------------------------------------------------
# one case
# ---------------------------------------------------------------------------------------------------------
def construct(cname, kwargs, log):
    """-> (groove | None, exception name | None).  Exceptions raised inside pyroll/scipy/numpy while constructing are
    rejections; anything raised by the harness itself propagates.  After a rejection `log.resolved` is the object whose
    parameters had already been resolved when the constructor raised (None when it raised earlier)."""
    import traceback
    import warnings
    log.reset()
    log.resolved = None
    try:
        with warnings.catch_warnings():
            warnings.simplefilter("ignore")
            return _cls(cname)(**kwargs), None
    except Exception as ex:
        tb = traceback.extract_tb(ex.__traceback__)
        if (len(tb) <= 1 or tb[-1].filename == __file__) and not getattr(ex, "_c04_from_implementation", False):
            raise                                   # raised by the harness (wrong keyword, instrumentation): not a rejection
        log.resolved = resolved_of(log)
        return None, type(ex).__name__


# everything `check_groove` reads: the resolved parameters, the junction chain and the contour vertices
_RESOLVED_ATTRS = (["r1", "r2", "r3", "r4", "alpha1", "alpha2", "alpha3", "alpha4", "indent", "even_ground_width",
                    "usable_width", "depth", "flank_angle", "pad_angle", "contour_points", "z12", "y12"]
                   + [c + str(i) for i in (0, 1, 2, 3, 4, 5, 6, 7, 9) for c in "zy"])


def resolved_of(log):
    """The constructor raised.  When it had got as far as resolving the parameters (the solver returned, the derived
    values were handed to the generic constructor, which stored them and computed the junctions, and only the validation
    at its end - or a later statement of the subclass - refused the result), the object it was filling in carries all
    resolved values: the property's clauses can be evaluated on it although no groove is handed to the caller."""
    if not log.generic:
        return None
    obj = log.generic[-1]
    for a in _RESOLVED_ATTRS:
        try:
            if getattr(obj, a) is None:
                return None
        except AttributeError:
            return None
    return obj


def rejected_case(ctx, corr, log, cname, subset, kwargs, scale, err, after=None):
    """A rejected input whose parameters HAD been resolved (see `resolved_of`): "whatever admissible subset is supplied,
    the derived ones are geometrically consistent" is a statement about exactly these derived values, so the oracle is run
    on them.  Inconsistent derived values that a validator turns into an exception are still inconsistent derived values
    (and the input, drawn forwards from a consistent groove, has a consistent resolution).  A consistent resolution that
    is nevertheless refused is only counted: rejecting is the business of C03 (contour validity)."""
    obj = log.resolved
    tag = cname + ":" + "+".join(subset)
    if obj is None:
        ctx.count("rejected-before-resolution:" + cname)        # the solver itself raised (no root found): nothing derived
        return
    if ctx.model_available and corr is not None:
        corr.validator_case(obj, _pad_of(kwargs, obj), scale, "refused")
    ok = check_groove(ctx, cname, subset, kwargs, _View(obj), scale, cname in ITERATIVE, expected_echo(cname, kwargs, obj),
                      observe_only=cname in DIRECT, rejected=err, after=after)
    ctx.count(("rejected-consistent:" if ok else "rejected-inconsistent:") + tag)
    if ok:
        ctx.notes.setdefault("observed", {}).setdefault("rejected-consistent:" + tag, {
            "what": f"resolved consistently, then refused with {err}", "replay": {"class": cname, "kwargs": kwargs}})


def _must_resolve(cname, subset, info):
    """Forward-drawn inputs (`info["fa"]`: the flank angle of the witness groove) of the one-radius family with r2 and depth
    given: the solver looks for the flank angle as the root of a residual that is strictly monotone on (0, pi/2)
    (`r124_widthNone_*_root_unique`, for r1 >= 0, r2 > 0, 0 <= pad angle < pi/2, all guaranteed by `draw`), the witness angle
    (12..80 degrees) is a root inside the bracket (MIN_ANGLE, MAX_ANGLE), so the residual changes sign over the bracket and a
    bracketing root finder cannot fail; with the flank angle given there is nothing to search for at all.  A refusal of such
    an input is the code's doing, not the input's.  (No rejection in 240 x 21 thorough draws of the unchanged tree.)
    Other families are refused now and then for reasons outside the property (hybr not converging from its start value, the
    raster pre-search finding no sign change): those stay counted."""
    if "fa" not in info:
        return False
    if cname == "FlatOvalGroove":
        return True
    # (depth, usable_width): the residual in the flank angle is a positive factor times `g(angle) - depth` with g strictly
    # increasing on (0, pi/2) for every flank mode and every r1 >= 0 (`r124_r2None_*_reduced`, `r124_r2None_*_root_unique`):
    # the witness angle is its only root, the sign changes over the bracket, the bracketing root finder cannot fail, and the
    # fixed point for r2 that follows is an explicit quotient (r4 = indent = 0).  (No rejection in the thorough runs of the
    # unchanged tree, interior and boundary draws.)
    return cname in R124_PLAIN + ["FalseRoundGroove"] and tuple(subset[:2]) in (("r2", "depth"), ("depth", "usable_width"))


def _proved_unique(cname, sb):
    """subsets for which the values are PROVED to determine the groove (PyrollProps/C04*.lean), so that a different contour
    after a re-build is a violation without a numerical certificate: the one-radius family from (r2, depth) - residual
    strictly monotone, `r124_widthNone_*_root_unique` - and from (depth, usable_width) - `r124_r2None_*_root_unique`, every
    flank mode, r1 >= 0 incl. the sharp edge; with the flank angle given nothing is searched for.  Hypotheses (r1 >= 0,
    positive width, non-negative flank dimension, 0 <= pad angle < 90 degrees, root inside the bracket) hold for every
    constructed groove of these classes.  (r2, usable_width): not unique, see notes.)"""
    return cname in R124_PLAIN + ["FalseRoundGroove"] and tuple(sb[:2]) in (("r2", "depth"), ("depth", "usable_width"))


def unique_1d(log):
    """numerical uniqueness certificate for the last scalar residual: exactly one sign change on a fine raster"""
    import numpy as np
    if log.f1d is None:
        return True
    f, a, b = log.f1d
    lo, hi = min(a, 1e-6), max(b, math.pi / 2 - 1e-6)
    xs = np.linspace(lo, hi, 4001)
    with np.errstate(all="ignore"):
        try:
            v = np.asarray(f(xs), dtype=float)
            if v.shape != xs.shape:
                raise ValueError
        except Exception:
            v = np.array([float(f(x)) for x in xs])
    v = v[np.isfinite(v)]
    if len(v) < 100:
        return False
    d = np.diff(v)
    monotone = bool((d > 0).all() or (d < 0).all())
    # one sign change of a residual that is monotone over the whole bracket: the only way the raster can be fooled is a
    # wiggle narrower than 4e-4 rad; non-monotone residuals (depth unknown: r2 sin a + L cos a) are never called unique
    return monotone and int((np.sign(v[1:]) != np.sign(v[:-1])).sum()) == 1


def run_case(ctx, corr, log, cname, subset, fixed, vals, info, cross=True, corpus=False, edge=None):
    """`edge`: the boundary features of a draw of the boundary stream (None: interior draw); same clauses, separate counters"""
    rng = ctx.rng
    scale = info["scale"]
    kwargs = dict(fixed, **{k: vals[k] for k in subset})
    canon = [cname, list(subset), _canon_items(kwargs)]
    g, err = construct(cname, kwargs, log)
    tag = cname + ":" + "+".join(subset)
    if edge is not None:
        for e in edge:
            ctx.count(("edge-constructed:" if g is not None else "edge-rejected:") + e)
        if g is None:
            what = cname + ":" + "+".join(sorted(e for e in edge if not e.startswith("pad=")))
            ctx.count("edge-rejected:" + what)
            ctx.notes.setdefault("observed", {}).setdefault("edge-rejected:" + what, {
                "what": f"a feasible geometry with these parameters exactly on the boundary of their range is refused with {err}",
                "replay": {"class": cname, "kwargs": kwargs}})
    if g is None:
        ctx.case(canon, nontrivial=False)
        ctx.count("rejected:" + tag)
        ctx.count("rejected-with:" + err)
        rejected_case(ctx, corr, log, cname, subset, kwargs, scale, err)
        if log.resolved is None and _must_resolve(cname, subset, info):
            ctx.violation("feasible-refused:" + cname + ":" + "+".join(subset),
                          f"{tag}: refused with {err} before anything was resolved, although a consistent groove with exactly "
                          f"these values exists (flank angle {info['fa'] / DEG} deg, drawn forwards) and the values determine it "
                          "uniquely (residual strictly monotone over the whole bracket)",
                          {"class": cname, "kwargs": kwargs, "witness": {"flank_angle_deg": info["fa"] / DEG}})
        return None
    ctx.case(canon)
    ctx.count("constructed:" + tag)
    calls, oracles = list(log.solver_calls), list(log.oracles)
    iterative = cname in ITERATIVE
    # (K) generated definitions vs this very construction
    if ctx.model_available and corr is not None:
        if len(calls) == 1:
            corr.solver_case(calls[0][0], calls[0][1], calls[0][2], oracles, scale)
        corr.plumbing_case(cname, kwargs, calls, g, scale)
        pad = _pad_of(kwargs, g)
        corr.chain_case(g, pad, scale, rng)
        corr.reported_case(cname, kwargs, calls, g, pad, scale)
        corr.validator_case(g, pad, scale, "constructed")
        if cname == "GenericElongationGroove":
            missing = [k for k in ("usable_width", "ground_width", "flank_angle", "depth") if k not in subset][0]
            corr.resolution_case(missing, vals, g)
    # oracle
    direct = cname in DIRECT
    ok = check_groove(ctx, cname, subset, kwargs, _View(g), scale, iterative, expected_echo(cname, kwargs, g),
                      observe_only=direct)
    # the root handed back by the solver really is a root of the residual it was given (contract, observed)
    for o in oracles:
        if o["kind"] == "root_scalar" and o["probes"]:
            if abs(o["probes"][0][1][0]) > 1e-7 * scale:
                ctx.violation("root-contract:" + cname, f"{tag}: root_scalar returned a point with residual {o['probes'][0][1][0]}",
                              {"class": cname, "kwargs": kwargs})
    if len(ctx.samples) < 3:
        ctx.sample({"class": cname, "kwargs": kwargs, "resolved": {k: getattr(g, k) for k in
                    ("r2", "depth", "usable_width", "flank_angle", "alpha2", "alpha3", "alpha4")}})
    if not (cross and ok) or direct:
        return g
    # cross-subset: A -> derived values -> every other admissible subset B
    import numpy as np
    dv = derived_values(cname, g)
    targets = list(subsets_of(cname))
    if cname == "FalseRoundGroove" and len(subset) == 2:
        targets = [p for p in PAIRS3] + targets     # built without flank argument: the other pairs without flank argument too
    for sb in targets:
        if sb == subset:
            continue
        if any(dv.get(k) is None for k in sb):
            ctx.violation("derived-missing:" + cname + ":" + "+".join(k for k in sb if dv.get(k) is None),
                          f"{tag}: derived parameter(s) "
                          f"{[k for k in sb if dv.get(k) is None]} are not resolved on the finished groove",
                          {"class": cname, "kwargs": kwargs})
            continue
        if any(k.startswith("flank_") and k != "flank_angle" and dv[k] < 1e-6 * scale for k in sb):
            continue        # a (numerically) zero flank: `if flank_width` style tests in the code treat 0 as absent;
            #                 a negative one (flank running backwards) is an unrealisable input, not an admissible subset
        kb = dict(fixed, **{k: dv[k] for k in sb})
        gb, errb = construct(cname, kb, log)
        tagb = tag + "->" + "+".join(sb)
        canon_b = [cname, "cross", list(sb), _canon_items(kb)]
        if gb is None:
            ctx.case(canon_b, nontrivial=False)
            ctx.count("cross-rejected:" + cname + ":" + "+".join(sb))
            rejected_case(ctx, corr, log, cname, sb, kb, scale, errb)
            continue
        ctx.case(canon_b)
        okb = check_groove(ctx, cname, sb, kb, _View(gb), scale, iterative, expected_echo(cname, kb, gb))
        if not okb:
            continue
        a, b = np.asarray(g.contour_points), np.asarray(gb.contour_points)
        sfa = max(abs(math.sin(g.flank_angle)), 1e-3)
        lim = (1e-5 if iterative else 1e-8) / sfa ** 2 * scale
        if a.shape == b.shape:
            diff = float(np.abs(a - b).max())
        else:
            diff = max(abs(getattr(g, n) - getattr(gb, n)) for n in ("z1", "y1", "z3", "y3", "z4", "y4", "z5", "y5", "z6", "y6"))
            ctx.count("cross:vertex-count-differs")
        if not iterative:
            # closed-form families: the values B reports are algebraic functions of the values it was given, and those are
            # A's reported values - so B must report every derived dimension as A did (same relative limit as the contour)
            dvb = derived_values(cname, gb)
            for k, va in dv.items():
                vb = dvb.get(k)
                if va is None or vb is None:
                    continue
                ref = max(abs(va), abs(vb), 1.0 if "angle" in k else scale)
                if not abs(va - vb) <= 1e-8 / sfa ** 2 * ref:
                    ctx.violation("derived-value:" + cname + ":" + k,
                                  f"{tagb}: re-built from the reported values the groove reports {k}={vb!r}, the groove they "
                                  f"were taken from reported {va!r}", {"class": cname, "A": kwargs, "B": kb})
        if diff <= lim:
            ctx.count("cross-same:" + cname)
            continue
        closed = not iterative
        multi = [o for o in log.oracles if o["kind"] == "root"]
        if closed or _proved_unique(cname, sb) or (not multi and unique_1d(log)):
            ctx.violation("cross-subset:" + cname, f"{tagb}: contours differ by {diff} (limit {lim}) although both grooves are "
                          "consistent and the values determine the groove uniquely", {"class": cname, "A": kwargs, "B": kb})
        else:
            ctx.count("cross-ambiguous:" + cname)       # several consistent grooves share B's values: not unique
    # a sibling: the very same values under another roll-face angle (0 <-> 30/45 degrees) - a sequence of calls that differ
    # in ONE argument is what exposes a value remembered from the previous call or dropped on the way to a shared helper
    if "pad_angle" in kwargs and not corpus:
        alt = 0.0 if kwargs["pad_angle"] else rng.choice([30.0, 45.0])
        ks = dict(kwargs, pad_angle=alt * DEG if cname == "GenericElongationGroove" else alt)
        gs, errs = construct(cname, ks, log)
        canon_s = [cname, "sibling", list(subset), _canon_items(ks)]
        if gs is None:
            # not drawn forwards: the values may simply not fit the other face angle
            ctx.case(canon_s, nontrivial=False)
            ctx.count("sibling-rejected:" + cname)
            rejected_case(ctx, corr, log, cname, subset, ks, scale, errs, after=kwargs)
        else:
            ctx.case(canon_s)
            ctx.count("sibling-constructed:" + cname)
            check_groove(ctx, cname, subset, ks, _View(gs), scale, iterative, expected_echo(cname, ks, gs), after=kwargs)
    # the same subset with the same values once more, after other grooves (other subsets, hence other solver branches) have
    # been built in between: the resolution is a function of the given values alone - whatever a solver keeps between calls
    # (a cached root, a start value, a module-level default) must not leak into the next groove.  Same rule as for another
    # subset: a different contour is a violation only where the values determine the groove uniquely (a warm start that
    # lands on the second root of a non-monotone residual is counted), differences within solver precision are the same
    # contour.
    g2, err2 = construct(cname, kwargs, log)
    if g2 is None:
        ctx.count("rebuild-rejected:" + cname)
        rejected_case(ctx, corr, log, cname, subset, kwargs, scale, err2)
        return g
    a, b = np.asarray(g.contour_points), np.asarray(g2.contour_points)
    sfa = max(abs(math.sin(g.flank_angle)), 1e-3)
    lim = (1e-5 if iterative else 1e-8) / sfa ** 2 * scale
    diff = float(np.abs(a - b).max()) if a.shape == b.shape else float("inf")
    if diff <= lim:
        ctx.count("rebuild-same" if diff == 0.0 else "rebuild-same-within-precision")
    elif not iterative or _proved_unique(cname, subset) or (
            not [o for o in log.oracles if o["kind"] == "root"] and unique_1d(log)):
        ctx.violation("rebuild-differs:" + cname, f"{tag}: building the groove again from the very same values gives another "
                      f"contour (difference {diff}, limit {lim}) although the values determine the groove uniquely",
                      {"class": cname, "kwargs": kwargs})
    else:
        ctx.count("rebuild-ambiguous:" + cname)
    return g


def _rel_pad():
    from pyroll.core import Config
    return float(Config.GROOVE_PADDING)


# past failures / design probes, run first (class, subset, fixed, values, scale)
CORPUS = [
    ("RoundGroove", ("r2", "depth"), dict(r1=2.0, pad_angle=0.0), dict(r2=15.8, depth=7.65, usable_width=31.0), 15.0),
    ("FalseRoundGroove", ("r2", "depth", "flank_angle"), dict(r1=1.685, pad_angle=0.0),
     dict(r2=27.84, depth=3.224, flank_angle=74.2), 27.0),                               # DESIGN F7 probe
    ("BoxGroove", ("usable_width", "ground_width"), dict(r1=1e-3, r2=2e-3, depth=5e-3, pad_angle=0.0),
     dict(usable_width=20e-3, ground_width=15e-3), 5e-3),
    ("DiamondGroove", ("usable_width", "tip_depth"), dict(r1=5.0, r2=8.0, pad_angle=0.0),
     dict(usable_width=40.0, tip_depth=11.54700538, tip_angle=120.0), 20.0),            # derived tip_angle
    ("SwedishOvalGroove", ("usable_width", "even_ground_width"), dict(r1=6.0, r2=26.0, depth=17.0, pad_angle=30.0),
     dict(usable_width=80.0, even_ground_width=20.0), 17.0),
    # hybr converges to alpha2 = -20 deg: consistent by analytic continuation (first tracer version raised a false alarm)
    ("UpsetOvalGroove", (), dict(r1=0.15454456711676287, r2=1.680207357337541, r3=1.0538033462193825,
                                 depth=0.2946666044803175, usable_width=1.5960243604546456, pad_angle=0.0), {}, 1.68),
    # hybr root alpha2 = -28.6 deg, alpha3 = 92 deg: deepest point of the continued chain 0.0204 != depth 0.0164 (F7, observed)
    ("UpsetOvalGroove", (), dict(r1=0.016380745046609083, r2=0.1372446407160309, r3=0.060057380014384966,
                                 depth=0.01643621243980193, usable_width=0.11181909976728459, pad_angle=45.0), {}, 0.137),
    # two consistent grooves share (r2, usable_width, flank_height): depth-unknown residual is not monotone
    ("FalseRoundGroove", ("r2", "depth", "flank_angle"), dict(r1=0.005441880190487969, pad_angle=45.0),
     dict(r2=0.014124976106408685, depth=0.017315341354535888, flank_angle=67.63658566317352), 0.0141),
]


def _extracted(ctx):
    found = getattr(ctx, "c04", None)
    if found is None:                       # extended search re-enters run() on a fresh ctx without translate()
        solvers = T_solvers.extract_solvers()
        classes = T_solvers.extract_classes(solvers)
        chain, _ = T_groove.extract_chain()
        cf = T_groove.extract_contour_functions(chain_names=[n for n, _ in chain])
        found = (solvers, classes, chain, T_groove.extract_resolution(), cf,
                 T_valid.extract_plausibility(None, [n for n, _ in chain], cf)[0], T_stored.extract(classes))
    return found


def translate(ctx):
    solvers, classes = T_solvers.emit(ctx, ID)
    stored = T_stored.emit(ctx, ID, classes)
    chain, res, cf = T_groove.emit(ctx, ID)
    tests = T_valid.emit(ctx, ID, chain, cf)
    ctx.c04 = (solvers, classes, chain, res, cf, tests, stored)


def _corr(ctx):
    """the correspondence side; None when the source has left the translator's subset so far that nothing can be
    extracted (already reported as a broken tie by `translate`): the oracle still runs on the implementation"""
    try:
        return Corr(ctx, *_extracted(ctx))
    except Exception as ex:
        if getattr(ctx, "c04", None) is not None:
            raise
        ctx.count("K:unavailable:" + type(ex).__name__)
        return None


def run(ctx):
    corr = _corr(ctx)
    log = Log(ctx.rng)
    with instrumented(log):
        for (cname, subset, fixed, vals, scale) in CORPUS:
            run_case(ctx, corr, log, cname, subset, fixed, vals, dict(scale=scale), cross=True, corpus=True)
        n0 = ctx.budget(10, 240)
        for cname in ALL_CLASSES + DIRECT:
            subsets = subsets_of(cname)
            for subset in subsets:
                built = 0
                n = n0 * (3 if len(subsets) == 1 else 1)      # classes with a single admissible subset get their share
                for i in range(n):
                    fixed, vals, info = draw(ctx.rng, cname)
                    g = run_case(ctx, corr, log, cname, subset, fixed, vals, info)
                    built += g is not None
                if n >= 8 and built < 0.6 * n and cname not in DIRECT:
                    # the draws are feasible by construction (the residual vanishes at the drawn angle, inside the bracket):
                    # the theorems' hypothesis "a root is returned" should be satisfiable; observed rejection rates of the
                    # unchanged tree are < 8 % for every class/subset (non-convergence of hybr, IndexError of the raster)
                    ctx.disagreement(f"{cname} rejects {n - built} of {n} feasible geometries given as {subset}",
                                     {"class": cname, "subset": list(subset)})
        run_boundary(ctx, corr, log)
        run_passthrough(ctx, corr, log)
    if ctx.model_available and corr is not None:
        fa_witness_case(ctx)
    if ctx.model_available and corr is not None:
        corr.flush()


def boundary_subsets(cname):
    """the admissible defining subsets, plus - boundary of "exactly one flank argument" - the false round with the flank
    argument left out (the solver's flank-free mode: accepted by the constructor, the same groove as a flank of 0)"""
    extra = PAIRS3 if cname == "FalseRoundGroove" else []
    return list(subsets_of(cname)) + extra


def run_boundary(ctx, corr, log):
    """The boundary stream (see `edge_features`): every class x every admissible subset x every boundary feature, the pad
    angle cycling through 0 / 30 / 45 degrees (0 is itself the boundary of the pad-angle range; the sibling of every case
    switches between 0 and non-zero), plus combinations of two features.  Each case is a feasible geometry drawn forwards
    with the named parameters exactly on the boundary and goes through the complete `run_case`: oracle on the constructed
    (or refused-after-resolving) groove, rebuild from every other admissible subset filled with the derived values,
    sibling under the other kind of pad angle, rebuild from the same values."""
    rng = ctx.rng
    rounds = ctx.budget(2, 6)
    k = 0
    for cname in ALL_CLASSES:
        feats = edge_features(cname)
        if not feats:
            continue
        for subset in boundary_subsets(cname):
            for r in range(rounds):
                for f in feats:
                    edge = {f, EDGE_PADS[k % 3]}
                    k += 1
                    if cname == "FalseRoundGroove" and len(subset) == 2:
                        edge.add("flank=0")             # no flank argument: the witness has no flank either
                    if r % 2 == 1:                      # every second round: two features at once
                        g = rng.choice(feats)
                        if not _edge_conflict(f, g):
                            edge.add(g)
                    fixed, vals, info = draw(rng, cname, edge=frozenset(edge))
                    if cname == "FlatOvalGroove" and "egw=0" in edge and subset == ("usable_width",):
                        # the usable width of the witness is computed forwards, the solver's own value of the same width
                        # differs from it in the last bit: the even ground width the constructor derives is +-1e-16 of the
                        # width, and when it comes out negative the input is (by one rounding) outside the range - such a
                        # refusal is not claimed to be wrong.  The boundary itself is hit exactly by the cross rebuild of
                        # the `even_ground_width = 0` case (usable width as reported by the groove -> difference exactly 0).
                        info = {k: v for k, v in info.items() if k != "fa"}
                    run_case(ctx, corr, log, cname, subset, fixed, vals, info, edge=sorted(edge))


def run_passthrough(ctx, corr, log):
    """The pass-through stream (see `passthrough_params`): every class that hands `**kwargs` on to the generic constructor
    (and the generic class itself) x pad angle exactly 0 / 30 / 45 degrees x each pass-through argument given explicitly on
    its own, the numeric ones together, and all of them together; the defining subset rotates through the admissible ones.
    Each case is a feasible interior geometry drawn forwards and goes through the complete `run_case` - oracle, re-build
    from every other admissible subset (with the same pass-through arguments: "the same contour whichever subset is given"),
    sibling under the other kind of pad angle, re-build."""
    rng = ctx.rng
    params = passthrough_params()
    names = list(params)
    numeric = [n for n in names if isinstance(params[n], (int, float)) and not isinstance(params[n], bool)]
    combos = [(n,) for n in names]
    if len(numeric) > 1:
        combos.append(tuple(numeric))
    if len(names) > 1 and tuple(names) not in combos:
        combos.append(tuple(names))
    rounds = ctx.budget(1, 4)
    k = 0
    for cname in ALL_CLASSES:
        if not accepts_passthrough(cname):
            ctx.count("passthrough-not-accepted:" + cname)
            continue
        subsets = subsets_of(cname)
        for r in range(rounds):
            for padf in EDGE_PADS:
                for combo in combos:
                    subset = subsets[k % len(subsets)]
                    k += 1
                    fixed, vals, info = draw(rng, cname, edge=frozenset([padf]))
                    for n in names:
                        fixed.pop(n, None)
                    given = []
                    for n in combo:
                        v = passthrough_value(rng, n, params[n], info["scale"])
                        if v is None:
                            ctx.count("passthrough-unknown-kind:" + n)
                            continue
                        fixed[n] = v
                        given.append(n)
                    g = run_case(ctx, corr, log, cname, subset, fixed, vals, info)
                    ctx.count(("passthrough-constructed:" if g is not None else "passthrough-rejected:")
                              + "+".join(given) + ":" + padf)


def fa_witness_case(ctx):
    """`PyrollProps/C04Boundary.lean` refutes the full closure statement of the `flank_angle`-given branch of `solve_r1234`
    with a concrete environment (`faWitness`: 45 degree flank, alpha2 = 15, alpha3 = 60, hence alpha4 = 30 degrees; r2 = r3 = r4 =
    1, sharp edge, depth 1) and proves the step to be exactly 1.  The witness is replayed on the implementation: the real
    residual closure of the real `solve_r1234` is evaluated at the witness angles (scipy's `root` is replaced for this one
    call by a stand-in that returns them - the theorem is about ANY root of the residual, not about the one hybr would
    find), and the chain of the real generic constructor is traced for the returned angles.  No groove class reaches the
    branch (`plumbing_calls`), so the step is counted (`observed:`), not reported; a deviation from the proved value is
    a correspondence disagreement."""
    import importlib
    import numpy as np
    ges = importlib.import_module("pyroll.core.grooves.generic_elongation_solvers")
    from pyroll.core.grooves import GenericElongationGroove
    fa, a2, a3 = math.pi / 4, math.pi / 12, math.pi / 3
    args = dict(r1=0.0, r2=1.0, r3=1.0, r4=1.0, depth=1.0, width=2 * (math.cos(fa) + math.sin(fa)),
                indent=2 * (1 - math.cos(a2 + a3 - fa)), pad_angle=0.0, flank_angle=fa)
    seen = {}

    class _Sol:
        success = True
        x = np.array([a2, a3])

    def stand_in(f, x0, **kw):
        seen["residual"] = [float(v) for v in f(np.array([a2, a3]))]
        return _Sol()

    old = ges.root
    ges.root = stand_in
    try:
        sol = ges.solve_r1234(**args)
    finally:
        ges.root = old
    replay = {"solver": "solve_r1234", "args": args, "root": [a2, a3]}
    if "residual" not in seen or max(abs(v) for v in seen["residual"]) > 1e-12:
        ctx.disagreement("the witness refuting r1234_fa_closure_full is not a root of the implementation's residual: "
                         f"{seen.get('residual')}", replay)
        return
    obj = object.__new__(GenericElongationGroove)
    refused = None
    try:
        obj.__init__(r1=0.0, r2=1.0, r3=1.0, r4=1.0, depth=1.0, usable_width=args["width"], indent=args["indent"],
                     flank_angle=float(sol["flank_angle"]), alpha3=float(sol["alpha3"]), alpha4=float(sol["alpha4"]),
                     pad_angle=0.0)
    except ValueError as ex:
        refused = str(ex)
    step = obj.y4 - (obj.y3 - math.tan(obj.flank_angle) * (obj.z4 - obj.z3))
    if abs(step - 1.0) > 1e-9:
        ctx.disagreement(f"the chain of the witness refuting r1234_fa_closure_full ends with a step of {step}, proved: 1",
                         replay)
        return
    ctx.validated()
    ctx.count("observed:r1234-fa-witness-step-1" + (":refused" if refused else ":constructed"))
    ctx.notes.setdefault("observed", {}).setdefault("r1234-fa-witness", {
        "what": f"solve_r1234(flank_angle=...) at a root of its residual: step {step} at junction 4, generic constructor: "
                f"{refused or 'accepted'}", "replay": replay})


def _edge_conflict(f, g):
    """two features that cannot hold together"""
    pair = {f, g}
    return (pair == {"fa-lo", "fa-hi"} or pair == {"egw=0", "egw>0"} or pair == {"r3=r4", "r2=r4"}
            or (pair & {"r4=0"} and pair & {"r2=r4", "r3=r4"}) or (pair & {"r2=0"} and pair & {"r2=r4"}))


def replay(ctx, data):
    r = data.get("replay", data)
    log = Log(ctx.rng)
    corr = _corr(ctx)
    with instrumented(log):
        for kw in [r.get("kwargs"), r.get("A"), r.get("B")]:
            if not kw:
                continue
            cname = r["class"]
            opt = [k for s in subsets_of(cname) for k in s]
            subset = tuple(k for k in kw if k in opt)
            # the size of the groove: the largest length among the arguments (not angles, ratios, classifier lists)
            scale = max(abs(v) for k, v in kw.items() if isinstance(v, (int, float)) and "angle" not in k
                        and not k.startswith("rel_"))
            fixed = {k: v for k, v in kw.items() if k not in subset}
            info = dict(scale=scale)
            if r.get("witness") and kw is r.get("kwargs"):
                info["fa"] = r["witness"]["flank_angle_deg"] * DEG      # a forward-drawn input (see `_must_resolve`)
            run_case(ctx, corr, log, cname, subset, fixed, kw, info, cross=True)
    if ctx.model_available and corr is not None:
        corr.flush()
