"""C01 - hook resolution order is a pure function of the registrations and the class hierarchy.

Tie: T + K (hand-written model lean/PyrollModel/HookReg.lean + HookEval.lean + HookOps.lean + HookUse.lean, theorems
lean/PyrollProps/C01.lean).
T: `translate` re-reads pyroll/core/hooks.py (driver/translate/hooks_skeleton.py -> lean/PyrollModel/Gen/C01Hooks.lean): the
model CONSUMES the tier order of functions_gen, the `reversed` of _yield_functions_from, the store table of add_function, the
store list of remove_function, the finally flag of HookFunction.__call__ and whether Hook.__get__, asked with an owner other
than its own, re-uses the hook object that class carries; the statements of the other mirrored functions are pinned by
`hooks_source_as_modelled`.
K: the harness builds real HookHost hierarchies with type(), drives them and the Lean model
with the same operation lines and compares after EVERY operation the answer of the operation (Hook.functions as id
list, value and invocation trace of a read, AttributeError) and the complete registry state (which classes carry an
own Hook object, the six stores of each as id lists).

The independent oracle is written from the property text: it keeps the log of live registrations and computes the
expected order by SORTING with the documented key (wrappers first; tryfirst < normal < trylast; index of the owner
in the reading class' __mro__; latest registration first), the expected value by folding the wrappers over the first
plain result that is not None, and the expected invocations (each wrapper entered exactly once per object, receiving
the value of the rest of the chain of that object's class; plain implementations consulted in order up to the first
result).  Every successful add_function call is an entry of the log of its own, also when its function object is
registered already (a python function cannot know through which registration it is called: invocation traces name
function objects, the oracle and the comparison with the model map registrations to them).

Accesses that reach the hook object of a BASE class with a subclass as owner (`tv` / `rv`: `super(K, x).h` for every class K
of the __mro__, explicit descriptor calls `Base.__dict__["h"].__get__(x, Sub)`; x the class, an instance holding an explicit
value, or a fresh object whose value is then computed) are interleaved like the other accesses: python pairs a hook object
with an owner that carries a hook object of its own there, which plain attribute lookup never does.  The oracle has no
clause of its own for them: a read that arrives this way is a read on an object of its class, everything else shows in what
is observed afterwards.

Objects that are USED more than once (stream `used-object`): an object is created without the input its implementations
need, read too early (the implementation raises AttributeError, or ValueError for an unusable input - inside wrappers,
inside a nested read, before a wrapper's yield), probed with has_value, re-evaluated with reevaluate_cache, given its
input and read again, while registrations come and go.  The oracle demands of every value that has to be COMPUTED on
such an object what it demands on a fresh one (keys `obj-…`): the outcome depends on the registrations (and the input),
not on what was read on the object before.  The model keeps the re-entrancy marks as state (HookUse.lean).

Calls into pyroll go through Real.pyroll: an exception that comes out of pyroll is data (answer `raised <Type>` = broken
correspondence, and a `raises-<op>` verdict of the oracle where the property demands the operation to work), never a
crash of the harness; exceptions of the harness' own code propagate.
"""
from . import common  # noqa: F401  (silences the pyroll loggers)

ID = "C01"
LEAN_MODULES = ["PyrollProps.C01"]
MODEL = "c01"
MODEL_MODULES = ["PyrollModel.HookDriver"]
RULE = ("random histories (quick <= 25, thorough <= 60 ops) over hierarchies of 1-6 fresh HookHost subclasses (chains, "
        "diamonds, random multiple inheritance accepted by C3, several roots, classes defined late, nested qualnames); the "
        "hook is defined in a class body and/or added by extension_class, at a root, in the middle, twice or never; "
        "registrations of all tier x wrapper x owner combinations (add_function, decorator call, tryfirst+trylast, "
        "re-registration of a HookFunction object), the SAME python function object registered several times (stream "
        "`same`, dense in an eighth of the histories: on the same class after other registrations, on a subclass while a "
        "base has it and vice versa, same or other tier, directly / as decorator / through the HookFunction of the earlier "
        "registration, as temporary `with` registration around reads, with one of the two registrations removed "
        "afterwards), removals through the owner, through `with`, through another class "
        "and repeated; class and instance accesses interleaved everywhere (they create the per-subclass Hook objects), about 5 % "
        "of the operations reach the hook object of a base class with a subclass as owner: super(K, x).h for K the class or "
        "any base, Base.__dict__['h'].__get__(x, Sub), x = the class / an instance holding an explicit value / a fresh object "
        "whose value is computed (evidence counters via-base-hook:<tv|rv>-<super|dict>…:<asked|no-hook-to-ask>); "
        "implementations are data: constant / None / read the hook on a fresh instance of another class (per-object "
        "re-entrancy), cooperating wrapper x -> 10x+k with or without default, declining wrapper (at most 4 wrappers per "
        "history when wrappers without default may occur, else at most 6), implementations (with or without the `cycle` "
        "argument) and wrappers that read an input attribute of their object and raise AttributeError / ValueError while "
        "it is missing / unusable; objects that STAY (stream `used-object`, a sixth of the budget, and 0-20 % of the "
        "operations elsewhere): created without input, read too early, probed with has_value, re-evaluated with "
        "reevaluate_cache, input supplied / spoiled / removed, read again - evidence counters "
        "used-object:<get|has|reeval>:<value|no-value|raised|cached>-after-<previous outcome>. A case is one "
        "history; non-trivial = at least two live registrations are visible in some observed chain; distinct by the "
        "canonical op list.")
ASSUMPTIONS = [
    "source tie (T): pyroll/core/hooks.py is read with ast into canonical role lines and typed facts (driver/translate/hooks_skeleton.py, trusted); the facts the model consumes are also executed against the imported pyroll.core.hooks on every run (self_check), the role lines are compared with the hand-written shape lean/PyrollModel/HookSource.lean by the theorem hooks_source_as_modelled",
    "CPython semantics are modelled, not verified: C3 __mro__ (the real tuples are inputs of the model), attribute "
    "lookup on classes through descriptors and the metaclass __setattr__, the lookup of super(K, x) (first class after K in "
    "the __mro__ of x's class whose __dict__ holds the name), generator protocol (next/send/StopIteration.value), "
    "list.append/remove, try/finally",
    "the model is tied to the code by sampled differential runs (answer and full registry state compared after every op)",
    "implementations are drawn from a small vocabulary (constant, delegate to a fresh instance, wrapper "
    "x -> 10x+k / default, declining wrapper, constant / wrapper that needs an input attribute of its object and raises "
    "AttributeError or ValueError without it, with or without the `cycle` argument); wrappers outside the documented "
    "protocol (several yields, no cycle test) and exceptions other than these two are outside this model (C07)",
    "the value cache of an object (`__cache__`) is read directly by the harness to tell computed from cached reads",
]

TIERS = ("first", "normal", "last")


def translate(ctx):
    """(T) re-read pyroll/core/hooks.py of the working tree -> lean/PyrollModel/Gen/C01Hooks.lean (role lines of the mirrored
    functions + the facts the model consumes: tier order, `reversed`, add / remove store tables, finally flag)"""
    from ..translate import hooks_skeleton
    info = hooks_skeleton.emit_for(ctx, ID)
    ctx.notes["hooks_source"] = {k: v for k, v in info["facts"].items() if k in hooks_skeleton.SELECTION[ID]["fact_names"]}


def _imports():
    from pyroll.core.hooks import Hook, HookHost, HookFunction
    return Hook, HookHost, HookFunction


# ---------------------------------------------------------------------------------------------------------------
# operations (tuples; everything needed to re-execute by hand):
#   ("class", c, [bases], hook01, nested01)      type("K<c>", bases or (HookHost,), {"h": Hook()} if hook)
#   ("ext", c)                                   K<c>.extension_class(type("Src", (), {"h": Hook()}))
#   ("tc", c)                                    getattr(K<c>, "h", None)
#   ("ti", c)                                    i = K<c>(); i.__dict__["h"] = 1; i.h      (access through an instance)
#   ("add", label, c, tier, w01, body, how)      hf = K<c>.h.add_function(f, ...)   how: call | deco | both(tryfirst+trylast)
#   ("readd", label, c, tier, src_label)         K<c>.h.add_function(HookFunction(copy of f[src_label]), ...)  (an object
#                                                of type HookFunction is unwrapped; the function itself is a fresh copy)
#   ("same", label, c, tier, src_label, how)     the SAME python function object as registration src_label registered once
#                                                more: how = call | deco | hf (the HookFunction object returned by the
#                                                earlier registration is handed to add_function)
#   ("rm", c, label, how)                        K<c>.h.remove_function(hf)   how: call | with (c is ignored: hf.hook)
#   ("fns", c)                                   K<c>.h.functions
#   ("read", c)                                  i = K<c>(); i.inp = 1; i.h          (fresh object, input supplied)
#   ("tv", how, k, c, inst01)                    the hook object of a BASE class asked for K<c> (which may carry a hook object of
#                                                its own), nothing evaluated:  how = super: `super(K<k>, x).h` (the lookup starts
#                                                after K<k> in K<c>.__mro__)  |  dict: `K<k>.__dict__["h"].__get__(x', K<c>)`;
#                                                x = K<c> itself / x' = None (inst = 0), or an instance of K<c> that holds an
#                                                explicit value (inst = 1).  Skipped unless K<k> is K<c> or one of its bases.
#   ("rv", how, k, c)                            the same on a fresh object WITH its input: `super(K<k>, K<c>()).h` /
#                                                `K<k>.__dict__["h"].__get__(K<c>(), K<c>)` - the value is computed
#   ("obj", o, c)                                object #o = K<c>()  - kept for the rest of the history, no input yet
#   ("oinp", o, s)                               input of object #o: s = 0 `del o.inp` | 1 `o.inp = -1` (bad) | 2 `o.inp = 1`
#   ("oread", o, how)                            how = get: `o.h`   |  has: `o.has_value("h")`        (on the USED object)
#   ("oreval", o)                                `o.reevaluate_cache()`
# body: ("ret", v|None) ("del", c) ("wrap", k, d|None) ("decline",)
#       ("need", v, aware01)   plain implementation that reads the input of its object: `self.inp` missing ->
#                              AttributeError (as any too-early read), negative -> ValueError, else answers v; with
#                              aware = 1 it takes the `cycle` argument and steps aside (None) when told cycle=True
#       ("wneed", k, d|None)   cooperating wrapper like ("wrap", k, d) that reads the input of its object BEFORE its yield
# ---------------------------------------------------------------------------------------------------------------
def body_tokens(b):
    if b[0] == "ret":
        return f"ret {'_' if b[1] is None else b[1]}"
    if b[0] == "del":
        return f"del {b[1]}"
    if b[0] == "wrap":
        return f"wrap {b[1]} {'_' if b[2] is None else b[2]}"
    if b[0] == "need":
        return f"need {b[1]} {b[2]}"
    if b[0] == "wneed":
        return f"wneed {b[1]} {'_' if b[2] is None else b[2]}"
    return "decline"


def ids_str(ids):
    return ",".join(map(str, ids)) if ids else "-"


class _Runaway(BaseException):
    """raised by the harness' implementations when one read has made more than TRACE_LIMIT invocations"""


class _InputError(ValueError):
    """raised by the harness' `need` implementations for an object whose input is unusable (an implementation that
    fails for a reason other than a missing attribute); never an error of the harness, never one of pyroll"""


class _ExpRaise(Exception):
    """oracle-internal: the evaluation the registrations demand reaches an implementation that raises for this object
    (kind = "attr" | "input"); the property demands nothing of the outcome of such a read"""


# Under the documented protocol one read on a chain of w wrappers and p plain implementations makes at most
# (p + 1) * ((w + 1) * (w + 2) + p) invocations (each wrapper entered once, skipped once per later wrapper; every plain
# implementation may create one further object), i.e. < 10^4 for the generated sizes.  Only code that applies wrappers
# repeatedly (or a chain of wrappers that answer None, which the generator keeps short) gets near this limit.
TRACE_LIMIT = 100000
MODEL_TRACE_LIMIT = 12000     # events of one read up to which the Lean model is run on it (see run)


class Real:
    """Executes operation tuples on the real implementation and produces the model's answer lines."""

    def __init__(self):
        self.Hook, self.HookHost, self.HookFunction = _imports()
        self.classes = {}          # c -> class
        self.order = []            # class numbers in creation order
        self.hfs = []              # id -> what add_function returned for registration id
        self.hf_id = {}            # id(HookFunction) -> id of the FIRST registration that returned this object
        self.meta = []             # id -> dict(cls, tier, w, body, seq, live, fid)   (the oracle's registration log)
        self.funcs = {}            # fid -> python function object (fid = id of the first registration of that object)
        self.raised = []           # (op name, exception text) of exceptions that came out of pyroll
        self.problems_now = []     # oracle verdicts produced while applying an op: (key, what)
        self.label = {}            # label -> id
        self.trace = []            # events of the current read: (kind, n, instance index, extra)
        self.insts = []            # instances of the current read (kept alive: identity = index)
        self.depth = 0
        self.runaway = False
        self.lines = []            # model lines actually emitted
        self.answers = []          # (line index, answer, obs)
        self.seq = 0
        self.objs = {}             # o -> dict(inst, cls, s = input state 0 missing / 1 bad / 2 good, cached = the oracle's
        #                            belief that a determined value is cached on the object)
        self.keep = []             # every object ever created in this history stays alive: `id(instance)` is never reused
        self.attr_inside = False   # the last AttributeError answer of `pyroll(..., attr=True)` was raised inside pyroll

    # ---- implementations as data --------------------------------------------------------------------------------
    def inst_index(self, obj):
        for i, o in enumerate(self.insts):
            if o is obj:
                return i
        self.insts.append(obj)
        return len(self.insts) - 1

    def record(self, *ev):
        self.trace.append(ev)
        if len(self.trace) > TRACE_LIMIT:
            raise _Runaway()

    def make_function(self, fid, body):
        """a python function object; it reports itself as `fid` (a function object cannot know through which of its
        registrations it is being called: the trace is a trace of FUNCTIONS, `fid_of` maps registrations to them)"""
        R = self
        kind = body[0]
        if kind == "ret":
            v = body[1]

            def plain(self):
                R.record("call", fid, R.inst_index(self), None)
                return v
            return plain
        if kind == "del":
            c = body[1]

            def delegating(self):
                R.record("call", fid, R.inst_index(self), None)
                if R.depth > 0:
                    return None
                R.depth += 1
                try:
                    inst = R.classes[c]()
                    R.keep.append(inst)
                    if "inp" in self.__dict__:
                        inst.inp = self.__dict__["inp"]      # the object read on behalf of this one has the same input
                    R.record("inst", c, R.inst_index(inst), None)
                    try:
                        return inst.h
                    except AttributeError:
                        return None
                finally:
                    R.depth -= 1
            return delegating
        if kind == "need":
            v, aware = body[1], body[2]

            def use_input(obj):
                if obj.inp < 0:          # `obj.inp` itself raises AttributeError while the input is missing
                    raise _InputError("negative input")
            if aware:
                def needing(self, cycle):
                    if cycle:
                        R.record("cyc", fid, R.inst_index(self), None)
                        return None
                    R.record("call", fid, R.inst_index(self), None)
                    use_input(self)
                    return v
            else:
                def needing(self):
                    R.record("call", fid, R.inst_index(self), None)
                    use_input(self)
                    return v
            return needing
        if kind in ("wrap", "wneed"):
            k, d = body[1], body[2]

            def wrapping(self, cycle):
                if cycle:
                    R.record("cyc", fid, R.inst_index(self), None)
                    return None
                R.record("enter", fid, R.inst_index(self), None)
                if kind == "wneed" and self.inp < 0:      # (`self.inp` raises AttributeError while the input is missing)
                    raise _InputError("negative input")
                x = yield
                if x is not None and type(x) is not int:
                    # whatever the implementation under test sends in: recorded (the oracle compares it with the value
                    # the rest of the chain demands), never an exception of the harness
                    R.record("exit", fid, R.inst_index(self), "<%s>" % type(x).__name__)
                    return d
                R.record("exit", fid, R.inst_index(self), x)
                return 10 * x + k if x is not None else d
            return wrapping

        def declining(self):
            R.record("decl", fid, R.inst_index(self), None)
            return None
            yield  # noqa  (makes it a generator function: returns before its yield)
        return declining

    def fid_of(self, rid):
        return self.meta[rid]["fid"] if 0 <= rid < len(self.meta) else rid

    def meta_body_of_fid(self, fid):
        return self.meta[fid]["body"] if 0 <= fid < len(self.meta) else ("?",)

    def pyroll(self, opname, thunk, attr=False, judge=True):
        """run a call into the implementation under test.  Exceptions that come out of pyroll (a pyroll frame in the
        traceback) are DATA: returned as ("raised", text) and judged by the oracle / the correspondence; exceptions of
        the harness' own code propagate (infrastructure errors)."""
        import traceback
        try:
            return ("ok", thunk())
        except Exception as ex:       # _Runaway is a BaseException and passes through
            if isinstance(ex, _InputError):
                return ("input", None)    # raised by a `need` implementation of the harness (bad input), passed on by pyroll
            if attr and isinstance(ex, AttributeError):
                # the documented answer: no such hook / no value (attr_inside: raised by pyroll itself = "no value", not by
                # python's attribute lookup = "no such attribute")
                self.attr_inside = any("/pyroll/" in f.filename for f in traceback.extract_tb(ex.__traceback__))
                return ("attr", None)
            e, seen = ex, set()
            while e is not None and id(e) not in seen:
                seen.add(id(e))
                if any("/pyroll/" in f.filename for f in traceback.extract_tb(e.__traceback__)):
                    text = f"raised {type(ex).__name__}"
                    self.raised.append((opname, f"{type(ex).__name__}: {str(ex)[:120]}"))
                    if judge:
                        # the property quantifies over every history of these operations: none of them may fail
                        self.problems_now.append((f"raises-{opname}", f"`{opname}` raised {self.raised[-1][1]} "
                                                  f"(the operation is part of every history the property speaks about)"))
                    return ("raised", text)
                e = e.__cause__ or e.__context__
            raise

    # ---- operations --------------------------------------------------------------------------------------------------
    def mro_of(self, c):
        num = {id(k): n for n, k in self.classes.items()}
        return [num[id(k)] for k in self.classes[c].__mro__ if id(k) in num]

    def line_of(self, op):
        """the model line of an op (None: the op cannot be expressed = is skipped on both sides)"""
        n = op[0]
        if n == "class":
            return None  # emitted by apply (needs the real __mro__)
        if n in ("ext", "tc", "ti", "fns", "read"):
            return f"{n} {op[1]}" if op[1] in self.classes else None
        if n in ("tv", "rv"):
            how, k, c = op[1:4]
            if k not in self.classes or c not in self.classes or not issubclass(self.classes[c], self.classes[k]):
                return None      # (`super(K, x)` demands that x is a K; the descriptor protocol only ever passes a subclass)
            return f"{n} {how} {k} {c}"
        if n == "obj":
            return f"obj {op[1]} {op[2]}" if op[1] not in self.objs and op[2] in self.classes else None
        if n == "oinp":
            return f"oinp {op[1]} {op[2]}" if op[1] in self.objs else None
        if n == "oread":
            return f"{'ohas' if op[2] == 'has' else 'oread'} {op[1]}" if op[1] in self.objs else None
        if n == "oreval":
            return f"oreval {op[1]}" if op[1] in self.objs else None
        if n == "add":
            _, label, c, tier, w, body, how = op
            if c not in self.classes or (body[0] == "del" and body[1] not in self.classes):
                return None
            if body[0] == "wneed" and tier in ("first", "both"):
                return None      # not part of the vocabulary (see WNEED_NOTE)
            return f"add {c} {'first' if tier == 'both' else tier} {w} {body_tokens(body)}"
        if n in ("readd", "same"):
            label, c, tier, src = op[1:5]
            if c not in self.classes or src not in self.label:
                return None
            m = self.meta[self.label[src]]
            if m["body"][0] == "wneed" and tier == "first":
                return None      # not part of the vocabulary (see WNEED_NOTE)
            return f"add {c} {tier} {m['w']} {body_tokens(m['body'])}"
        if n == "rm":
            _, c, label, how = op
            if label not in self.label:
                return None
            if how == "with":
                c = self.meta[self.label[label]]["cls"]
            if c not in self.classes:
                return None
            return f"rm {c} {self.label[label]}"
        raise ValueError(op)

    def apply(self, op):
        """returns (line, answer) or None when the op is skipped"""
        Hook, HookHost, _ = self.Hook, self.HookHost, self.HookFunction
        n = op[0]
        if n == "class":
            _, c, bases, hook, nested = op
            if c in self.classes or any(b not in self.classes for b in bases):
                return None

            def make():
                dct = {"h": Hook[float]()} if hook else {}
                if nested:
                    dct["__qualname__"] = f"Outer{c}.K{c}"
                return type(f"K{c}", tuple(self.classes[b] for b in bases) or (HookHost,), dct)
            st, cls = self.pyroll("class", make)
            if st == "raised":
                return None      # the class does not exist: later ops on it are skipped on both sides (self.raised is judged)
            self.classes[c] = cls
            self.order.append(c)
            return f"class {c} {ids_str(self.mro_of(c))} {hook}", "ok"
        line = self.line_of(op)
        if line is None:
            return None
        if n == "ext":
            st, r = self.pyroll("ext", lambda: self.classes[op[1]].extension_class(type("Src", (), {"h": Hook[float]()})))
            return line, ("ok" if st == "ok" else r)
        if n == "tc":
            st, r = self.pyroll("tc", lambda: getattr(self.classes[op[1]], "h", None))
            return line, ("ok" if st == "ok" else r)
        if n == "ti":
            def through_instance():
                inst = self.classes[op[1]]()
                inst.__dict__["h"] = 1
                return inst.h
            st, r = self.pyroll("ti", through_instance, attr=True)
            # (the explicit value itself is not part of this property: a different value only breaks the correspondence)
            return line, ("ok" if (st, r) == ("ok", 1) else r if st == "raised" else f"explicit-value-lost {st}")
        if n == "tv":
            _, how, k, c, inst = op

            def ask():
                x = self.classes[c]
                if inst:
                    x = x()
                    x.__dict__["h"] = 1
                return self.ask_via(how, k, c, x)
            st, r = self.pyroll("tv", ask, attr=True)
            if st == "attr":
                return line, "AttributeError"
            if st == "raised":
                return line, r
            good = (st, r) == ("ok", 1) if inst else isinstance(r, Hook)
            return line, "ok" if good else f"explicit-value-lost {st}" if inst else f"not-a-hook {type(r).__name__}"
        if n == "rv":
            return line, self.read_answer(op[3], via=(op[1], op[2]))
        if n in ("add", "readd", "same"):
            rid = len(self.meta)
            if n == "add":
                _, label, c, tier, w, body, how = op
                fid = rid
                func = self.funcs[fid] = self.make_function(fid, body)
            elif n == "readd":
                _, label, c, tier, src = op
                how = "call"
                m = self.meta[self.label[src]]
                w, body = m["w"], m["body"]
                fid = rid
                # an object of type HookFunction handed to add_function (it is unwrapped); the function is a fresh copy
                self.funcs[fid] = self.make_function(fid, body)
                func = self.HookFunction(self.funcs[fid], None, wrapper=bool(w))
            else:
                _, label, c, tier, src, how = op
                m = self.meta[self.label[src]]
                w, body = m["w"], m["body"]
                fid = m["fid"]
                # the SAME function object once more (directly, or through the HookFunction of the earlier registration)
                func = self.hfs[self.label[src]] if how == "hf" and isinstance(self.hfs[self.label[src]],
                                                                              self.HookFunction) else self.funcs[fid]
            kw = {}
            if tier in ("first", "both"):
                kw["tryfirst"] = True
            if tier in ("last", "both"):
                kw["trylast"] = True
            if w:
                kw["wrapper"] = True
            st, hook = self.pyroll("add", lambda: getattr(self.classes[c], "h"), attr=True)
            if st == "raised":
                return line, hook
            if st == "attr" or not isinstance(hook, Hook):
                return line, "AttributeError"
            # (tryfirst AND trylast is the one registration the documentation does not define: refusing it is no violation)
            if how == "deco":
                st, hf = self.pyroll("add", lambda: hook(**kw)(func) if kw else hook(func), judge=tier != "both")
            else:
                st, hf = self.pyroll("add", lambda: hook.add_function(func, **kw), judge=tier != "both")
            if st == "raised":
                return line, hf
            # the registration is an entry of the log whatever add_function returned (an object it returned before keeps
            # the id of its first registration: Hook.functions / the stores are lists of these objects)
            self.hfs.append(hf)
            self.hf_id.setdefault(id(hf), rid)
            self.label[label] = rid
            self.seq += 1
            self.meta.append({"cls": c, "tier": "first" if tier == "both" else tier, "w": int(bool(w)), "body": body,
                              "seq": self.seq, "live": True, "fid": fid})
            return line, f"ok {rid}"
        if n == "rm":
            _, c, label, how = op
            rid = self.label[label]
            hf = self.hfs[rid]
            through_owner = True
            judge = self.meta[rid]["live"]     # removing twice / through a class that does not own it: may be refused
            if not isinstance(hf, self.HookFunction):
                # add_function handed out something that is not the documented handle of the registration
                if judge and (how == "with" or self.meta[rid]["cls"] == c):
                    self.problems_now.append(("no-removal-handle", f"add_function returned {type(hf).__name__} for "
                                              f"registration {rid}: it cannot be removed (`with` / remove_function)"))
                return line, "no-handle"
            if how == "with":
                c = self.meta[rid]["cls"]

                def leave():
                    with hf:
                        pass
                st, r = self.pyroll("rm", leave, judge=judge)
            else:
                through_owner = self.meta[rid]["cls"] == c
                st, hook = self.pyroll("rm", lambda: getattr(self.classes[c], "h"), attr=True)
                if st == "raised":
                    return line, hook
                if st == "attr":
                    return line, "AttributeError"
                st, r = self.pyroll("rm", lambda: hook.remove_function(hf), judge=judge and through_owner)
            if st == "raised":
                return line, r
            if through_owner:
                self.meta[rid]["live"] = False
            return line, "ok"
        if n == "fns":
            return line, self.functions_answer(op[1])
        if n == "read":
            return line, self.read_answer(op[1])
        if n == "obj":
            st, inst = self.pyroll("obj", lambda: self.classes[op[2]]())
            if st != "ok":
                return line, inst
            self.keep.append(inst)
            self.objs[op[1]] = {"inst": inst, "cls": op[2], "s": 0, "cached": False}
            return line, "ok"
        if n == "oinp":
            ob = self.objs[op[1]]
            if op[2] == 0:
                ob["inst"].__dict__.pop("inp", None)
            else:
                ob["inst"].inp = -1 if op[2] == 1 else 1
            ob["s"] = op[2]
            return line, "ok"
        if n in ("oread", "oreval"):
            return line, self.object_answer(op[1], op[2] if n == "oread" else "reeval")
        raise ValueError(op)

    def ask_via(self, how, k, c, x):
        """the hook object of the base class K<k> (dict) / of the first class after K<k> in the __mro__ (super) asked for
        x = K<c> or an instance of it - the two ways python offers to reach `Hook.__get__` of a hook object with an owner
        that attribute lookup would not have paired it with"""
        if how == "super":
            return super(self.classes[k], x).h
        hook = self.classes[k].__dict__.get("h")
        if not isinstance(hook, self.Hook):
            raise AttributeError("h")          # (of the harness: K<k> carries no hook object that could be asked)
        return hook.__get__(None if isinstance(x, type) else x, self.classes[c])

    def functions_ids(self, c):
        """ids of Hook.functions of K<c>; None = AttributeError (no such hook); a string = it raised"""
        st, hook = self.pyroll("fns", lambda: getattr(self.classes[c], "h"), attr=True)
        if st == "attr":
            return None
        if st == "raised":
            return hook
        st, fs = self.pyroll("fns", lambda: list(hook.functions))
        if st == "raised":
            return fs
        return [self.hf_id.get(id(f), -1) for f in fs]

    @staticmethod
    def functions_ids_of_answer(ans):
        if ans == "AttributeError":
            return None
        if ans.startswith("raised"):
            return ans
        return [] if ans == "-" else [int(x) for x in ans.split(",")]

    def functions_answer(self, c):
        ids = self.functions_ids(c)
        return "AttributeError" if ids is None else ids if isinstance(ids, str) else ids_str(ids)

    def read(self, c, via=None):
        """K<c>().h on a fresh object with its input; via = (how, k): asked through `ask_via` instead.  self.read_found:
        there was a hook (object) to ask - False = python's own AttributeError, nothing of pyroll ran"""
        self.trace = []
        self.insts = []
        self.depth = 0
        self.runaway = False
        self.read_raised = None

        def do():
            inst = self.classes[c]()
            self.keep.append(inst)
            inst.inp = 1                # a fresh object WITH its input (implementations `need` never fail on it)
            self.insts.append(inst)
            return inst.h if via is None else self.ask_via(via[0], via[1], c, inst)
        self.read_found = True
        try:
            st, v = self.pyroll("read", do, attr=True, judge=False)    # judged by check_read
            if st == "attr" and via is not None and not self.attr_inside:
                self.read_found = False
            if st in ("attr", "input"):
                v = None
            elif st == "raised":
                self.read_raised, v = self.raised[-1][1], None
        except _Runaway:
            v = None
            self.runaway = True
        return v, list(self.trace)

    def object_use(self, o, how):
        """one use of the persistent object #o: how = get (`o.h`) | has (`o.has_value("h")`) | reeval
        (`o.reevaluate_cache()`).  Returns dict(res, v, tr, computing, runaway, raised):
        res = the answer token: a value / `_` no value (AttributeError) / `A` AttributeError out of reevaluate_cache /
        `E` the ValueError of a `need` implementation / `1` `0` for has / `nocache` / `raised <Type>`"""
        ob = self.objs[o]
        inst = ob["inst"]
        self.trace = []
        self.insts = [inst]
        self.depth = 0
        self.runaway = False
        self.read_raised = None
        cache = inst.__dict__.get("__cache__")
        held = cache.get("h") if isinstance(cache, dict) else None       # observed: a value is cached on the object
        haskey = isinstance(cache, dict) and "h" in cache
        out = {"v": None, "runaway": False, "raised": None, "held": held is not None}
        # is a value being COMPUTED by this use?  (the property speaks about computed values; a cached value - the text of
        # Hook.__get__: saved "if the value was determined from functions" - is handed out without consulting anything)
        if how == "reeval":
            out["computing"] = haskey
        else:
            out["computing"] = not (ob["cached"] and held is not None)
        thunk = {"get": lambda: inst.h, "has": lambda: inst.has_value("h"),
                 "reeval": lambda: inst.reevaluate_cache()}[how]
        try:
            st, v = self.pyroll("o" + how, thunk, attr=True, judge=False)      # judged by check_read
        except _Runaway:
            self.runaway = out["runaway"] = True
            out["res"] = "runaway"
            out["tr"] = []
            return out
        out["tr"] = list(self.trace)
        if st == "raised":
            self.read_raised = out["raised"] = self.raised[-1][1]
            out["res"] = v
        elif st == "input":
            out["res"] = "E"
        elif st == "attr":
            out["res"] = "A" if how == "reeval" else "_"
        elif how == "reeval":
            if not haskey:
                out["res"] = "nocache"
            else:
                c2 = inst.__dict__.get("__cache__")
                out["v"] = c2.get("h") if isinstance(c2, dict) else None
                out["res"] = "_" if out["v"] is None else str(out["v"])
        elif how == "has":
            out["v"] = v
            out["res"] = "1" if v is True else "0" if v is False else f"<{type(v).__name__}>"
        else:
            out["v"] = v
            out["res"] = "_" if v is None else str(v)
        # the oracle's belief about the cache (from the text: a value determined from the functions is saved;
        # reevaluate_cache replaces what is cached by what the functions yield now)
        if st == "ok" and out["computing"]:
            if how == "get":
                ob["cached"] = v is not None
            elif how == "has":
                ob["cached"] = v is True
            else:
                ob["cached"] = out["v"] is not None
        return out

    def object_answer(self, o, how):
        out = self.object_use(o, how)
        self.last_use = out
        if out["runaway"]:
            return "runaway"
        return " ".join([out["res"]] + [f"{k}{n}" for (k, n, _, _) in out["tr"]])

    def read_answer(self, c, via=None):
        v, tr = self.read(c, via)
        self.last_read = (v, tr)
        if self.runaway:
            return "runaway"
        if not self.read_found:
            return "AttributeError"
        if self.read_raised:
            return "raised " + self.read_raised.split(":")[0]
        return " ".join(["_" if v is None else str(v)] + [f"{k}{n}" for (k, n, _, _) in tr])

    STORES = ("_first_wrappers", "_wrappers", "_last_wrappers", "_first_functions", "_functions", "_last_functions")

    def dump(self):
        n = (max(self.classes) + 1) if self.classes else 0
        out = []
        for c in range(n):
            h = self.classes[c].__dict__.get("h") if c in self.classes else None
            if h is None:
                out.append("0|")
            else:
                stores = [getattr(h, a, None) for a in self.STORES]     # the anchored state (properties.jsonl)
                out.append("1|" + ";".join("?" if s_ is None else ids_str([self.hf_id.get(id(f), -1) for f in s_])
                                           for s_ in stores))
        # the re-entrancy flag (anchored state `HookFunction.cycle`: "whether the function is currently executing on some
        # instance"): between two operations nothing is executing
        marked = []
        for rid, hf in enumerate(self.hfs):
            if isinstance(hf, self.HookFunction) and self.hf_id.get(id(hf)) == rid:
                try:
                    if hf.cycle:
                        marked.append(rid)
                except Exception:
                    marked.append(-1)
        return f"obs {n}", " ".join(out) + " | c:" + ids_str(marked)

    # ---- the independent oracle: the property as stated -----------------------------------------------------------
    def expected_chain(self, c):
        """live registrations owned by a class of K<c>'s __mro__, sorted by the documented priority"""
        cls = self.classes[c]
        mro = list(cls.__mro__)
        regs = [(rid, m) for rid, m in enumerate(self.meta)
                if m["live"] and issubclass(cls, self.classes[m["cls"]])]
        regs.sort(key=lambda t: (0 if t[1]["w"] else 1, TIERS.index(t[1]["tier"]),
                                 mro.index(self.classes[t[1]["cls"]]), -t[1]["seq"]))
        return regs

    def classify_order(self, c, got, where):
        """compare an observed id list with the sorted log; returns [(key, what)]"""
        exp = [rid for rid, _ in self.expected_chain(c)]
        if isinstance(got, str):
            return [("raises-fns", f"{where} of K{c} {got}; the registrations demand {exp}")]
        if got == exp:
            return []
        extra = [r for r in got if r not in exp]
        missing = [r for r in exp if r not in got]
        what = f"{where} of K{c}: observed order {got}, the registrations demand {exp}"
        if extra:
            r = extra[0]
            if r < 0:
                return [("order-unknown-function", what)]
            if not self.meta[r]["live"]:
                return [("removed-consulted", what + f" (registration {r} was removed)")]
            return [("scope-extra", what + f" (registration {r} belongs to K{self.meta[r]['cls']}, which is not "
                     f"K{c} or one of its bases)")]
        if missing:
            r = missing[0]
            twins = [q for q in range(len(self.meta)) if q != r and self.meta[q]["fid"] == self.meta[r]["fid"]]
            return [("scope-missing", what + f" (registration {r} of base/own class "
                     f"K{self.meta[r]['cls']} does not take part" +
                     (f"; its function object is also registered as {twins}: every registration is an entry of its own"
                      if twins else "") + ")")]
        if len(set(got)) != len(got):
            return [("order-duplicate", what)]
        return [("order", what)]

    def expected_eval(self, c, depth, out, s=2):
        """value demanded for a read on an instance of K<c> whose input is in state `s` (2 = supplied: fresh objects);
        appends per-object expectations to `out`:
        dict(cls, chain, enters, received [(rid, value) in the order the wrappers are left], calls, decls, ok) in the
        order the objects are created (all lists are lists of REGISTRATIONS; compare through fid_of).
        Raises _ExpRaise when an implementation that is to be consulted raises for this input."""
        chain = self.expected_chain(c) if c in self.classes else []
        me = {"cls": c, "chain": [rid for rid, _ in chain]}
        out.append(me)
        ws = [(rid, m) for rid, m in chain if m["w"] and m["body"][0] != "decline"]
        if s != 2 and any(m["body"][0] == "wneed" for _, m in ws):
            # every wrapping wrapper is entered before anything else is consulted: this one raises for this input
            raise _ExpRaise("attr" if s == 0 else "input")
        me["decls"] = [rid for rid, m in chain if m["w"] and m["body"][0] == "decline"]
        calls = []
        v = None
        ok = True
        for rid, m in chain:
            if m["w"]:
                continue
            calls.append(rid)
            b = m["body"]
            if b[0] == "ret":
                v = b[1]
            elif b[0] == "need":
                if s != 2:
                    raise _ExpRaise("attr" if s == 0 else "input")
                v = b[1]
            elif b[0] == "del" and depth == 0:
                sub = []
                try:
                    v = self.expected_eval(b[1], 1, sub, s)      # the object it creates has the same input
                except _ExpRaise as e:
                    if e.args[0] != "attr":
                        raise
                    v = None        # the delegating implementation answers None when its read raises AttributeError
                    sub = [{"cls": b[1], "ok": False}]
                out.extend(sub)
                ok = ok and all(s_["ok"] for s_ in sub)
            if v is not None:
                break
        me["calls"] = calls
        received = []
        for rid, m in reversed(ws):
            received.append((rid, v))
            v = 10 * v + m["body"][1] if v is not None else m["body"][2]
            if v is None:
                ok = False          # a wrapper that wraps but answers None: outside the documented protocol
        me["enters"] = [rid for rid, _ in ws]
        me["received"] = received
        me["ok"] = ok
        return v

    def fids(self, rids):
        return [self.fid_of(r) for r in rids]

    def check_use(self, o, how, out):
        """the oracle for one use of a persistent object: whatever happened to the object before (failed or successful
        reads, other input), a value that has to be computed is the one the registrations demand for an object of this
        class with this input - same clauses as for a fresh object, keys prefixed `obj-`"""
        ob = self.objs[o]
        if not out["computing"]:
            return []
        probs = self.check_read(ob["cls"], out["v"], out["tr"], s=ob["s"], how=how,
                                who=f"{ {'get': 'reading', 'has': 'has_value on', 'reeval': 'reevaluate_cache on'}[how]} "
                                    f"the used object #{o} = K{ob['cls']}() (input state {ob['s']})", res=out["res"])
        return [(k if k.startswith("runaway") else "obj-" + k, w) for k, w in probs]

    def scope_problems(self, c, tr, who):
        """scope: whatever ran on an object belongs to the chain of that object's class.  The trace names FUNCTION objects
        (f<n> = the function first registered as registration n); a function takes part through each of its registrations.
        Returns (problems, events per object, class of each object)"""
        probs = []
        by_inst = {}
        inst_cls = {0: c}
        for (k, n, i, x) in tr:
            if k == "inst":
                inst_cls[i] = n
            else:
                by_inst.setdefault(i, []).append((k, n, x))
        for i, evs in by_inst.items():
            if i not in inst_cls:
                probs.append(("trace-unknown-object", f"an implementation ran on an object the read did not create"))
                continue
            chain = [rid for rid, _ in self.expected_chain(inst_cls[i])]
            chain_f = set(self.fids(chain))
            for (k, n, x) in evs:
                if n not in chain_f:
                    regs = [r for r in range(len(self.meta)) if self.meta[r]["fid"] == n]
                    key = "removed-consulted" if not any(self.meta[r]["live"] for r in regs) else "scope-extra"
                    probs.append((key, f"{who}: function f{n} (registrations "
                                  f"{[(r, 'K%d' % self.meta[r]['cls'], 'live' if self.meta[r]['live'] else 'removed') for r in regs]}) "
                                  f"was invoked on an instance of K{inst_cls[i]} whose chain is {chain}"))
                    break
        return probs, by_inst, inst_cls

    def check_read(self, c, v, tr, s=2, how="get", who=None, res=None):
        """the oracle for one evaluation on an object of class K<c> whose input is in state `s`; `how`: the value was
        asked for by attribute read (get), has_value (has: v is a bool) or reevaluate_cache (reeval: v = what is cached
        afterwards); `res`: the answer token (E / A = the exception of a `need` implementation came out)"""
        objs = []
        who0 = who or f"reading K{c}().h"
        try:
            exp_v = self.expected_eval(c, 0, objs, s)
        except _ExpRaise:
            # an implementation that is to be consulted raises for this input: the property demands nothing of the
            # outcome of such an evaluation; only the scope clause (whatever ran belongs to the chain of its object's class)
            self.last_protocol_ok = False
            if self.runaway:
                return [("runaway-outside-protocol", "")]
            if getattr(self, "read_raised", None):
                return [("raises-read", f"{who0} raised {self.read_raised} (out of pyroll itself)")]
            return self.scope_problems(c, tr, who0)[0]
        probs = []
        if self.runaway:
            if all(o["ok"] for o in objs):
                return [("wrapper-not-once", f"{who0} made more than {TRACE_LIMIT} invocations; the chain "
                         f"{objs[0]['chain']} demands each wrapper once and each plain implementation at most once")]
            return [("runaway-outside-protocol", "")]      # not a violation: see run_history
        if getattr(self, "read_raised", None):
            return [("raises-read", f"{who0} raised {self.read_raised}; the registrations demand the value "
                     f"{exp_v} (chain {objs[0]['chain']})")]
        if res in ("E", "A"):
            probs.append(("value", f"{who0} let the exception of an implementation out; the registrations demand the "
                          f"value {exp_v} without consulting an implementation that fails for this input "
                          f"(chain {objs[0]['chain']})"))
        elif how == "has":
            if v != (exp_v is not None):
                probs.append(("value", f"{who0} = {v}, the registrations demand the value {exp_v} "
                              f"(chain {objs[0]['chain']})"))
        elif v != exp_v:
            probs.append(("value", f"{who0}: value {v}, the registrations demand {exp_v} "
                          f"(chain {objs[0]['chain']})"))
        sp, by_inst, inst_cls = self.scope_problems(c, tr, who0)
        probs.extend(sp)
        self.last_protocol_ok = all(o["ok"] for o in objs)
        if probs:
            return probs
        if not self.last_protocol_ok:
            return probs          # excluded point: only value and scope are demanded
        # every object in creation order: wrappers entered exactly once, in order; each receives the value of the rest
        # of the chain of that object's class; plain implementations consulted in order up to the first result
        if len(objs) != len(inst_cls) or any(objs[i]["cls"] != inst_cls.get(i) for i in range(len(objs))):
            probs.append(("trace-objects", f"{who0} created objects of classes "
                          f"{[inst_cls[i] for i in sorted(inst_cls)]}, expected {[o['cls'] for o in objs]}"))
            return probs
        for i, o in enumerate(objs):
            evs = by_inst.get(i, [])
            enters = [n for (k, n, x) in evs if k == "enter"]
            exits = [(n, x) for (k, n, x) in evs if k == "exit"]
            calls = [n for (k, n, x) in evs if k == "call"]
            decls = [n for (k, n, x) in evs if k == "decl"]
            e_enters = self.fids(o["enters"])
            e_exits = [(self.fid_of(r), x) for r, x in o["received"]]
            who = f"{who0}, object #{i} (K{o['cls']})"
            if enters != e_enters or [n for n, _ in exits] != e_enters[::-1]:
                key = "wrapper-not-once" if sorted(enters) != sorted(e_enters) else "wrapper-order"
                probs.append((key, f"{who}: wrapper functions entered {enters} / left {[n for n, _ in exits]}, "
                              f"expected one application per registration {o['enters']} (functions {e_enters}) in this "
                              f"order"))
            elif exits != e_exits:
                probs.append(("wrapper-inner-value", f"{who}: wrappers received {exits}, expected {e_exits}"))
            if calls != self.fids(o["calls"]):
                probs.append(("plain-order", f"{who}: plain implementations consulted {calls}, expected registrations "
                              f"{o['calls']} (functions {self.fids(o['calls'])})"))
            if sorted(set(decls)) != sorted(set(self.fids(o["decls"]))) and e_enters == enters:
                probs.append(("wrapper-decline", f"{who}: declining wrappers consulted {decls}, expected "
                              f"{self.fids(o['decls'])}"))
        return probs


# ---------------------------------------------------------------------------------------------------------------
# running one history
# ---------------------------------------------------------------------------------------------------------------
def run_history(ops, with_oracle=True, sweep=True):
    """returns dict(rows [(op index, line, answer, obs_line, obs)], problems [(op index, key, what)], stats, fid_of)"""
    real = Real()
    rows = []
    problems = []
    stats = {"maxchain": 0, "ops": []}

    def result():
        return {"rows": rows, "problems": problems, "stats": stats, "fid_of": [m["fid"] for m in real.meta]}
    for i, op in enumerate(ops):
        real.problems_now = []
        r = real.apply(op)
        if with_oracle:
            problems.extend((i, k, w) for (k, w) in real.problems_now)
        if r is None:
            continue
        line, ans = r
        if ans == "runaway":
            # the read was aborted by the harness; under the protocol that is a violation, outside of it (wrappers
            # answering None) nothing is demanded: the history ends here, without this op, on both sides
            if not with_oracle:
                pr = []
            elif op[0] in ("oread", "oreval"):
                pr = real.check_use(op[1], op[2] if op[0] == "oread" else "reeval", real.last_use)
            else:
                pr = real.check_read(op[3] if op[0] == "rv" else op[1], None, [])
            problems.extend((i, k, w) for (k, w) in pr if k != "runaway-outside-protocol")
            stats["runaway"] = True
            return result()
        obs_line, obs = real.dump()
        rows.append((i, line, ans, obs_line, obs))
        stats["ops"].append(op[0])
        if op[0] == "tv":
            stats.setdefault("via", []).append(f"tv-{op[1]}-{'instance' if op[4] else 'class'}:" +
                                               ("asked" if ans == "ok" else "no-hook-to-ask" if ans == "AttributeError" else "other"))
        if op[0] == "same":
            m = real.meta[-1] if ans.startswith("ok ") else None
            if m is not None:
                src = real.meta[real.label[op[4]]]
                stats.setdefault("same", []).append(
                    ("same-class" if src["cls"] == m["cls"] else "base-has-it" if issubclass(
                        real.classes[m["cls"]], real.classes[src["cls"]]) else "subclass-has-it" if issubclass(
                        real.classes[src["cls"]], real.classes[m["cls"]]) else "unrelated-class") + "/" +
                    ("same-tier" if src["tier"] == m["tier"] else "other-tier") + "/" +
                    ("first-live" if src["live"] else "first-removed"))
        if not with_oracle:
            continue
        if op[0] == "fns":
            ids = real.functions_ids_of_answer(ans)
            if isinstance(ids, list):
                stats["maxchain"] = max(stats["maxchain"], len(ids))
            if ids is not None:
                for key, what in real.classify_order(op[1], ids, "Hook.functions"):
                    problems.append((i, key, what))
            elif real.expected_chain(op[1]):
                problems.append((i, "scope-missing", f"K{op[1]}.h raises AttributeError although registrations "
                                 f"{[r_ for r_, _ in real.expected_chain(op[1])]} are live for it"))
        elif op[0] in ("read", "rv"):
            v, tr = real.last_read
            c = op[1] if op[0] == "read" else op[3]
            if op[0] == "rv":
                stats.setdefault("via", []).append(f"rv-{op[1]}:" + ("asked" if real.read_found else "no-hook-to-ask"))
                if not real.read_found:
                    continue     # python found no hook object to ask: nothing of pyroll ran, nothing is demanded
            stats["maxchain"] = max(stats["maxchain"], len(real.expected_chain(c)))
            # through whichever hook object the question arrived, the object is a K<c>: the value is the one the
            # registrations demand for its class ("not on ... through which class or instance the hook was touched")
            who = None if op[0] == "read" else (f"reading super(K{op[2]}, K{c}()).h" if op[1] == "super" else
                                                f"reading K{op[2]}.__dict__['h'].__get__(K{c}(), K{c})")
            for key, what in real.check_read(c, v, tr, who=who):
                problems.append((i, key, what))
            stats["reads"] = stats.get("reads", 0) + 1
            if not getattr(real, "last_protocol_ok", True):
                stats["outside"] = stats.get("outside", 0) + 1
        elif op[0] in ("oread", "oreval"):
            how = op[2] if op[0] == "oread" else "reeval"
            use = real.last_use
            ob = real.objs[op[1]]
            stats["maxchain"] = max(stats["maxchain"], len(real.expected_chain(ob["cls"])))
            # what kind of use this was (evidence: the inputs the class of defects "state kept on a used object" needs)
            kind = ("cached" if not use["computing"] else "raised" if use["res"] in ("E", "A") or (
                use["res"] == "_" and any(k == "call" and real.meta_body_of_fid(n)[0] == "need" and ob["s"] != 2
                                          for (k, n, _, _) in use["tr"][-1:])) else
                    "value" if use["v"] is not None and use["v"] is not False else "no-value")
            prev = ob.get("last")
            stats.setdefault("uses", []).append(f"{how}:{kind}" + (f"-after-{prev}" if prev else "-first"))
            if kind != "cached":
                ob["last"] = kind
            for key, what in real.check_use(op[1], how, use):
                if key != "runaway-outside-protocol":
                    problems.append((i, key, what))
    if with_oracle and sweep:
        # final sweep: the order for EVERY class, whatever was touched before
        for c in list(real.order):
            real.problems_now = []
            ids = real.functions_ids(c)
            if ids is None:
                if real.expected_chain(c):
                    problems.append((len(ops), "scope-missing", f"K{c}.h raises AttributeError although "
                                     f"registrations are live for it"))
                continue
            if isinstance(ids, list):
                stats["maxchain"] = max(stats["maxchain"], len(ids))
            for key, what in real.classify_order(c, ids, "final Hook.functions"):
                problems.append((len(ops), key, what))
            try:
                v, tr = real.read(c)
            except _Runaway:       # (read() catches it; kept for safety)
                continue
            for key, what in real.check_read(c, v, tr):
                if key != "runaway-outside-protocol":
                    problems.append((len(ops), key, "final sweep, " + what))
        # ... and every used object: as it is, and once more after its input was supplied (an object that was asked too
        # early resolves like any other object of its class once the input is there)
        for o in sorted(real.objs):
            for supply in (False, True):
                if supply:
                    if real.objs[o]["s"] == 2:
                        continue
                    real.apply(("oinp", o, 2))
                real.problems_now = []
                use = real.object_use(o, "get")
                for key, what in real.check_use(o, "get", use):
                    if key != "runaway-outside-protocol":
                        problems.append((len(ops), key, "final sweep, " + what))
    return result()


def first_problem(ops):
    res = run_history(ops)
    if res["problems"]:
        i, key, what = res["problems"][0]
        return i, key, what
    return None, None, None


def shrink(ops, key, seconds=20.0):
    """greedy removal of operations while a problem of the same kind persists (bounded in time)"""
    import time
    t0 = time.time()
    ops = list(ops)
    changed = True
    rounds = 0
    while changed and rounds < 200 and time.time() - t0 < seconds:
        changed = False
        rounds += 1
        for i in range(len(ops) - 1, -1, -1):
            cand = ops[:i] + ops[i + 1:]
            idx, k, _ = first_problem(cand)
            if idx is not None and k == key:
                ops = cand[:idx + 1] if idx < len(cand) else cand
                changed = True
                break
    return ops


# ---------------------------------------------------------------------------------------------------------------
# generators
# ---------------------------------------------------------------------------------------------------------------
def c3_ok(bases_of, c, bases):
    """does python accept this list of bases? (tried on throw-away plain classes)"""
    made = {}

    def build(k):
        if k not in made:
            made[k] = type(f"S{k}", tuple(build(b) for b in bases_of[k]) or (object,), {})
        return made[k]
    try:
        type("S", tuple(build(b) for b in bases), {})
        return True
    except TypeError:
        return False


def gen_hierarchy(rng):
    """list of class ops"""
    n = rng.choice([1, 2, 2, 3, 3, 3, 4, 4, 5, 6])
    shape = rng.choice(["chain", "diamond", "random", "random", "forest", "two-level"])
    bases_of = {}
    for c in range(n):
        if c == 0:
            b = []
        elif shape == "chain":
            b = [c - 1]
        elif shape == "diamond":
            b = [0] if c in (1, 2) else ([2, 1] if c == 3 and rng.random() < 0.5 else [1, 2] if c == 3 else
                                         [rng.randrange(c)])
        elif shape == "forest":
            b = [] if rng.random() < 0.4 else [rng.randrange(c)]
        elif shape == "two-level":
            b = [0]
        else:
            k = rng.choice([1, 1, 2, 2, 3])
            b = rng.sample(range(c), min(k, c))
            tries = 0
            while not c3_ok(bases_of, c, b) and tries < 6:
                b = rng.sample(range(c), min(rng.choice([1, 2]), c))
                tries += 1
            if not c3_ok(bases_of, c, b):
                b = [c - 1]
        if not c3_ok(bases_of, c, b):
            b = [b[0]] if b else []
        bases_of[c] = b
    roots = [c for c in range(n) if not bases_of[c]]
    mode = rng.random()
    hooks = set()
    if mode < 0.55:
        hooks = set(roots)
    elif mode < 0.7:
        hooks = {rng.randrange(n)}
    elif mode < 0.85:
        hooks = set(roots) | {rng.randrange(n)}
    elif mode < 0.95:
        hooks = {c for c in range(n) if rng.random() < 0.5}
    # else: never defined in a class body (extension_class may add it)
    return [("class", c, bases_of[c], int(c in hooks), int(rng.random() < 0.15)) for c in range(n)]


def gen_body(rng, w, n_classes, with_default=False, need_p=0.0, tier="normal"):
    if w:
        r = rng.random()
        if r < 0.2:
            return ("decline",)
        kind = "wneed" if need_p and tier not in ("first", "both") and rng.random() < need_p / 2 else "wrap"
        return (kind, rng.randrange(1, 10), rng.randrange(1, 10) if with_default or rng.random() < 0.35 else None)
    if need_p and rng.random() < need_p:
        # reads the input of its object (fails while it is missing / unusable); mostly with the `cycle` argument
        return ("need", rng.randrange(0, 10), int(rng.random() < 0.7))
    r = rng.random()
    if r < 0.28:
        return ("ret", None)
    if r < 0.85:
        return ("ret", rng.randrange(0, 10))      # 0 is a result (falsy, but not None)
    return ("del", rng.randrange(n_classes))


# A wrapper that raises BEFORE its yield is registered in the tiers normal / trylast only.  A tryfirst one would abort the very
# first MRO walk of `functions_gen` half-way (the generator is lazy), so that WHICH per-subclass Hook objects exist afterwards
# depends on the point of the abort; the model (`touchEval`) creates them all, as every evaluation does that gets past the
# tryfirst wrappers.  The property does not depend on it (accesses are irrelevant: `touch_irrelevant`); the registry
# comparison of the correspondence would.
WNEED_NOTE = "wrappers that raise before their yield: tiers normal / trylast only"
MAX_BARE_WRAPPERS = 4
MAX_WRAPPERS = 6      # also with defaults: a regression of the re-entrancy marks doubles the work per wrapper


def gen_history(rng, max_ops, malformed=False, same_p=None, used_p=None, need_p=None, min_ops=4):
    cls_ops = gen_hierarchy(rng)
    n = len(cls_ops)
    late = [op for op in cls_ops if op[1] > 0 and not any(op[1] in o[2] for o in cls_ops) and rng.random() < 0.25]
    ops = [op for op in cls_ops if op not in late]
    defined = [op[1] for op in ops]
    bases_of = {op[1]: op[2] for op in cls_ops}

    def ancestors(c):
        out, todo = set(), list(bases_of[c])
        while todo:
            k = todo.pop()
            if k not in out:
                out.add(k)
                todo.extend(bases_of[k])
        return out
    labels = []           # (label, cls) of adds emitted so far
    live = []
    tier_of = {}
    n_ops = rng.randrange(min(min_ops, max_ops), max_ops + 1)
    nl = 0
    wrapper_p = rng.choice([0.15, 0.35, 0.6])
    # share of operations that register a function object that is registered already (stream `same`)
    if same_p is None:
        same_p = rng.choice([0.0, 0.04, 0.04, 0.12, 0.25])
    # A wrapper that wraps but answers None (outside the documented protocol) makes get_result run the rest of the chain
    # again, and the later wrappers run the earlier ones again: the number of invocations grows like n! in the number of
    # such wrappers.  Half of the histories therefore give every wrapper a default (up to MAX_WRAPPERS wrappers), the other
    # half allow wrappers without default but at most MAX_BARE_WRAPPERS wrappers in the whole history.
    safe = rng.random() < 0.5
    # share of operations on USED objects (objects that stay: created without input, read too early / with unusable input
    # / again after the input was supplied, has_value probes, reevaluate_cache) and of plain implementations that need the
    # input of their object (stream `used`)
    if used_p is None:
        used_p = rng.choice([0.0, 0.0, 0.08, 0.2])
    if need_p is None:
        need_p = rng.choice([0.0, 0.1, 0.3]) if used_p else rng.choice([0.0, 0.0, 0.1])
    objects = []          # numbers of the objects created so far
    inp_of = {}
    wneed_labels = set()
    n_wrappers = 0
    wrapper_of = {}
    max_w = MAX_WRAPPERS if safe else MAX_BARE_WRAPPERS
    while len(ops) < n_ops:
        r = rng.random()
        c = rng.choice(defined)
        if late and r < 0.08:
            op = late.pop(0)
            ops.append(op)
            defined.append(op[1])
            continue
        if used_p and (len(labels) >= 2 or rng.random() < 0.25) and rng.random() < used_p:
            rr = rng.random()
            if not objects or (len(objects) < 3 and rr < 0.12):
                o = len(objects)
                objects.append(o)
                # mostly an object of a class for which something is registered (on it or on a base)
                reg = [k for k in defined if any(q == k or q in ancestors(k) for _, q in live)]
                if reg and rng.random() < 0.85:
                    c = rng.choice(reg)
                ops.append(("obj", o, c))
                inp_of[o] = 0
                rr = rng.random()
                if rr < 0.4:           # sometimes the input is there from the start, or unusable
                    inp_of[o] = 2 if rr < 0.25 else 1
                    ops.append(("oinp", o, inp_of[o]))
                continue
            o = rng.choice(objects)
            if inp_of[o] != 2 and rr < 0.45:
                # asked too early (or probed with has_value / re-evaluated), then the input is supplied and it is asked again
                ops.append(rng.choice([("oread", o, "get"), ("oread", o, "get"), ("oread", o, "has"), ("oreval", o)]))
                if rng.random() < 0.3:
                    k = rng.choice(defined)
                    ops.append(rng.choice([("read", k), ("fns", k), ("oread", rng.choice(objects), "get")]))
                inp_of[o] = 2
                ops.append(("oinp", o, 2))
                ops.append(("oread", o, rng.choice(["get", "get", "get", "has"])))
            elif rr < 0.62:
                ops.append(("oread", o, "get"))
            elif rr < 0.7:
                ops.append(("oread", o, "has"))
            elif rr < 0.8:
                ops.append(("oreval", o))
            else:
                inp_of[o] = rng.choice([0, 1, 1, 2, 2])
                ops.append(("oinp", o, inp_of[o]))
                if rng.random() < 0.6:
                    ops.append(("oread", o, rng.choice(["get", "get", "has"])))
            continue
        if labels and rng.random() < same_p:
            # the SAME function object once more: on the same class (after other registrations), on a subclass while a
            # base has it, on a base while a subclass has it, in the same or another tier, while the first registration is
            # live or after it was removed; often as a temporary registration (`with K.h(f): ...`) or followed by the
            # removal of one of the two registrations
            lab, owner = rng.choice(live) if live and rng.random() < 0.8 else rng.choice(labels)
            if wrapper_of[lab] and n_wrappers >= max_w:
                continue
            rr = rng.random()
            related = [k for k in defined if k != owner and (owner in ancestors(k) or k in ancestors(owner))]
            if rr < 0.35 or (rr < 0.85 and not related):
                c = owner
            elif rr < 0.85:
                c = rng.choice(related)
            tier = tier_of[lab] if rng.random() < 0.75 else rng.choice(TIERS)
            if lab in wneed_labels:
                wneed_labels.add(nl)
                tier = "normal" if tier == "first" else tier
            n_wrappers += wrapper_of[lab]
            wrapper_of[nl] = wrapper_of[lab]
            tier_of[nl] = tier
            ops.append(("same", nl, c, tier, lab, rng.choice(["call", "call", "deco", "hf"])))
            labels.append((nl, c))
            live.append((nl, c))
            nl += 1
            rr = rng.random()
            if rr < 0.5:
                for _ in range(rng.choice([0, 0, 1, 2])):      # body of the with block
                    k = rng.choice(defined)
                    ops.append(rng.choice([("read", k), ("fns", k), ("tc", k), ("rv", "super", k, k)]))
                if rr < 0.35:       # leave the with block: the NEW registration goes
                    ops.append(("rm", c, nl - 1, rng.choice(["with", "with", "call"])))
                    live.remove((nl - 1, c))
                elif (lab, owner) in live:     # the FIRST registration goes, the new one stays
                    ops.append(("rm", owner, lab, rng.choice(["with", "call"])))
                    live.remove((lab, owner))
                ops.append((rng.choice(["read", "fns"]), rng.choice([c, owner])))
            continue
        if r < 0.42:
            w = int(rng.random() < wrapper_p and n_wrappers < max_w)
            n_wrappers += w
            wrapper_of[nl] = w
            tier = rng.choice(["first", "normal", "normal", "normal", "last", "both" if malformed else "normal"])
            how = rng.choice(["call", "call", "deco"])
            body = gen_body(rng, w, n, with_default=safe, need_p=need_p, tier=tier)
            if need_p >= 0.4 and not w and tier != "both" and rng.random() < 0.5:
                # dense stream: implementations that need the input rather in front (so that they are reached), constants
                # rather as fallback behind them
                tier = rng.choice(["first", "normal"]) if body[0] == "need" else "last" if body[0] == "ret" else tier
            tier_of[nl] = "first" if tier == "both" else tier
            if body[0] == "wneed":
                wneed_labels.add(nl)
            op = ("add", nl, c, tier, w, body, how)
            labels.append((nl, c))
            live.append((nl, c))
            nl += 1
        elif r < 0.52 and labels:
            if live and rng.random() < (0.6 if malformed else 0.85):
                lab, owner = rng.choice(live)
                how = rng.choice(["call", "call", "with"])
                live.remove((lab, owner))
                op = ("rm", owner, lab, how)
            else:   # through another class / a second time
                lab, owner = rng.choice(labels)
                op = ("rm", rng.choice(defined), lab, "call")
                if op[1] == owner and (lab, owner) in live:
                    live.remove((lab, owner))
        elif r < 0.56 and labels:
            lab, _ = rng.choice(labels)
            if wrapper_of[lab] and n_wrappers >= max_w:
                continue
            n_wrappers += wrapper_of[lab]
            wrapper_of[nl] = wrapper_of[lab]
            tier = rng.choice(TIERS)
            if lab in wneed_labels:
                wneed_labels.add(nl)
                tier = "normal" if tier == "first" else tier
            tier_of[nl] = tier
            op = ("readd", nl, c, tier, lab)
            labels.append((nl, c))
            live.append((nl, c))
            nl += 1
        elif r < 0.62:
            op = ("tc", c)
        elif r < 0.66:
            op = ("ti", c)
        elif r < 0.70 or r >= 0.97:
            # the hook object of a base class asked for a class that (often) carries a hook object of its own: through
            # `super` from every class K of the __mro__, or by an explicit descriptor call; on the class, on an instance that
            # holds an explicit value, or (rv) on a fresh object, which computes the value
            sub = [k for k in defined if ancestors(k)]
            regd = [k for k in sub if any(q == k for _, q in live)]
            if regd and rng.random() < 0.6:
                c = rng.choice(regd)           # mostly a subclass something is registered on
            elif sub and rng.random() < 0.8:
                c = rng.choice(sub)
            anc = sorted(ancestors(c))
            how = "super" if rng.random() < 0.7 or not anc else "dict"
            if how == "super":
                inner = [x for x in anc if ancestors(x)]       # (after a root class of the hierarchy nothing can be found)
                k = c if rng.random() < 0.5 or not anc else rng.choice(inner) if inner and rng.random() < 0.8 else \
                    rng.choice(anc + [c])
            else:
                k = rng.choice(anc) if rng.random() < 0.9 else c
            op = ("rv", how, k, c) if r >= 0.97 or rng.random() < 0.3 else ("tv", how, k, c, int(rng.random() < 0.5))
        elif r < 0.74:
            op = ("ext", c)
        elif r < 0.84:
            op = ("fns", c)
        else:
            op = ("read", c)
        ops.append(op)
    for op in late:
        ops.append(op)
    # observe at the end through a random class first (the final sweep of the oracle looks at all of them)
    ops.append(("read", rng.choice([o[1] for o in ops if o[0] == "class"])))
    return ops


CORPUS = [
    # F1 (fixed in the repository): wrapper registered on the base class, plain implementation on the subclass
    [("class", 0, [], 1, 0), ("class", 1, [0], 0, 0), ("add", 0, 0, "normal", 0, ("ret", 1), "call"),
     ("add", 1, 0, "normal", 1, ("wrap", 1, None), "call"), ("add", 2, 1, "normal", 0, ("ret", 2), "call"),
     ("read", 1), ("read", 0)],
    # F2 (fixed): two cooperating wrappers on one hook
    [("class", 0, [], 1, 0), ("add", 0, 0, "normal", 0, ("ret", 1), "call"),
     ("add", 1, 0, "normal", 1, ("wrap", 1, None), "call"), ("add", 2, 0, "normal", 1, ("wrap", 2, None), "call"),
     ("read", 0)],
    # F3 (fixed): re-entrancy mark per object: a wrapped implementation reads the hook on another object
    [("class", 0, [], 1, 0), ("class", 1, [0], 0, 0), ("add", 0, 0, "normal", 1, ("wrap", 2, None), "call"),
     ("add", 1, 0, "last", 0, ("ret", 6), "call"), ("add", 2, 1, "normal", 0, ("del", 0), "call"), ("read", 1)],
    # three wrappers in three tiers, wrapper default, declining wrapper
    [("class", 0, [], 1, 0), ("class", 1, [0], 0, 0), ("class", 2, [1], 0, 0),
     ("add", 0, 0, "last", 1, ("wrap", 1, 5), "call"), ("add", 1, 1, "first", 1, ("wrap", 2, None), "deco"),
     ("add", 2, 2, "normal", 1, ("decline",), "call"), ("add", 3, 1, "normal", 1, ("wrap", 3, None), "call"),
     ("add", 4, 0, "normal", 0, ("ret", None), "call"), ("read", 2), ("fns", 2), ("fns", 1), ("fns", 0)],
    # diamond, registrations before and after the lazy creation of the per-subclass hook objects
    [("class", 0, [], 1, 0), ("class", 1, [0], 0, 0), ("class", 2, [0], 0, 0),
     ("add", 0, 2, "normal", 0, ("ret", 2), "call"), ("class", 3, [1, 2], 0, 0), ("fns", 3),
     ("add", 1, 1, "normal", 0, ("ret", 1), "call"), ("add", 2, 0, "first", 0, ("ret", None), "call"),
     ("add", 3, 3, "last", 0, ("ret", 3), "call"), ("fns", 3), ("read", 3), ("fns", 1), ("fns", 2)],
    # registration on a subclass must not leak to the base or the sibling; removal through the wrong class
    [("class", 0, [], 1, 0), ("class", 1, [0], 0, 0), ("class", 2, [0], 0, 0),
     ("add", 0, 1, "normal", 0, ("ret", 1), "call"), ("fns", 0), ("fns", 2), ("read", 2), ("rm", 0, 0, "call"),
     ("fns", 1), ("rm", 1, 0, "with"), ("fns", 1), ("readd", 1, 2, "first", 0), ("fns", 2), ("fns", 1)],
    # a wrapper answering None after its yield (excluded point of the protocol): value still the fold
    [("class", 0, [], 1, 0), ("add", 0, 0, "normal", 0, ("ret", None), "call"),
     ("add", 1, 0, "normal", 1, ("wrap", 2, None), "call"), ("add", 2, 0, "normal", 1, ("wrap", 1, 7), "call"),
     ("read", 0)],
    # hook added to a base class late by extension_class; hook defined on two levels
    [("class", 0, [], 0, 0), ("class", 1, [0], 1, 0), ("add", 0, 1, "normal", 0, ("ret", 1), "call"), ("ext", 0),
     ("add", 1, 0, "first", 0, ("ret", 2), "call"), ("add", 2, 0, "normal", 0, ("ret", 3), "call"), ("fns", 1),
     ("read", 1), ("read", 0), ("ext", 1), ("fns", 1)],
    # one function object registered twice on the same class, another implementation in between: each registration is an
    # entry of its own (latest first); removing one of the two leaves the other
    [("class", 0, [], 1, 0), ("add", 0, 0, "normal", 0, ("ret", 1), "call"),
     ("add", 1, 0, "normal", 0, ("ret", 2), "call"), ("same", 2, 0, "normal", 0, "call"), ("fns", 0), ("read", 0),
     ("rm", 0, 2, "with"), ("fns", 0), ("read", 0), ("same", 3, 0, "first", 0, "hf"), ("rm", 0, 0, "call"), ("fns", 0)],
    # one function object on the base class and (temporarily, `with Sub.h(f): ...`) on the subclass: most derived first,
    # and leaving the block removes the registration of the SUBCLASS only
    [("class", 0, [], 1, 0), ("class", 1, [0], 0, 0), ("add", 0, 0, "normal", 0, ("ret", 1), "deco"),
     ("add", 1, 0, "normal", 0, ("ret", 2), "call"), ("same", 2, 1, "normal", 0, "deco"), ("read", 1), ("fns", 1),
     ("rm", 1, 2, "with"), ("fns", 0), ("read", 0), ("fns", 1)],
    # one wrapper function registered on base and subclass (two registrations = applied twice for the subclass, once for
    # the base), the first one removed afterwards
    [("class", 0, [], 1, 0), ("class", 1, [0], 0, 0), ("add", 0, 0, "normal", 1, ("wrap", 3, None), "call"),
     ("add", 1, 0, "last", 0, ("ret", 4), "call"), ("same", 2, 1, "normal", 0, "call"), ("read", 1), ("read", 0),
     ("rm", 0, 0, "call"), ("read", 1), ("read", 0)],
    # an object asked too early (attribute read, has_value probe), then given its input: it resolves like a fresh object -
    # the implementation that needs the input answers, the cycle-guarded wrapper is applied once
    [("class", 0, [], 1, 0), ("add", 0, 0, "last", 0, ("ret", 5), "call"), ("add", 1, 0, "normal", 0, ("need", 4, 1), "deco"),
     ("add", 2, 0, "normal", 1, ("wrap", 1, None), "call"), ("obj", 0, 0), ("oread", 0, "get"), ("oread", 0, "has"),
     ("oinp", 0, 2), ("oread", 0, "get"), ("oread", 0, "get"), ("read", 0)],
    # unusable input (the implementation raises ValueError), input repaired; reevaluate_cache while the input is unusable
    # again leaves the cached value, afterwards the object re-evaluates like a fresh one; subclass object, wrapper on the base
    [("class", 0, [], 1, 0), ("class", 1, [0], 0, 0), ("add", 0, 0, "normal", 1, ("wrap", 2, 7), "call"),
     ("add", 1, 1, "first", 0, ("need", 3, 1), "call"), ("add", 2, 0, "last", 0, ("ret", 6), "call"), ("obj", 0, 1),
     ("oinp", 0, 1), ("oread", 0, "get"), ("oinp", 0, 2), ("oread", 0, "has"), ("oinp", 0, 1), ("oreval", 0),
     ("oinp", 0, 2), ("add", 3, 1, "first", 0, ("need", 8, 0), "call"), ("oreval", 0), ("oread", 0, "get")],
    # a wrapper that reads the input before its yield, inside another wrapper; two objects, one of them never fails
    [("class", 0, [], 1, 0), ("add", 0, 0, "normal", 0, ("ret", 2), "call"), ("add", 1, 0, "normal", 1, ("wneed", 3, None), "call"),
     ("add", 2, 0, "first", 1, ("wrap", 1, None), "call"), ("obj", 0, 0), ("obj", 1, 0), ("oinp", 1, 2),
     ("oread", 0, "get"), ("oread", 1, "get"), ("oinp", 0, 2), ("oread", 0, "get"), ("oreval", 1)],
    # F4: the hook object of the base class asked for a subclass that carries its own (`super(K1, K1()).h`): the subclass
    # keeps its hook object and what is registered on it (witness of `new_hook_for_other_owner_forgets_registrations`)
    [("class", 0, [], 1, 0), ("class", 1, [0], 0, 0), ("add", 0, 0, "normal", 0, ("ret", 1), "deco"),
     ("add", 1, 1, "normal", 0, ("ret", 2), "deco"), ("read", 1), ("fns", 1), ("rv", "super", 1, 1), ("read", 1), ("fns", 1)],
    # ... three levels, class-level `super`, explicit descriptor calls, an instance holding an explicit value, a wrapper on
    # the middle class; `super(K0, …)` finds no hook object to ask
    [("class", 0, [], 1, 0), ("class", 1, [0], 0, 0), ("class", 2, [1], 0, 0), ("add", 0, 0, "last", 0, ("ret", 1), "call"),
     ("add", 1, 1, "normal", 1, ("wrap", 2, None), "call"), ("add", 2, 2, "normal", 0, ("ret", 3), "call"),
     ("tv", "super", 1, 2, 0), ("fns", 2), ("tv", "dict", 0, 2, 1), ("rv", "dict", 1, 2), ("tv", "super", 2, 2, 1),
     ("rv", "super", 0, 2), ("tv", "dict", 0, 1, 0), ("fns", 1), ("rv", "super", 2, 2), ("read", 2)],
]


_EV = None


def to_function_trace(ans, fid_of):
    """the model's trace names registrations, the implementation's trace names function objects: map the former"""
    global _EV
    if _EV is None:
        import re
        _EV = re.compile(r"^(call|enter|exit|cyc|decl)(\d+)$")

    def tok(t):
        m = _EV.match(t)
        if m and int(m.group(2)) < len(fid_of):
            return m.group(1) + str(fid_of[int(m.group(2))])
        return t
    return " ".join(tok(t) for t in ans.split(" "))


def is_nontrivial(res):
    return res["stats"]["maxchain"] >= 2


def canon(ops):
    return [list(map(str, op)) for op in ops]


def run(ctx):
    n_hist = ctx.budget(1200, 20000)
    max_ops = 25 if ctx.tier == "quick" else 60
    histories = [(list(h), "corpus") for h in CORPUS]
    for k in range(n_hist):
        malformed = ctx.rng.random() < 0.15
        histories.append((gen_history(ctx.rng, max_ops, malformed), "malformed" if malformed else "valid"))
    for k in range(max(1, n_hist // 8)):
        # dense stream: short histories on small hierarchies in which most registrations re-use a function object
        histories.append((gen_history(ctx.rng, min(max_ops, 14), False, same_p=0.5), "same-function"))
    for k in range(max(1, n_hist // 6)):
        # dense stream: objects that are used several times (too early, with unusable input, after the input came,
        # has_value, reevaluate_cache) while registrations come and go; many implementations need the input
        histories.append((gen_history(ctx.rng, min(max_ops, 30), False, same_p=ctx.rng.choice([0.0, 0.1]),
                                      used_p=0.45, need_p=0.6, min_ops=12), "used-object"))
    lean_lines = []
    results = []
    seen_keys = set()
    for ops, stream in histories:
        res = run_history(ops)
        results.append((ops, res))
        ctx.case(canon(ops), is_nontrivial(res))
        ctx.count("stream:" + stream)
        for name in res["stats"]["ops"]:
            ctx.count("op:" + name)
        ctx.count("chain-length:%d" % min(res["stats"]["maxchain"], 8))
        ctx.count("read:wrapper-answers-None(outside-protocol)", res["stats"].get("outside", 0))
        if res["stats"].get("runaway"):
            ctx.count("read:aborted-by-harness")
        for kind in res["stats"].get("same", []):
            ctx.count("same-function:" + kind)
        for kind in res["stats"].get("uses", []):
            ctx.count("used-object:" + kind)
        for kind in res["stats"].get("via", []):
            ctx.count("via-base-hook:" + kind)
        for (_, line, ans, _, _) in res["rows"]:
            if ans == "AttributeError":
                ctx.count("err:AttributeError")
            if ans.startswith("raised"):
                ctx.count("err:" + ans.replace(" ", "-"))
            if line.startswith("read") and ans.startswith("_"):
                ctx.count("read:no-value")
            if line.startswith("read") and "enter" in ans:
                ctx.count("read:wrapped")
            if line.startswith("read") and "inst" in ans:
                ctx.count("read:nested-object")
        if stream == "valid" and is_nontrivial(res) and len(ops) <= 14:
            ctx.sample({"history": [r[1] for r in res["rows"]], "answers": [r[2] for r in res["rows"]]}, limit=3)
        lean_lines.append("reset")
        for k, (_, line, ans, obs_line, obs) in enumerate(res["rows"]):
            if ans.count(" ") > MODEL_TRACE_LIMIT:
                # (outside the wrapper protocol the number of invocations grows like n!; the model appends to its trace in
                # linear time, i.e. needs quadratic time: the correspondence stops before such a read, the oracle does not)
                del res["rows"][k:]
                ctx.count("model:history-cut-before-long-trace")
                break
            lean_lines.append(line)
            lean_lines.append(obs_line)
        if res["problems"]:
            i, key, what = res["problems"][0]
            if key in seen_keys:
                continue
            seen_keys.add(key)
            small = shrink(ops[:i + 1] if i < len(ops) else ops, key)
            j, key2, what2 = first_problem(small)
            if key2 == key:
                what = what2
            else:
                small = ops
            rr = run_history(small, with_oracle=False)
            ctx.violation(key, what, {
                "ops": [list(op) for op in small],
                "lines": [r[1] for r in rr["rows"]], "answers": [r[2] for r in rr["rows"]],
                "how": "driver/props/c01.py: Real().apply(op) for every op tuple (classes K<c> are created with type() "
                       "as subclasses of pyroll.core.HookHost, the hook is `h`); the oracle is Real.classify_order / "
                       "Real.check_read / Real.check_use; after the last op the final sweep of run_history lists and reads every "
                       "class on a fresh object and reads every used object - as it is and once more after `o.inp = 1`; "
                       "`./check C01 --replay <this file>` re-runs it"})
    # ---- model side ----------------------------------------------------------------------------------------------
    if getattr(ctx, "model_available", True):
        out = ctx.lean_model(MODEL, lean_lines)
        pos = 0
        for ops, res in results:
            pos += 1  # reset
            bad = None
            for k, (i, line, ans, obs_line, obs) in enumerate(res["rows"]):
                m_ans = out[pos] if pos < len(out) else "<eof>"
                if line.startswith(("read", "rv", "oread", "ohas", "oreval")):
                    m_ans = to_function_trace(m_ans, res["fid_of"])
                m_obs = out[pos + 1] if pos + 1 < len(out) else "<eof>"
                pos += 2
                if bad is None and (m_ans != ans or m_obs != obs):
                    bad = (k, {"line": line, "impl": [ans, obs], "model": [m_ans, m_obs]})
            if bad is None:
                ctx.validated()
            else:
                k, info = bad
                ctx.disagreement(f"model and implementation differ at op #{k} ({info['line']})",
                                 {"lines": [r[1] for r in res["rows"][:k + 1]], **info})
        if pos != len(out):
            ctx.disagreement("model output length mismatch", {"expected": pos, "got": len(out)})


def replay(ctx, data):
    r = data.get("replay", data)
    ops = [_tuplify(op) for op in r["ops"]]
    i, key, what = first_problem(ops)
    if i is not None:
        ctx.violation(key, what, r)


def _tuplify(op):
    return tuple(_tuplify(x) if isinstance(x, list) and x and isinstance(x[0], str) else x for x in op)
