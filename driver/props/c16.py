"""C16 - mutually defined quantities are consistent whichever member is supplied.

Tie: T (every hook implementation registered on a hook of one of the groups is re-translated on every run into
lean/PyrollModel/Gen/C16.lean - guards, formulas, host class, tier, source order - and the theorems of
lean/PyrollProps/C16.lean are kernel-evaluated / proved against these tables) + K (the symbolic hook interpreter
lean/PyrollModel/Mutual.lean is run by the driver lean/Drivers/c16.lean on exactly the cases the real objects are put
through: every subset of supplied members x every read order x scenario; values, AttributeError / other exceptions, the
names left in `__cache__`, the re-entrancy marks left behind and the NUMBER of hook function invocations per read are
compared).  The independent oracle checks the property text on the real objects: order independence, defining
relations, supplied values read back, derivable <=> readable (closure of the documented directions), failures are
AttributeError, fast, and without an internal RecursionError (Hook.__get__ is watched while the harness runs), round trips.
All of it also on objects that carry a SIDE quantity (a hook that is no member of a group but usually defaults to one,
given explicitly / provided by a subclass hook / read first; see `_side_variants`), on objects whose LINKED objects (the
roll of a pass, the pass of a roll, the in-profile) have been read before, and on objects that carry a hook given
explicitly as None (= not supplied, for every hook the core does not test for presence).  The unit group on roll passes
includes the pass velocity taken from the roll (neutral plane given as point / angle / not at all), with the relation to
the roll's working velocity and the round trip over a fresh pass.
Forms and histories (C16-8 / C16-9): every clause also on objects whose explicit values are supplied as CALLABLES (lambda, def,
bound method, functools.partial, object with __call__, class, builtin; without parameter / taking the instance; `FORMS`) and
on objects with a HISTORY - built from a template (the Roll handed to a pass, the profile handed on to a unit) that was created
with other values, read, and edited before, or deep copies of objects that were read / whose copy was edited (`_tmpl`,
`_apply_copy`).  The two places of hooks.py / the copy sites this rests on are translated too (driver/translate/c16_template.py:
the calling convention of `Hook.__get__` for callable explicit values, the attribute sets `BaseRollPass.Roll.__init__` /
`Unit.Profile.__init__` take over from the template); the interpreter runs callables, the template's history and the copy.
Two objects from one source and host classes (C16-10 / C16-11): every clause also on an object AFTER a second object was built
from the same template / from what the first object's copy site made of its template (a pass built from the working roll of
another pass) with other supplied values and read (`_SIB`, `_apply_sibling`, `_sibling_variants`); every roll-of-a-pass world on
`TwoRollPass.Roll` AND `ThreeRollPass.Roll`, every pass-unit combination on both pass classes, every member supplied (neutral
angle as well as neutral point); the resolution chains of `ThreeRollPass.Roll` are compared with the generated table too
(`ALSO_REAL`).
"""
import copy
import functools
import itertools
import math
import operator
import os
import random
import time

from ..translate import gen, pyexpr, c16_template
from .. import stub

ID = "C16"
LEAN_MODULES = ["PyrollProps.C16", "PyrollProps.C16Template"]
MODEL = "c16"
MODEL_MODULES = ["PyrollModel.Gen.C16", "PyrollModel.MutualDriver"]

# --------------------------------------------------------------------------------------------------------------
# (T) what is translated
# --------------------------------------------------------------------------------------------------------------
FILES = [
    ("unit", "unit/hookimpls.py"),
    ("transport", "transport/hookimpls/transport.py"),
    ("pipe", "transport/hookimpls/cooling_pipe.py"),
    ("roll", "roll/hookimpls.py"),
    ("rproll", "roll_pass/hookimpls/roll.py"),
    ("brp", "roll_pass/hookimpls/base_roll_pass.py"),
    ("srp", "roll_pass/hookimpls/symmetric_roll_pass.py"),
    ("trp", "roll_pass/hookimpls/two_roll_pass.py"),
    ("t3rp", "roll_pass/hookimpls/three_roll_pass.py"),
]

U_HOOKS = ["length", "duration", "velocity"]
T_HOOKS = ["target_width", "target_filling_ratio", "target_cross_section_area", "target_cross_section_filling_ratio"]
# max_radius is no member of a group: it is the quantity that DEFAULTS to a member (nominal_radius) and may be given on its
# own (collars); it is inside the tables so that the theorems cover rolls with and without an own max_radius
R_HOOKS = ["nominal_radius", "nominal_diameter", "working_radius", "rotational_frequency", "surface_velocity",
           "working_velocity", "max_radius"]

# model class -> (python class path below pyroll.core, hosts that carry implementations in MRO order (the names used in
# the decorators), hooks whose implementations form the table).  MRO and order are cross-checked against the real
# classes (`__mro__`, `Hook.functions`) by the harness on every run.
CLASSES = {
    "Unit": ("Unit", ["Unit"], U_HOOKS),
    "Transport": ("Transport", ["Transport", "Unit"], U_HOOKS),
    "CoolingPipe": ("CoolingPipe", ["CoolingPipe", "Transport", "Unit"], U_HOOKS + ["inner_radius", "cross_section_area"]),
    "TwoRollPass": ("TwoRollPass", ["TwoRollPass", "SymmetricRollPass", "BaseRollPass", "Unit"],
                    U_HOOKS + ["exit_point"] + T_HOOKS),
    "ThreeRollPass": ("ThreeRollPass", ["ThreeRollPass", "SymmetricRollPass", "BaseRollPass", "Unit"],
                      U_HOOKS + ["exit_point"] + T_HOOKS),
    "Roll": ("Roll", ["Roll"], R_HOOKS),
    "PassRoll": ("TwoRollPass.Roll", ["BaseRollPass.Roll", "Roll"], R_HOOKS + ["neutral_point", "neutral_angle", "exit_angle"]),
}


def _scan():
    """all hook implementations of the anchored files: [(lean_name, rel, HookImpl)] in file / source order"""
    out = []
    for tag, rel in FILES:
        path = os.path.join(gen.REPO, "pyroll", "core", rel)
        for impl in pyexpr.extract_hookimpls(path, module_name=rel):
            out.append((f"{tag}_{impl.fn}", rel, impl))
    return out


def _tables(ctx=None):
    """{model class: [(lean_name, HookImpl)] in registration (= file, source) order}"""
    scanned = _scan()
    tables = {}
    for cname, (_, hosts, hooks) in CLASSES.items():
        tables[cname] = [(n, i) for (n, rel, i) in scanned if i.host in hosts and i.hook in hooks]
    return scanned, tables


def translate(ctx):
    scanned, tables = _tables()
    used = []
    for cname in CLASSES:
        for (n, i) in tables[cname]:
            if n not in [u[0] for u in used]:
                used.append((n, i.module, i.fn))
            if i.wrapper:
                ctx.tie_breaks.append(f"translator: {i.fn} (pyroll/core/{i.module}) is a wrapper on a group hook; "
                                      "the interpreter models plain implementations only")
    # a function name used twice in one file would shadow an implementation in the translator index
    seen = {}
    for (n, rel, i) in scanned:
        if (rel, i.fn) in seen and (n, rel, i.fn) in used:
            ctx.tie_breaks.append(f"translator: two hook implementations named {i.fn} in pyroll/core/{rel}")
        seen[(rel, i.fn)] = True
    extra = []
    for cname, (_, hosts, hooks) in CLASSES.items():
        extra.append(f"def cls_{cname}_mro : List String := [" + ", ".join(pyexpr.lean_str(h) for h in hosts) + "]")
        extra.append(f"def cls_{cname}_impls : List Impl := [" + ", ".join(n for (n, _) in tables[cname]) + "]")
        extra.append(f"def cls_{cname}_hooks : List String := [" + ", ".join(pyexpr.lean_str(h) for h in hooks) + "]")
    extra.append("def classes : List (String × List String × List String × List Impl) := [" + ", ".join(
        f"({pyexpr.lean_str(c)}, cls_{c}_mro, cls_{c}_hooks, cls_{c}_impls)" for c in CLASSES) + "]")
    # the two places of the hook system itself the property depends on: how `Hook.__get__` calls a callable explicit
    # value, and which attribute sets of a template object the copy sites take over (driver/translate/c16_template.py)
    text, gaps, found = c16_template.lean_text(gen.REPO)
    ctx.tie_breaks += ["translator: " + g for g in gaps]
    ctx.notes["hook_system"] = {k: list(v) if isinstance(v, (list, tuple)) else v for k, v in found.items()}
    ctx.found = gen.emit_impl_module(ctx, ID, used, extra_text="\n".join(extra) + "\n" + text)
    ctx.tables = tables


    # bodies outside the translatable subset that the interpreter treats as PARAMETERS (outcome measured on a twin
    # object by the harness: value / None / exception kind) are declared in ASSUMPTIONS, not tie breaks
    ctx.notes["opaque_bodies"] = sorted(fn for fn in OPAQUE_OK if any(f"body of {fn} " in t for t in ctx.tie_breaks))
    ctx.tie_breaks = [t for t in ctx.tie_breaks if not any(f"body of {fn} " in t for fn in OPAQUE_OK)]


OPAQUE_OK = {"length_from_roll_pass_positions", "target_cross_section_area_from_target_width",
             "target_cross_section_area_from_target_width3", "conti_velocity"}

RULE = ("every group (unit length/duration/velocity; roll radius/diameter; rotational frequency/surface/working velocity; "
        "pipe radius/area; target width/filling ratio/area/area ratio; neutral point/angle) x every world (class, "
        "placement in a sequence, which external quantities exist) x EVERY subset of supplied members x EVERY read order "
        "on a fresh real object, values random log-uniform positive and mutually consistent. A case = (world, subset, "
        "order, values); non-trivial = at least one member is derived (neither all supplied nor all failing); distinct by "
        "(world, subset, order). Per case the Lean interpreter runs the same scenario (values, error kinds, cached names). "
        "Side quantities: every float valued hook of the object under test that is no member of any group (found on the "
        "object: max_radius, min_radius, working_radius, width, exit_angle, usable_width, tip_width, height, gap, ...) is, one "
        "at a time, (a) given explicitly with default x random factor, (b) provided by a hook function of an own subclass, "
        "(c) read before the members - as is every other modelled hook of the class; all subsets x all orders for pairs and, in "
        "the thorough tier, for (a); otherwise 2 (c: 1) random orders per subset. Members are re-drawn consistently with a "
        "side value that enters their relations (working radius, exit angle, usable width). "
        "Linked objects: every float valued / modelled hook of the hook hosts the translated implementations look at "
        "(roll of a pass, pass of a roll, in-profile; found through the generated tables) is read before the members "
        "(mode c). Given as None: every member, every other modelled hook, every side quantity and every such hook of a "
        "linked object is, one at a time, given explicitly as None (all orders for members of groups of <= 3, else 6; 1 "
        "otherwise), except names the core tests for presence (has_set / has_cached / has_set_or_cached with a literal "
        "name anywhere below pyroll/core) and names the world itself supplies; the members must read what they read "
        "without it and every clause applies. Roll passes: unit group with the roll's neutral plane given as neutral "
        "point / neutral angle / not at all, relation velocity = roll.working_velocity * cos(roll.neutral_angle), "
        "round trip of the derived pass velocity over a fresh pass to the roll's rotational frequency. "
        "Forms: per world the supplied members are given as callables in 2 of the 15 forms (dealt round robin over the worlds; "
        "thorough: 3 per repetition) - lambda / def / bound method / functools.partial of a python function and of a builtin / object with "
        "__call__ / class / builtin bound method, without parameter or taking the instance -, and every float valued explicit "
        "hook entry of the object and of its linked hook hosts (radius, neutral angle, pass velocity, gap, in-profile "
        "velocity, ...) in one random form and in a form of its own each; all subsets x 1 order (all orders for pairs); the "
        "members must read what they read with plain numbers. Histories: every template object the world's builder hands to a "
        "copy site (the Roll of a pass, the profile handed on) is created with other explicit values (65 % of the final names "
        "with another value, the rest missing, 35 % of the other group members / float hooks in addition, possibly one "
        "provided by a hook function of an own subclass), a random 60 % selection of its hooks read, edited to the final "
        "values, possibly read again (2 such histories + 1 read-only history per template kind and world); deep copies "
        "(with the pass / sequence the object lives in) of the never-read object, of the object after reads, and the "
        "original after its deep copy was re-supplied and read; the members must read what they read on the directly "
        "built object and every clause applies. Two objects from one source: for every world whose builder hands a template to a "
        "copy site, a SECOND object is built by the same builder with the values of another draw and a random non-empty subset "
        "of the members supplied - from the same template object, and from what the first object's copy site made of it (a pass "
        "built from the working roll of the first pass, a unit given the in-profile of the first) -, its members and the "
        "modelled hooks of its linked objects are read (in 30 % after a random selection of the first object's hooks was "
        "read), THEN the first object is read: every clause, round trips, and what it reads when built alone. Host classes: the "
        "roll-of-a-pass worlds (radius, velocity, neutral groups) exist on TwoRollPass.Roll and on ThreeRollPass.Roll, the "
        "pass-unit worlds on both pass classes with the neutral plane given as point / as angle / not at all and with / "
        "without rotational frequency, the unit group on CoolingPipe in four placements; of the side-quantity scenarios of "
        "these repeated worlds the quick tier runs a random half.")
ASSUMPTIONS = [
    "IEEE rounding: consistency and round trips are theorems over the reals; on floats they are checked with rtol 1e-9",
    "hook implementation bodies outside the translatable subset (length_from_roll_pass_positions, "
    "target_cross_section_area_from_target_width[3], navigation with try/except) are parameters of the interpreter: their "
    "outcome (value / None / exception kind) is measured on a twin object",
    "quantities living on other objects (in_profile.velocity, groove.groove_factor, roll_pass.velocity, usable_width, ...) "
    "are parameters: availability measured on a twin object, value symbolic",
    "the interpreter is tied to hooks.py by the sampled differential runs only (K); hooks.py itself is the subject of C01/C02/C07",
    "a hook given explicitly as None counts as not supplied (Hook.__get__ skips it); no demand is made for names the core "
    "tests for presence (has_set / has_cached / has_set_or_cached): there a None is 'explicitly set' by the documented "
    "meaning of these tests (observed: Roll(nominal_radius=None, nominal_diameter=None) recurses to the recursion limit)",
    "a callable explicit value is one of the harness's own 15 kinds (all with an inspect.signature of 0 or 1 parameters); "
    "callables with defaults, *args, two or more parameters or returning None are outside the statement (observed: "
    "lambda x=0.16: x is called with the instance; a callable returning None reads as None, not AttributeError)",
    "objects with a history: the property is demanded of FRESH objects - the roll a pass builds from its template, the profile a "
    "unit builds from the one handed on, deep copies of never-read / read-but-unedited objects; an object that was read and "
    "THEN re-supplied keeps its stale cache until the core clears it (and so does its deep copy): no demand. copy.copy of a "
    "hook host shares the __cache__ dictionary with the original (observed, not generated)",
    "two objects from one source: only the object built FIRST is judged (after the second was built and read); the second is "
    "built on the first one's template / product with values of another draw, so it may be over-completely and inconsistently "
    "supplied - no demand on it; the interpreter has no second object (the first is a fresh object to it)",
    "presence (set / cached / computable) of quantities on linked objects is measured once per scenario, after a first read "
    "on the linked object if the scenario has one; the interpreter does not follow changes of a linked object's cache "
    "during the reads",
]

GROUPS = {
    "unit": ["length", "duration", "velocity"],
    "radius": ["nominal_radius", "nominal_diameter"],
    "rollvel": ["rotational_frequency", "surface_velocity", "working_velocity"],
    "pipe": ["inner_radius", "cross_section_area"],
    "target": T_HOOKS,
    "neutral": ["neutral_point", "neutral_angle"],
}
FUEL = 5000          # machine steps per read given to the interpreter (the theorems bound the need by < 400)
SLOW = 0.5           # seconds: a failing read slower than this counts as "not bounded"
RTOL = 1e-9


# --------------------------------------------------------------------------------------------------------------
# real objects
# --------------------------------------------------------------------------------------------------------------
def _core():
    import logging
    logging.getLogger("pyroll").setLevel(logging.ERROR)
    import pyroll.core as pc
    return pc


def _groove(pc):
    return pc.BoxGroove(r1=2e-3, r2=4e-3, depth=10e-3, usable_width=30e-3, ground_width=24e-3)


def _logu(rng, lo=-2.0, hi=2.0):
    return math.exp(rng.uniform(lo, hi))


def _safe(f):
    try:
        return ("V", f())
    except Exception as e:  # noqa - classification of what the implementation raises
        return ("E", e)


# --------------------------------------------------------------------------------------------------------------
# side quantities: hooks of the object under test that are NOT members of a group
# --------------------------------------------------------------------------------------------------------------
# The defining relations of a group (property statement) mention the members and a few quantities of their own standing
# (nominal / working radius, usable width, usable cross-section).  Every OTHER quantity of the object usually has a
# default derived from a member (Roll.max_radius = nominal_radius, TwoRollPass.usable_width = groove.usable_width, ...), so
# a formula that reads the wrong one is invisible on ordinary objects.  A scenario may therefore carry ONE side value
#   vals["@aux"] = {"name": hook, "value": x, "mode": m}
#   m = "explicit"    the quantity is given explicitly (constructor keyword / attribute assignment: `__dict__`)
#   m = "hook"        the quantity is provided by a hook function of a subclass of the object's class (a plugin)
#   m = "read-first"  nothing is given, but the quantity is READ (and thereby cached, or fails) before the members are
# and the property is demanded of the members exactly as without it (the relations are evaluated with the quantities as
# the object reports them).
ALL_MEMBERS = {m for g in GROUPS.values() for m in g}
_SIDE_CLASSES = {}
_SIDE_NAMES = {}


def _side_class(base, name):
    """own subclass of `base` (never registered anywhere) whose hook `name` is answered by a hook function"""
    key = (base, name)
    if key not in _SIDE_CLASSES:
        sub = type("Side" + base.__name__, (base,), {"__doc__": "C16 harness: a plugin class providing " + name})

        def provided_by_subclass(self):
            return self.__dict__["_c16_side_value"]
        getattr(sub, name)(provided_by_subclass)          # registered on the subclass's own Hook object only
        _SIDE_CLASSES[key] = sub
    return _SIDE_CLASSES[key]


def _getpath(obj, path):
    """getattr along a `.`-path below the object under test (`roll.neutral_angle`: a hook of a LINKED object)"""
    for part in path.split("."):
        obj = getattr(obj, part)
    return obj


def _owner(obj, path):
    """(owner object, last name) of a `.`-path below `obj`"""
    parts = path.split(".")
    for part in parts[:-1]:
        obj = getattr(obj, part)
    return obj, parts[-1]


def _apply_side(obj, aux):
    if not aux:
        return
    if aux["mode"] == "explicit":
        setattr(obj, aux["name"], aux["value"])           # Hook.__set__: obj.__dict__[name] = value
    elif aux["mode"] == "hook":
        obj.__dict__["_c16_side_value"] = aux["value"]
        obj.__class__ = _side_class(type(obj), aux["name"])
    elif aux["mode"] == "none":
        owner, last = _owner(obj, aux["name"])
        setattr(owner, last, None)                        # `Roll(..., working_velocity=None)`: in `__dict__`, holding None



# --------------------------------------------------------------------------------------------------------------
# forms of supplying a value
# --------------------------------------------------------------------------------------------------------------
# `Hook.__get__` accepts an explicit value in three forms: a plain value, a callable without parameter (called as `v()`), a
# callable with a parameter (called as `v(instance)`).  "Supplied" in the property statement means supplied in ANY of them,
# and a callable is whatever python calls one: a lambda, a `def` function, a bound method, a `functools.partial` (of a
# python function or of a builtin), an object with `__call__`, a class, a builtin method.  A scenario may carry
#   vals["@form"] = {"name": <key of FORMS | "mixed">, "scope": "members" | "all", "seed": n}
# "members": the supplied members are given in that form; "all": every float valued explicit hook entry of the object under
# test AND of the hook hosts linked to it (roll of a pass, pass of a roll, in-profile: the radius, the neutral angle, the pass
# velocity, the in-profile's velocity, ...) is; "mixed": every entry in a form of its own (drawn from `seed`).
class _Setpoint:
    """a value object of some process control layer"""

    def __init__(self, value):
        self.value = value

    def current(self):
        return self.value

    def current_for(self, host):
        return self.value


class _Callable0(_Setpoint):
    def __call__(self):
        return self.value


class _Callable1(_Setpoint):
    def __call__(self, host):
        return self.value


def _scaled(x, k):
    return x * k


def _value_for(x, host):
    return x


def _def0(v):
    def supplied():
        return v
    return supplied


def _def1(v):
    def supplied(host):
        return v
    return supplied


def _class0(v):
    class Supplied(float):
        def __new__(cls):
            return float.__new__(cls, v)
    return Supplied


def _class1(v):
    class Supplied(float):
        def __new__(cls, host):
            return float.__new__(cls, v)
    return Supplied


# name -> (number of parameters, maker(value, name of the hook))
FORMS = {
    "lambda: v": (0, lambda v, n: (lambda: v)),
    "lambda host: v": (1, lambda v, n: (lambda host: v)),
    "lambda host: value kept on the host": (1, lambda v, n: (lambda host: host.__dict__["_c16_forms"][n][1])),
    "def f(): return v": (0, lambda v, n: _def0(v)),
    "def f(host): return v": (1, lambda v, n: _def1(v)),
    "bound method m()": (0, lambda v, n: _Setpoint(v).current),
    "bound method m(host)": (1, lambda v, n: _Setpoint(v).current_for),
    "functools.partial(f, v, 1.0) of a python function": (0, lambda v, n: functools.partial(_scaled, v, 1.0)),
    "functools.partial(f, v) leaving the host parameter": (1, lambda v, n: functools.partial(_value_for, v)),
    "functools.partial(operator.mul, v, 1.0) of a builtin": (0, lambda v, n: functools.partial(operator.mul, v, 1.0)),
    "object with __call__()": (0, lambda v, n: _Callable0(v)),
    "object with __call__(host)": (1, lambda v, n: _Callable1(v)),
    "class C(float) with __new__(cls)": (0, lambda v, n: _class0(v)),
    "class C(float) with __new__(cls, host)": (1, lambda v, n: _class1(v)),
    "builtin bound method v.__float__": (0, lambda v, n: v.__float__),
}


def _is_hook(o, n):
    from pyroll.core.hooks import Hook
    return not n.startswith("_") and isinstance(getattr(type(o), n, None), Hook)


def _form_targets(obj, form, sup):
    from pyroll.core.hooks import HookHost
    if form["scope"] == "members":
        return [(obj, n) for n in sup]
    hosts = [obj]
    for link in ("roll", "roll_pass", "in_profile"):
        r = _safe(lambda: getattr(obj, link))
        if r[0] == "V" and isinstance(r[1], HookHost) and all(r[1] is not h for h in hosts):
            hosts.append(r[1])
    return [(o, n) for o in hosts for n in sorted(o.__dict__) if _is_hook(o, n)]


def _apply_form(obj, form, sup):
    """replace the numbers under the targeted explicit entries by callables; what each stands for is kept under
    `_c16_forms` of its owner (a `_`-name: no copy site, no `__attrs__` looks at it)"""
    if not form:
        return
    rng = random.Random(form.get("seed", 0))
    names = sorted(FORMS)
    form["assigned"] = assigned = {}          # (for the replay's reader; follows from name / seed)
    for (o, n) in _form_targets(obj, form, sup):
        v = o.__dict__.get(n)
        if isinstance(v, bool) or not isinstance(v, (int, float)):
            continue
        name = form["name"] if form["name"] != "mixed" else rng.choice(names + ["number"])
        if name == "number":
            continue
        arity, mk = FORMS[name]
        assigned[("" if o is obj else type(o).__name__ + ".") + n] = name
        o.__dict__.setdefault("_c16_forms", {})[n] = (arity, float(v), name)
        o.__dict__[n] = mk(float(v), n)


def _number(o, n):
    """the number an explicit entry stands for (None when it is neither a number nor one of the harness's callables)"""
    v = o.__dict__.get(n)
    if isinstance(v, (int, float)) and not isinstance(v, bool):
        return float(v)
    f = o.__dict__.get("_c16_forms", {}).get(n)
    return f[1] if f is not None and callable(v) else None


# --------------------------------------------------------------------------------------------------------------
# objects with a history: templates that were read and edited before they are handed on, copies
# --------------------------------------------------------------------------------------------------------------
# Fresh hook hosts are also built FROM other objects: the roll of a pass from the `Roll` handed to the pass
# (`BaseRollPass.Roll(template, roll_pass)`), the in / out profile of a unit from the profile handed on (`Unit.Profile(unit,
# template)`), a deep copy of a unit / roll / pass.  By the property they are fresh objects given the template's EXPLICIT values:
# whatever was read on the template before (and thereby cached) or supplied earlier and replaced since must not show.  A
# scenario may carry
#   vals["@hist"] = {"site": "template", "seed": n, "names": [...], "alt": {name: number}, "mode": m}
#       every template object the world's builder creates (`_tmpl`) goes through a history drawn from `seed`:
#       m = "read-edit": created with OTHER explicit values (some of the final names with another value, some missing, some other
#           names of `names` in addition), a random selection of `names` read, then edited to the final explicit values
#           (deleted / re-supplied), optionally read again;  m = "read": created with the final values, then read; in both, one
#           of the other names may be provided by a hook function of an own subclass the template is made an instance of; a
#           profile may in addition pass through an upstream unit (`Transport(duration=1).solve(t)`) before it is handed on;
#   vals["@hist"] = {"site": "deepcopy", "seed": n, "names": [...], "mode": m}
#       the object under test is a `copy.deepcopy`: m = "fresh": of the never-read object; m = "read": of the object after
#       a random selection of `names` was read (no edits: its cache holds what follows from its explicit values);
#       m = "isolated": the object under test is the ORIGINAL, after a deep copy of it was re-supplied with other values and read
#       (what happens to the copy must not reach the original).
# The ops actually performed are written to vals["@hist"]["ops"] (for the replay's reader; they follow from the seed).
_LAST_TMPL = {}


def _hist_reads(rng, t, names, log, tag):
    picked = [n for n in names if rng.random() < 0.6] or [rng.choice(names)]
    rng.shuffle(picked)
    out = []
    for n in picked:
        r = _safe(lambda: getattr(t, n))
        out.append((n, r))
        log.append(f"read {tag}.{n}" + ("" if r[0] == "V" else f" -> {type(r[1]).__name__}"))
    return out


def _tmpl(vals, factory, fixed, kw, what="Roll"):
    """the template object a builder hands to a copy site: `factory(**fixed, **kw)`, or - in a template-history scenario -
    an object that ends up with exactly these explicit values after a history of other values, reads and edits"""
    h = (vals or {}).get("@hist")
    if h and h.get("site") == "sibling" and _SIB.get("phase") == "first":
        t = factory(**fixed, **kw)
        _SIB["made"].append((what, t))
        return t
    if h and h.get("site") == "sibling" and _SIB.get("phase") == "second" and _SIB["i"] < len(_SIB["made"]):
        # the SECOND object is built from the source of the first: the very template object the first one was built from, or
        # the object the first one's copy site made of it (the working roll of the first pass, the in-profile of the first unit)
        what0, t0 = _SIB["made"][_SIB["i"]]
        _SIB["i"] += 1
        return t0 if h["mode"] == "same-template" else _product(_SIB["obj"], what0)
    if not h or h.get("site") != "template":
        return factory(**fixed, **kw)
    if h.get("probe") is not None:
        t = factory(**fixed, **kw)
        h["probe"].append((what, t, dict(kw)))
        return t
    rng = random.Random(h["seed"])
    names = list(h["names"])
    log = []
    numeric = sorted(k for k, v in kw.items() if isinstance(v, (int, float)) and not isinstance(v, bool))
    initial = {k: v for k, v in kw.items() if k not in numeric}
    if h["mode"] == "read":
        initial.update({k: kw[k] for k in numeric})
    else:
        for k in numeric:
            if rng.random() < 0.65:
                f = rng.uniform(1.15, 1.6)
                initial[k] = kw[k] * (f if rng.random() < 0.5 else 1.0 / f)
        for k in names:
            if k not in kw and k in h["alt"] and rng.random() < 0.35:
                initial[k] = h["alt"][k]
    t = factory(**fixed, **initial)
    log.append(f"t = {what}(" + ", ".join(f"{k}={v!r}" for k, v in sorted(initial.items())) + ")")
    hooked = [k for k in names if k not in kw and k not in initial and k in h["alt"]]
    if hooked and not h.get("model") and rng.random() < 0.5:
        # ... and one quantity of the template is provided by a hook function of its (plugin) class: reading it caches a value
        # that belongs to the TEMPLATE's class, not to the explicit values handed on
        k = rng.choice(hooked)
        t.__dict__["_c16_side_value"] = h["alt"][k]
        t.__class__ = _side_class(type(t), k)
        log.append(f"t.__class__ = a subclass of {type(t).__mro__[1].__name__} whose hook function provides {k}={h['alt'][k]!r}")
    reads = _hist_reads(rng, t, names, log, "t")
    ops = [("r", n) for (n, _) in reads]
    if h["mode"] != "read":
        for k in sorted(initial):
            if k not in kw:
                delattr(t, k)
                log.append(f"del t.{k}")
                ops.append(("d", k))
        for k in sorted(kw):
            if k in numeric or k not in initial:
                setattr(t, k, kw[k])
                log.append(f"t.{k} = {kw[k]!r}")
                ops.append(("s", k))
        if rng.random() < 0.5:
            more = _hist_reads(rng, t, names, log, "t")
            reads += more
            ops += [("r", n) for (n, _) in more]
    if h.get("via_solve") and what == "Profile.round":
        # the profile reaches the unit through an upstream unit: `Unit.solve` hands on a profile built from the explicit values
        # of its out profile, which was built from the explicit values of the incoming one
        t = _core().Transport(duration=1.0, label="upstream").solve(t)
        log.append("t = Transport(duration=1.0).solve(t)")
    log.append("t is handed to the copy site")
    h["ops"] = log
    _LAST_TMPL.update(obj=t, what=what, initial={k: v for k, v in initial.items() if isinstance(v, (int, float))},
                      initial_names=sorted(initial), ops=ops, reads=reads, final=dict(kw))
    return t


# Two objects built from ONE source.  A template object may be handed to a copy site more than once (two stands equipped with
# the same roll data), and what a copy site made of it may be handed on again (a second pass built from the working roll of the
# first: `RollPass(first.roll, velocity=...)`; the in-profile of one unit handed to another unit).  By the property each of the
# objects is a fresh object given the source's EXPLICIT values plus what it is supplied with itself; what the other one is
# supplied with and what is read there must not show.  A scenario may carry
#   vals["@hist"] = {"site": "sibling", "mode": "same-template" | "product", "seed": n, "other": {consistent values of the
#                    world drawn from another seed}, "other_sup": [members the second object is supplied with], "names": [...],
#                    "read_first": bool}
# the object under test is built as always (every template its builder creates is remembered); if `read_first`, a random
# selection of `names` is read on it; then the builder runs a SECOND time with the values `other` (another pass velocity, other
# supplied members) while `_tmpl` hands out the first object's templates ("same-template") or the objects the first copy sites made
# of them ("product"); the members of the second object and the modelled hooks of its linked objects are read; THEN the first
# object is judged: every clause, and its members read what they read on the object built alone.
_SIB = {}


def _product(obj, what):
    """what the copy site of the first object made of its template `what`"""
    pc = _core()
    if what == "Roll":
        return obj if isinstance(obj, pc.Roll) else obj.roll
    return obj.in_profile


def _apply_sibling(world, obj, keep, h):
    from pyroll.core.hooks import HookHost
    rng = random.Random(h["seed"])
    log = []
    if h.get("read_first"):
        _hist_reads(rng, obj, list(h["names"]), log, "o")
    _SIB.update(phase="second", i=0, obj=obj)
    vals_s = dict(h["other"])
    vals_s["@hist"] = h
    try:
        sib, keep_s = world._build({m: h["other"][m] for m in h["other_sup"]}, vals_s)
    finally:
        _SIB["phase"] = None
    log.append("o2 = a second object built by the same builder with the values `other`, supplied with "
               f"{sorted(h['other_sup']) or 'nothing'}, " + {
                   "same-template": "from the SAME template object(s) the first one was built from",
                   "product": "from what the first object's copy site made of its template (first.roll / first.in_profile)"}[h["mode"]])
    modelled = ALL_MEMBERS | {x for c in CLASSES.values() for x in c[2]}
    hosts = [("o2", sib)]
    for link in ("roll", "roll_pass", "in_profile"):
        r = _safe(lambda: getattr(sib, link))
        if r[0] == "V" and isinstance(r[1], HookHost):
            hosts.append(("o2." + link, r[1]))
    for (tag, o) in hosts:
        for n in ([m for m in world.members if o is sib] + [n for n in _hook_names(o) if n in modelled and not (o is sib and n in world.members)]):
            r = _safe(lambda: getattr(o, n))
            log.append(f"read {tag}.{n}" + ("" if r[0] == "V" else f" -> {type(r[1]).__name__}"))
    h["ops"] = log + ["the FIRST object is the object under test"]
    return obj, keep + [sib, keep_s]


def _copy_of(obj, keep):
    """deep copy of the object under test together with what it lives in: (copy, keep-alive list) or None"""
    if not keep:
        return copy.deepcopy(obj), []
    k0 = keep[0]
    if getattr(k0, "roll", None) is obj:
        c = copy.deepcopy(k0)
        return c.roll, [c]
    units = _safe(lambda: list(k0.units))
    if units[0] == "V" and any(u is obj for u in units[1]):
        c = copy.deepcopy(k0)
        return list(c.units)[[u is obj for u in units[1]].index(True)], [c]
    return None


def _apply_copy(obj, keep, h, vals, members):
    """deep-copy scenarios (see above): -> (object under test, keep-alive list)"""
    rng = random.Random(h["seed"])
    log = []
    if h["mode"] == "read":
        _hist_reads(rng, obj, list(h["names"]), log, "o")
    c = _copy_of(obj, keep)
    if c is None:
        raise RuntimeError("C16 harness: no deep copy defined for this world")
    log.append("c = copy.deepcopy(o)  (with the sequence / pass it lives in)")
    if h["mode"] in ("fresh", "read"):
        h["ops"] = log + ["c is the object under test"]
        return c[0], c[1] + [keep]
    # "isolated": the copy is re-supplied with other values and read; the ORIGINAL is the object under test
    for m in members:
        if c[0].has_set(m) and _number(c[0], m) is not None:
            f = rng.uniform(1.15, 1.6)
            setattr(c[0], m, _number(c[0], m) * f)
            log.append(f"c.{m} *= {f!r}")
    _hist_reads(rng, c[0], list(h["names"]), log, "c")
    h["ops"] = log + ["o is the object under test"]
    return obj, keep + [c]


def _given(o, name):
    """explicitly supplied WITH A VALUE: `Hook.__get__` skips a `None` in `__dict__` (= not supplied)"""
    return o.has_set(name) and o.__dict__[name] is not None


_PRESENCE = {}


def _presence_tested():
    """names of the hooks the core tests for PRESENCE somewhere (`has_set` / `has_cached` / `has_set_or_cached` with a
    literal name, any file below pyroll/core except hooks.py itself).  By the documented meaning of these tests a hook
    given as `None` is "explicitly set" for them, so the property makes no demand on objects that carry a `None` under such
    a name; every other hook given as `None` is, by `Hook.__get__`, simply not supplied."""
    if gen.REPO not in _PRESENCE:
        import ast
        names = set()
        root = os.path.join(gen.REPO, "pyroll", "core")
        for d, _, files in os.walk(root):
            for f in files:
                if not f.endswith(".py") or os.path.join(d, f) == os.path.join(root, "hooks.py"):
                    continue
                try:
                    tree = ast.parse(open(os.path.join(d, f)).read())
                except SyntaxError:
                    continue
                for n in ast.walk(tree):
                    if (isinstance(n, ast.Call) and isinstance(n.func, ast.Attribute)
                            and n.func.attr in ("has_set", "has_cached", "has_set_or_cached") and n.args
                            and isinstance(n.args[0], ast.Constant) and isinstance(n.args[0].value, str)):
                        names.add(n.args[0].value)
        _PRESENCE[gen.REPO] = names
    return _PRESENCE[gen.REPO]


def _linked(obj, table, hooks):
    """{name: object}: the hook hosts LINKED to the object under test that the translated implementations of its class
    look at (`self.roll.…`, `self.roll_pass.…`, `self.in_profile.…`) - found through the generated table, not listed"""
    from pyroll.core.hooks import HookHost
    out = {}
    for o in _paths(table, hooks)[1]:
        if "." in o:
            continue
        r = _safe(lambda: getattr(obj, o))
        if r[0] == "V" and isinstance(r[1], HookHost) and r[1] is not obj:
            out[o] = r[1]
    return out


def _hook_names(obj):
    from pyroll.core.hooks import Hook
    out = []
    for k in type(obj).__mro__:
        for n, v in list(vars(k).items()):
            if isinstance(v, Hook) and n not in out:
                out.append(n)
    return out


def _side_candidates(world, vals):
    """[(name, default)]: the float valued hooks of the object under test (all members supplied) that are neither set
    nor a member of any group; found once per world (names), defaults re-read for the given values"""
    ref, keep = world.build({m: vals[m] for m in world.members}, vals)
    if world.name not in _SIDE_NAMES:
        _SIDE_NAMES[world.name] = [n for n in _hook_names(ref) if n not in ALL_MEMBERS and not ref.has_set(n)
                                   and _is_float(_safe(lambda: getattr(ref, n)))]
        ref, keep = world.build({m: vals[m] for m in world.members}, vals)
    out = []
    for n in _SIDE_NAMES[world.name]:
        r = _safe(lambda: getattr(ref, n))
        if _is_float(r):
            out.append((n, float(r[1])))
    return out


def _is_float(r):
    return r[0] == "V" and isinstance(r[1], float) and math.isfinite(r[1])


_LINKED_NAMES = {}


def _linked_candidates(world, vals, tables):
    """[`link.hook`]: the hooks of the hook hosts linked to the object under test (`_linked`) that are float valued on
    the fully supplied object or belong to a modelled class table / a group; found once per world"""
    if world.name not in _LINKED_NAMES:
        modelled = ALL_MEMBERS | {h for c in CLASSES.values() for h in c[2]}
        out = []
        ref, keep = world.build({m: vals[m] for m in world.members}, vals)
        for link, lo in _linked(ref, tables[world.cls], CLASSES[world.cls][2]).items():
            for n in _hook_names(lo):
                if n in modelled or _is_float(_safe(lambda: getattr(lo, n))):
                    out.append(link + "." + n)
        _LINKED_NAMES[world.name] = out
    return _LINKED_NAMES[world.name]


class World:
    """one class in one situation.  `build(sup)` returns (fresh object, keep-alive list); `values(rng)` a consistent
    assignment of all members (+ auxiliaries used by build); `known(twin)` the oracle's list of external facts;
    `rules` the directions the core documents; `relations(obj, got)` yields (name, lhs, rhs)."""

    def __init__(self, name, cls, group, values, build, known, rules, relations, cross=None):
        self.name, self.cls, self.group = name, cls, group
        self.members = GROUPS[group]
        self.values, self._build, self._known, self.rules, self.relations = values, build, known, rules, relations
        # cross(got, sup_names, vals) -> [(derived member, what is read back on a fresh LINKED pair, observed, original)]:
        # round trips whose way back leads over another object (pass velocity -> roll of a fresh pass)
        self.cross = cross
        self.secondary = False

    def build(self, sup, vals):
        """fresh object under test (+ keep-alive list); a side value `vals["@aux"]` (see `_apply_side`) is put on it"""
        h = vals.get("@hist")
        sib = bool(h) and h.get("site") == "sibling"
        if sib:
            _SIB.update(phase="first", made=[], i=0, obj=None)
        try:
            obj, keep = self._build(sup, vals)
        finally:
            _SIB["phase"] = None
        _apply_side(obj, vals.get("@aux"))
        _apply_form(obj, vals.get("@form"), sup)
        if h and h.get("site") == "deepcopy":
            obj, keep = _apply_copy(obj, keep, h, vals, self.members)
        if sib:
            obj, keep = _apply_sibling(self, obj, keep, h)
        return obj, keep

    def known(self, twin, aux=None):
        k = set(self._known(twin))
        if aux and aux["mode"] in ("explicit", "hook"):
            k.add(aux["name"])                    # the side quantity has a value of its own
        return k


def _worlds():
    pc = _core()
    from pyroll.core.roll_pass.hookimpls import helpers
    W = []

    # ---- unit length / duration / velocity on transports -------------------------------------------------------
    def unit_values(rng, aux=None):
        v, d = _logu(rng), _logu(rng)
        return {"velocity": v, "duration": d, "length": v * d}

    def unit_known(t):
        k = set()
        if t.in_profile is not None and _safe(lambda: t.in_profile.velocity)[0] == "V":
            k.add("in_profile.velocity")
        if t.in_profile is not None and _safe(lambda: t.prev.velocity)[0] == "V":   # a unit without in-profile (never solved) has no velocity
            k.add("prev.velocity")
        # the length follows from the positions of the enclosing roll passes when both carry a location
        try:
            n, p = t.next_of(pc.RollPass), t.prev_of(pc.RollPass)
            if n.has_value("location") and p.has_value("location"):
                k.add("@positions")
        except (IndexError, ValueError):
            pass
        return k

    unit_rules = [("length", ["velocity", "duration"]), ("duration", ["length", "velocity"]),
                  ("velocity", ["in_profile.velocity"]), ("velocity", ["length", "prev.velocity"]),
                  ("length", ["@positions"])]

    def unit_rel(obj, got):
        if all(m in got for m in ("length", "duration", "velocity")):
            yield ("length=velocity*duration", got["length"], got["velocity"] * got["duration"])

    def mk_transport(cls_name, inprof, place):
        def build(sup, vals):
            cls = getattr(pc, cls_name)
            t = cls(**sup)
            if inprof != "none":
                kw = {"velocity": vals["velocity"]} if inprof == "vel" else {}
                # (the profile handed on is a TEMPLATE: `Unit.Profile.__init__` takes over its explicit values)
                t.in_profile = cls.InProfile(t, _tmpl(vals, pc.Profile.round, {"radius": 0.01}, kw, "Profile.round"))
            g = _groove(pc)

            def rp(**kw):
                return pc.RollPass(roll=pc.Roll(groove=g, nominal_radius=0.16), gap=2e-3, **kw)
            keep = []
            if place == "first":
                keep.append(pc.PassSequence([t, pc.Transport(length=1.0)]))
            elif place == "last":
                keep.append(pc.PassSequence([rp(velocity=vals["velocity"]), t]))
            elif place == "located":
                keep.append(pc.PassSequence([rp(location=1.0, velocity=vals["velocity"]), t,
                                             rp(location=1.0 + vals["length"])]))
            elif place == "unlocated":
                keep.append(pc.PassSequence([pc.Transport(label="p"), t, rp()]))
            return t, keep
        return World(f"{cls_name}/{inprof}/{place}", cls_name, "unit", unit_values, build, unit_known, unit_rules, unit_rel)

    for inprof in ("none", "novel", "vel"):
        for place in ("alone", "first", "last", "located", "unlocated"):
            W.append(mk_transport("Transport", inprof, place))
    W.append(mk_transport("CoolingPipe", "vel", "alone"))
    W.append(mk_transport("CoolingPipe", "novel", "located"))
    W.append(mk_transport("CoolingPipe", "none", "last"))
    W.append(mk_transport("CoolingPipe", "vel", "located"))

    # ---- unit group on roll passes ---------------------------------------------------------------------------------
    def mk_pass_unit(cls_name, with_rf, neutral="none"):
        g3 = dict(r1=3e-3, r2=12.5e-3, depth=5e-3, pad_angle=30)

        def groove():
            return _groove(pc) if cls_name == "TwoRollPass" else pc.RoundGroove(**g3)

        def values(rng, aux=None):
            R, rf, L = rng.uniform(0.1, 0.4), _logu(rng), rng.uniform(0.01, 0.05)
            wr = R - groove().groove_factor
            a = rng.uniform(0.02, 0.3)
            # the pass velocity is the horizontal component of the working velocity in the neutral plane (exit plane,
            # exit_point = 0, when the roll has no neutral plane)
            v = rf * wr * 2 * math.pi * (math.cos(a) if neutral != "none" else 1.0)
            return {"velocity": v, "length": L, "duration": L / v, "R": R, "rf": rf, "wr": wr,
                    "neutral_angle": a, "neutral_point": math.sin(a) * wr}

        def mk(sup, vals, rf, pass_kw):
            kw = {"rotational_frequency": vals["rf"]} if rf else {}
            if neutral != "none":
                kw[neutral] = vals[neutral]
            roll = _tmpl(vals, pc.Roll, {"groove": groove()}, dict(nominal_radius=vals["R"], **kw))
            if cls_name == "TwoRollPass":
                return pc.TwoRollPass(roll=roll, gap=2e-3, entry_point=-vals["length"], **pass_kw, **sup)
            return pc.ThreeRollPass(roll=roll, inscribed_circle_diameter=22e-3, entry_point=-vals["length"], **pass_kw, **sup)

        def build(sup, vals):
            return mk(sup, vals, with_rf, {}), []

        def known(rp):
            k = {"entry_point", "exit_point"}
            if _safe(lambda: rp.roll.working_velocity)[0] == "V":
                k.add("roll.working_velocity")
            return k
        rules = [("length", ["entry_point", "exit_point"]), ("duration", ["length", "velocity"]),
                 ("velocity", ["roll.working_velocity"])]

        def rel(obj, got):
            yield from unit_rel(obj, got)
            # pass velocity <-> working velocity of the roll (mechanism roll_pass/hookimpls/roll.py: working_velocity =
            # pass velocity / cos(neutral angle)): the two directions describe the same situation.  Quantities as the
            # objects report them; without a neutral plane the exit plane counts, stated here for exit_point = 0 only
            wv = _safe(lambda: float(obj.roll.working_velocity))
            if "velocity" in got and wv[0] == "V":
                na = _safe(lambda: float(obj.roll.neutral_angle))
                if na[0] == "V":
                    yield ("velocity=roll.working_velocity*cos(roll.neutral_angle)", got["velocity"], wv[1] * math.cos(na[1]))
                elif _safe(lambda: float(obj.exit_point)) == ("V", 0.0):
                    yield ("velocity=roll.working_velocity", got["velocity"], wv[1])

        def cross(got, sup_names, vals):
            # the derived pass velocity supplied to a fresh pass whose roll has no rotational frequency of its own
            # reproduces the rotational frequency / surface velocity it was derived from
            if not with_rf or "velocity" in sup_names or "velocity" not in got:
                return
            rp2 = mk({}, vals, False, {"velocity": got["velocity"]})
            for (n, orig) in (("rotational_frequency", vals["rf"]), ("surface_velocity", vals["rf"] * vals["R"] * 2 * math.pi)):
                r = _read(rp2.roll, n)
                if r[0] == "V":
                    yield ("velocity", "roll." + n, r[1], orig)
        return World(f"{cls_name}/unit/{'rf' if with_rf else 'norf'}" + ("" if neutral == "none" else "/" + neutral),
                     cls_name, "unit", values, build, known, rules, rel, cross=cross)

    W += [mk_pass_unit("TwoRollPass", True), mk_pass_unit("TwoRollPass", False), mk_pass_unit("ThreeRollPass", True)]
    # ... with the neutral plane given on the roll, as neutral point or as neutral angle
    W += [mk_pass_unit("TwoRollPass", True, "neutral_point"), mk_pass_unit("TwoRollPass", True, "neutral_angle"),
          mk_pass_unit("ThreeRollPass", True, "neutral_point"), mk_pass_unit("TwoRollPass", False, "neutral_point")]
    # ... every combination also on the OTHER pass class (an implementation registered on one concrete class only - `ThreeRollPass`,
    # `ThreeRollPass.Roll` - shadows the inherited one there and nowhere else) and with the member that is rarely supplied
    W += [mk_pass_unit("ThreeRollPass", False), mk_pass_unit("ThreeRollPass", True, "neutral_angle"),
          mk_pass_unit("ThreeRollPass", False, "neutral_point"), mk_pass_unit("TwoRollPass", False, "neutral_angle")]

    # ---- roll radius / diameter ------------------------------------------------------------------------------------
    def rad_values(rng, aux=None):
        R = rng.uniform(0.05, 0.5)
        return {"nominal_radius": R, "nominal_diameter": 2 * R}

    def rad_rel(obj, got):
        if len(got) == 2:
            yield ("nominal_diameter=2*nominal_radius", got["nominal_diameter"], 2 * got["nominal_radius"])
    rad_rules = [("nominal_radius", ["nominal_diameter"]), ("nominal_diameter", ["nominal_radius"])]
    W.append(World("Roll/radius", "Roll", "radius", rad_values,
                   lambda sup, vals: (pc.Roll(groove=_groove(pc), **sup), []), lambda o: set(), rad_rules, rad_rel))

    # the roll of a pass lives on TWO concrete classes: `TwoRollPass.Roll` and `ThreeRollPass.Roll` (worlds `PassRoll/...` and
    # `PassRoll3/...`; one model class: on the unchanged tree both resolve every modelled hook through BaseRollPass.Roll and Roll,
    # which `_check_registration` verifies for both)
    def groove_of(kind):
        return _groove(pc) if kind == "" else pc.RoundGroove(r1=3e-3, r2=12.5e-3, depth=5e-3, pad_angle=30)

    def mk_pass_roll(sup, vals, roll_kw=None, pass_kw=None, kind=""):
        roll = _tmpl(vals, pc.Roll, {"groove": groove_of(kind)}, dict(**(roll_kw or {}), **sup))
        if kind == "":
            rp = pc.TwoRollPass(roll=roll, gap=2e-3, **(pass_kw or {}))
        else:
            rp = pc.ThreeRollPass(roll=roll, inscribed_circle_diameter=22e-3, **(pass_kw or {}))
        return rp.roll, [rp]
    for kind in ("", "3"):
        W.append(World(f"PassRoll{kind}/radius", "PassRoll", "radius", rad_values,
                       (lambda kind: lambda sup, vals: mk_pass_roll(sup, vals, kind=kind))(kind), lambda o: set(), rad_rules, rad_rel))

    # ---- rotational frequency / surface velocity / working velocity -------------------------------------------------
    def vel_values(rng, aux=None, kind=""):
        R, rf = rng.uniform(0.05, 0.5), _logu(rng)
        gf = groove_of(kind).groove_factor
        a = rng.uniform(0.02, 0.3)
        # the working radius is a quantity of its own: nominal_radius - groove_factor unless the roll is given another one
        wr = aux["value"] if aux and aux["mode"] in ("explicit", "hook") and aux["name"] == "working_radius" else R - gf
        wv = rf * wr * 2 * math.pi
        return {"R": R, "rotational_frequency": rf, "surface_velocity": rf * R * 2 * math.pi, "working_velocity": wv,
                "neutral_angle": a, "neutral_point": math.sin(a) * wr, "gf": gf, "wr": wr,
                "exit_point": rng.uniform(-0.3, 0.3) * wr}

    def vel_rel(obj, got):
        R = _safe(lambda: float(obj.nominal_radius))
        wr = _safe(lambda: float(obj.working_radius))
        if R[0] == "V" and "rotational_frequency" in got and "surface_velocity" in got:
            yield ("surface_velocity=rotational_frequency*nominal_radius*2pi", got["surface_velocity"],
                   got["rotational_frequency"] * R[1] * 2 * math.pi)
        if wr[0] == "V" and "rotational_frequency" in got and "working_velocity" in got:
            yield ("working_velocity=rotational_frequency*working_radius*2pi", got["working_velocity"],
                   got["rotational_frequency"] * wr[1] * 2 * math.pi)
    vel_rules = [("working_radius", ["nominal_radius"]), ("nominal_radius", ["nominal_diameter"]),
                 ("nominal_diameter", ["nominal_radius"]),
                 ("working_velocity", ["rotational_frequency", "working_radius"]),
                 ("surface_velocity", ["rotational_frequency", "nominal_radius"]),
                 ("rotational_frequency", ["surface_velocity", "nominal_radius"]),
                 ("rotational_frequency", ["working_velocity", "working_radius"])]

    def mk_roll_vel(radius):
        def build(sup, vals):
            kw = {"nominal_radius": vals["R"]} if radius == "nr" else {"nominal_diameter": 2 * vals["R"]} if radius == "nd" else {}
            return pc.Roll(groove=_groove(pc), **kw, **sup), []
        return World(f"Roll/vel/{radius}", "Roll", "rollvel", vel_values, build,
                     lambda o: {n for n in ("nominal_radius", "nominal_diameter") if _given(o, n)}, vel_rules, vel_rel)
    W += [mk_roll_vel(r) for r in ("nr", "nd", "none")]

    def vel_values3(rng, aux=None):
        return vel_values(rng, aux, "3")

    def mk_passroll_vel(pass_vel, neutral, exit_point=False, kind=""):
        def build(sup, vals):
            rkw = {"nominal_radius": vals["R"]}
            ang = 0.0                                       # exit angle: exit_point = 0 by default ...
            pkw = {}
            if exit_point:                                  # ... unless the pass is given one: asin(exit_point / working radius)
                pkw["exit_point"] = vals["exit_point"]
                ang = math.asin(vals["exit_point"] / vals["wr"])
            aux = vals.get("@aux")
            if aux and aux["name"] == "exit_angle" and aux["mode"] in ("explicit", "hook"):
                ang = aux["value"]                          # ... or the roll is given its exit angle directly
            if neutral != "none":
                rkw[neutral] = vals[neutral]
                ang = vals["neutral_angle"]
            if pass_vel:
                pkw["velocity"] = vals["working_velocity"] * math.cos(ang)
            return mk_pass_roll(sup, vals, rkw, pkw, kind)

        def known(o):
            k = {n for n in ("nominal_radius", "nominal_diameter", "neutral_angle", "neutral_point") if _given(o, n)}
            if _given(o.roll_pass, "velocity"):
                k.add("roll_pass.velocity")
            return k
        rules = vel_rules + [("working_velocity", ["roll_pass.velocity", "working_radius"])]
        return World(f"PassRoll{kind}/vel/{'pv' if pass_vel else 'nopv'}/{neutral}" + ("/exit_point" if exit_point else ""),
                     "PassRoll", "rollvel", vel_values3 if kind else vel_values, build, known, rules, vel_rel)
    for kind in ("", "3"):
        W += [mk_passroll_vel(pv, ne, kind=kind) for pv in (False, True) for ne in ("none", "neutral_angle", "neutral_point")]
        W.append(mk_passroll_vel(True, "none", exit_point=True, kind=kind))     # a non-zero exit angle enters the pass-velocity direction

    # ---- neutral point / neutral angle -----------------------------------------------------------------------------------
    def neu_rel(obj, got):
        wr = _safe(lambda: float(obj.working_radius))
        if wr[0] == "V" and len(got) == 2:
            yield ("neutral_point=sin(neutral_angle)*working_radius", got["neutral_point"],
                   math.sin(got["neutral_angle"]) * wr[1])
    neu_rules = [("working_radius", ["nominal_radius"]), ("neutral_angle", ["neutral_point", "working_radius"]),
                 ("neutral_point", ["neutral_angle", "working_radius"])]
    for kind in ("", "3"):
        for radius in ("nr", "none"):
            W.append(World(f"PassRoll{kind}/neutral/{radius}", "PassRoll", "neutral", vel_values3 if kind else vel_values,
                           (lambda radius, kind: lambda sup, vals: mk_pass_roll(
                               sup, vals, {"nominal_radius": vals["R"]} if radius == "nr" else {}, None, kind))(radius, kind),
                           lambda o: {n for n in ("nominal_radius",) if _given(o, n)}, neu_rules, neu_rel))

    # ---- cooling pipe ------------------------------------------------------------------------------------------------------
    def pipe_values(rng, aux=None):
        r = _logu(rng, -4, 0)
        return {"inner_radius": r, "cross_section_area": math.pi * r ** 2}

    def pipe_rel(obj, got):
        if len(got) == 2:
            yield ("cross_section_area=pi*inner_radius^2", got["cross_section_area"], math.pi * got["inner_radius"] ** 2)
    W.append(World("CoolingPipe/pipe", "CoolingPipe", "pipe", pipe_values, lambda sup, vals: (pc.CoolingPipe(**sup), []),
                   lambda o: set(), [("inner_radius", ["cross_section_area"]), ("cross_section_area", ["inner_radius"])],
                   pipe_rel))

    # ---- target width / filling ratio / cross-section area / its filling ratio -------------------------------------------
    def mk_target(cls_name):
        def bare(vals=None, **sup):
            if cls_name == "TwoRollPass":
                return pc.TwoRollPass(roll=_tmpl(vals, pc.Roll, {"groove": _groove(pc)}, {"nominal_radius": 0.16}),
                                      gap=2e-3, **sup)
            g3 = pc.RoundGroove(r1=3e-3, r2=12.5e-3, depth=5e-3, pad_angle=30)
            return pc.ThreeRollPass(roll=_tmpl(vals, pc.Roll, {"groove": g3}, {"nominal_radius": 0.16}),
                                    inscribed_circle_diameter=22e-3, **sup)
        ocs = helpers.out_cross_section if cls_name == "TwoRollPass" else helpers.out_cross_section3

        def values(rng, aux=None):
            rp = bare()
            _apply_side(rp, aux)          # usable width / usable cross-section are read from a pass that carries the side value
            f = rng.uniform(0.6, 0.98)
            uw, ua = float(rp.usable_width), float(rp.usable_cross_section.area)
            tw = f * uw
            ta = float(ocs(rp, tw).area)
            return {"target_filling_ratio": f, "target_width": tw, "target_cross_section_area": ta,
                    "target_cross_section_filling_ratio": ta / ua}

        def rel(obj, got):
            uw, ua = float(obj.usable_width), float(obj.usable_cross_section.area)
            if "target_width" in got and "target_filling_ratio" in got:
                yield ("target_width=target_filling_ratio*usable_width", got["target_width"], got["target_filling_ratio"] * uw)
            if "target_cross_section_area" in got and "target_cross_section_filling_ratio" in got:
                yield ("target_cross_section_area=target_cross_section_filling_ratio*usable_area",
                       got["target_cross_section_area"], got["target_cross_section_filling_ratio"] * ua)
            # the width based pair determines the area based pair only when the latter is not given itself
            if "target_width" in got and "target_cross_section_area" in got and not (
                    obj.has_set("target_cross_section_area") or obj.has_set("target_cross_section_filling_ratio")):
                yield ("target_cross_section_area=area(out_cross_section(target_width))", got["target_cross_section_area"],
                       float(ocs(obj, got["target_width"]).area))
        rules = [("target_filling_ratio", []), ("target_width", ["target_filling_ratio"]),
                 ("target_filling_ratio", ["target_width"]),
                 ("target_cross_section_area", ["target_cross_section_filling_ratio"]),
                 ("target_cross_section_filling_ratio", ["target_cross_section_area"]),
                 ("target_cross_section_area", ["target_width"])]
        return World(f"{cls_name}/target", cls_name, "target", values, lambda sup, vals: (bare(vals, **sup), []),
                     lambda o: set(), rules, rel)
    W += [mk_target("TwoRollPass"), mk_target("ThreeRollPass")]
    # worlds that repeat a situation on the other concrete host class / with the rarely supplied member: plain scenario, forms,
    # histories and second objects in full; of their side-quantity scenarios the quick tier runs a random half per run
    second = {"ThreeRollPass/unit/norf", "ThreeRollPass/unit/rf/neutral_angle", "ThreeRollPass/unit/norf/neutral_point",
              "TwoRollPass/unit/norf/neutral_angle", "CoolingPipe/none/last", "CoolingPipe/vel/located"}
    for w in W:
        w.secondary = w.name in second or w.name.startswith("PassRoll3/")
    return W


# --------------------------------------------------------------------------------------------------------------
# model side: externals of a scenario, measured on a twin object
# --------------------------------------------------------------------------------------------------------------
def _real_class(pc, cname):
    obj = pc
    for part in CLASSES[cname][0].split("."):
        obj = getattr(obj, part)
    return obj


def _guard_atoms(g, out):
    if g[0] in ("not",):
        _guard_atoms(g[1], out)
    elif g[0] in ("and", "or"):
        _guard_atoms(g[1], out)
        _guard_atoms(g[2], out)
    elif g[0] in ("hasValue", "hasSet", "hasSetOrCached", "hasCached"):
        out.append(g)


def _paths(table, hooks):
    """external paths the table of a class refers to: ([value paths], [object prefixes], [(key, HookImpl) opaque])"""
    vals, objs, opaque = [], [], []
    for (_, i) in table:
        for (g, e, kind) in i.alts:
            atoms = []
            _guard_atoms(g, atoms)
            for a in atoms:
                if a[1] != "":
                    objs.append(a[1])
                    vals.append(a[1] + "." + a[2])
            if kind == "expr":
                for v in pyexpr.expr_vars(e):
                    if v not in hooks:
                        vals.append(v)
                        if "." in v:
                            objs.append(v.rsplit(".", 1)[0])
            elif kind.startswith("opaque"):
                opaque.append(("@" + i.host + "/" + i.fn, i))
    def uniq(xs):
        return list(dict.fromkeys(xs))
    return uniq(vals), uniq(objs), uniq(opaque)


def _kind(e):
    if isinstance(e, AttributeError):
        return "attr"
    if isinstance(e, IndexError):
        return "index"
    if isinstance(e, ValueError):
        return "value"
    return "other"


def _resolve(obj, path):
    """('V', value, owner, last) or ('E', exc)"""
    owner = None
    try:
        for part in path.split("."):
            owner, obj = obj, getattr(obj, part)
    except Exception as e:  # noqa - classification only
        return ("E", e)
    return ("V", obj, owner, path.split(".")[-1])


def _measure_ext(pc, cname, table, twin, real_funcs):
    """-> (ext list [(path, status)], env {name: float})"""
    hooks = CLASSES[cname][2]
    vals, objs, opaque = _paths(table, hooks)
    ext, env = [], {}
    for o in objs:
        r = _resolve(twin, o)
        if r[0] == "E":
            ext.append((o, "e" + _kind(r[1])[0]))
        elif r[1] is None:
            ext.append((o, "ea"))                      # any attribute access on None raises AttributeError
    # presence on the owner as it is NOW (before the measurement itself evaluates anything): explicitly set / cached by an
    # earlier read (a scenario may read a hook of a linked object first)
    presence = {}
    for p in vals:
        if "." in p:
            r = _safe(lambda: _owner(twin, p))
            if r[0] == "V" and hasattr(r[1][0], "has_set"):
                owner, last = r[1]
                presence[p] = "s" if owner.has_set(last) else "c" if owner.has_cached(last) else "a"
    for p in vals:
        r = _resolve(twin, p)
        if r[0] == "E":
            ext.append((p, "e" + _kind(r[1])[0]))
            continue
        _, v, owner, last = r
        is_set = hasattr(owner, "has_set") and _given(owner, last)
        ext.append((p, presence.get(p, "s" if is_set else "a")))
        try:
            env[p] = float(v)
        except (TypeError, ValueError):
            pass
    for (key, i) in opaque:
        hf = real_funcs.get((i.host, i.fn))
        if hf is None:
            continue
        try:
            v = hf.function(twin, **({"cycle": False} if i.wants_cycle else {}))
        except Exception as e:  # noqa - classification only
            ext.append((key, "e" + _kind(e)[0]))
            continue
        if v is None:
            ext.append((key, "n"))
        else:
            ext.append((key, "a"))
            env[key] = float(v)
    return ext, env


def _py_chain(table, mro, hook):
    out = []
    for t in (0, 1, 2):
        for h in mro:
            out += [(i.host, i.fn) for (_, i) in reversed(table) if i.hook == hook and i.host == h and i.tier == t]
    return out


# further REAL classes served by a model class: their resolution chains must be the model's too (a function registered on such a
# class only - e.g. on ThreeRollPass.Roll - would be outside every generated table)
ALSO_REAL = {"PassRoll": ["ThreeRollPass.Roll"]}


def _check_registration(ctx, pc, tables):
    """the chain the interpreter uses (tier, MRO, newest first over the generated table) against the real
    `Hook.functions` of the real class; returns {class: {(host, fn): HookFunction}}"""
    funcs = {}
    for cname, (_, mro, hooks) in CLASSES.items():
        cls = _real_class(pc, cname)
        funcs[cname] = {}
        for hook in hooks:
            h = getattr(cls, hook, None)
            if h is None or not hasattr(h, "functions"):
                ctx.tie_breaks.append(f"registration: {cname} has no hook {hook}")
                continue
            real = [(f.hook.owner.__qualname__, f.name) for f in h.functions]
            for f in h.functions:
                funcs[cname][(f.hook.owner.__qualname__, f.name)] = f
                if f.wrapper:
                    ctx.tie_breaks.append(f"registration: wrapper {f.name} on {cname}.{hook} (wrappers are not modelled)")
            model = _py_chain(tables[cname], mro, hook)
            if real != model:
                ctx.tie_breaks.append(f"registration: resolution chain of {cname}.{hook} is {real}, the generated table "
                                      f"gives {model}")
            for path in ALSO_REAL.get(cname, []):
                cls2 = pc
                for part in path.split("."):
                    cls2 = getattr(cls2, part)
                h2 = getattr(cls2, hook, None)
                real2 = [(f.hook.owner.__qualname__, f.name) for f in h2.functions] if h2 is not None and hasattr(h2, "functions") else None
                if real2 != model:
                    ctx.tie_breaks.append(f"registration: resolution chain of {path}.{hook} is {real2}, the generated table of "
                                          f"{cname} gives {model}")
    return funcs


# --------------------------------------------------------------------------------------------------------------
# one scenario on the real object
# --------------------------------------------------------------------------------------------------------------
_RECURSION = []      # RecursionErrors converted to AttributeError inside Hook.__get__ during the current read
_CALLS = {"obj": None, "funcs": (), "n": 0}   # invocations of the table's hook functions on the instance under test


class _watch_recursion:
    """`Hook.__get__` turns a RecursionError into an AttributeError, which an enclosing `has_value` then swallows: the
    caller only sees a (slow) AttributeError.  While the harness runs, the conversion is recorded (restored on exit)."""

    def __enter__(self):
        from pyroll.core import hooks
        self.hooks, self.orig = hooks, hooks.Hook.__get__
        orig = self.orig

        def watched(hook, instance, owner):
            try:
                return orig(hook, instance, owner)
            except AttributeError as e:
                if isinstance(e.__cause__, RecursionError) and not _RECURSION:
                    _RECURSION.append(hook.name)
                raise
        hooks.Hook.__get__ = watched
        self.orig_call = hooks.HookFunction.__call__
        orig_call = self.orig_call

        def counted(hf, instance):
            if instance is _CALLS["obj"] and hf in _CALLS["funcs"]:
                _CALLS["n"] += 1
            return orig_call(hf, instance)
        hooks.HookFunction.__call__ = counted
        return self

    def __exit__(self, *a):
        self.hooks.Hook.__get__ = self.orig
        self.hooks.HookFunction.__call__ = self.orig_call
        _CALLS["obj"] = None


def _read(obj, name):
    del _RECURSION[:]
    t0 = time.perf_counter()
    try:
        v = _getpath(obj, name)
        dt = time.perf_counter() - t0
        if _RECURSION:
            return ("E", "value-after-RecursionError", dt, f"RecursionError inside the evaluation of {_RECURSION[0]} "
                                                           f"(swallowed), value {v}")
        return ("V", float(v), dt, None)
    except BaseException as e:  # noqa - everything the implementation raises is an observation
        if isinstance(e, (KeyboardInterrupt, SystemExit)):
            raise
        dt = time.perf_counter() - t0
        rec, c = bool(_RECURSION), e
        for _ in range(50):
            if c is None:
                break
            rec = rec or isinstance(c, RecursionError)
            c = c.__cause__ or c.__context__
        return ("E", _kind(e) + ("(RecursionError)" if rec else ""), dt, f"{type(e).__name__}: {str(e)[:120]}")


def _pre_reads(vals):
    aux = vals.get("@aux")
    return [aux["name"]] if aux and aux["mode"] == "read-first" else []


def _run_real(world, sup_names, order, vals, funcs):
    """reads: the side quantity of a "read-first" scenario first, then the members in `order`"""
    sup = {m: vals[m] for m in sup_names}
    _LAST_TMPL.clear()
    obj, keep = world.build(sup, vals)
    keep = keep + [dict(_LAST_TMPL)]          # what the template of this object went through (template-history scenarios)
    _CALLS["obj"], _CALLS["funcs"] = obj, set(funcs.values())
    reads = []
    for m in _pre_reads(vals) + list(order):
        _CALLS["n"] = 0
        r = _read(obj, m)
        reads.append((m,) + r[:3] + (r[3] if r[3] is not None else "", _CALLS["n"]))
    _CALLS["obj"] = None
    hooks = CLASSES[world.cls][2]
    cache = sorted(n for n in obj.__cache__ if n in hooks)
    active = sorted(f.name for f in funcs.values() if id(obj) in f._active_instances)
    return obj, keep, reads, cache, active


def _closure(known, rules):
    known = set(known)
    changed = True
    while changed:
        changed = False
        for (t, src) in rules:
            if t not in known and all(s in known for s in src):
                known.add(t)
                changed = True
    return known


def _close(a, b, rtol=RTOL):
    return abs(a - b) <= rtol * max(abs(a), abs(b)) + 1e-300


def _case_replay(world, sup_names, order, vals):
    rp = {"world": world.name, "class": "ThreeRollPass.Roll" if world.name.startswith("PassRoll3/") else CLASSES[world.cls][0], "supplied": {m: vals[m] for m in sup_names},
          "read_order": list(order),
          "values": {k: ({a: b for a, b in v.items() if a not in ("ops", "probe", "assigned")} if k in ("@hist", "@form") else v)
                     for k, v in vals.items()},
          "how": "driver.props.c16: w = [w for w in _worlds() if w.name == world][0]; obj, keep = w.build(supplied, values); "
                 "[getattr(obj, m) for m in read_order]"}
    aux = vals.get("@aux")
    if aux:
        rp["side_quantity"] = {
            "explicit": f"{aux['name']}={aux['value']} is given explicitly on the object (obj.{aux['name']} = value)",
            "hook": f"{aux['name']}={aux['value']} is provided by a hook function of a subclass of the object's class",
            "read-first": f"{aux['name']} is read on the object before the members (getattr, exceptions ignored)",
            "none": f"{aux['name']} is given explicitly as None (obj.{aux['name']} = None, as by a constructor keyword "
                    f"{aux['name'].split('.')[-1]}=None): by Hook.__get__ that is 'not supplied'",
        }[aux["mode"]]
        rp["how"] += "  -- w.build puts values['@aux'] on the object; a 'read-first' quantity is read before read_order"
    form = vals.get("@form")
    if form:
        rp["supplied_as"] = (f"{form['name']}" + (" (a form of its own for every entry, drawn from seed)" if form["name"] == "mixed" else "")
                             + {"members": ": the supplied members are given in this form instead of as numbers",
                                "all": ": every float valued explicit hook entry of the object and of the hook hosts linked to "
                                       "it (roll, roll_pass, in_profile) is given in this form instead of as a number"}[form["scope"]])
        rp["supplied_as_each"] = dict(form.get("assigned", {}))
        rp["how"] += "  -- w.build replaces the numbers by callables (driver.props.c16.FORMS[name][1](value, hook name))"
    hist = vals.get("@hist")
    if hist:
        rp["history"] = {"site": hist["site"], "mode": hist["mode"], "ops": hist.get("ops", [])}
        rp["how"] += ("  -- w.build lets every template object (the Roll handed to the pass, the profile handed on) go through "
                      "values['@hist'] before the copy site sees it" if hist["site"] == "template" else
                      "  -- w.build builds a SECOND object from the same source (values['@hist']: mode, the other values, what it is "
                      "supplied with) and reads it before the first one is read" if hist["site"] == "sibling" else
                      "  -- w.build deep-copies the object as values['@hist'] says")
    return rp


def _side_tag(vals):
    if vals.get("@form"):
        return "/callable"
    if vals.get("@hist"):
        return {"template": "/template-history", "sibling": "/shared-source"}.get(vals["@hist"]["site"], "/copied")
    aux = vals.get("@aux")
    return "" if not aux else {"read-first": "/side-read", "none": "/given-none"}.get(aux["mode"], "/side-value")


def _plain_vals(vals):
    """the values of the plain scenario a variant is compared with"""
    return {k: v for k, v in vals.items() if k not in ("@aux", "@form", "@hist")}


def _scenario(ctx, world, vals, funcs, tables, lines, pending, only=None, n_orders=None, record=None, reference=None):
    """all subsets x all orders (`n_orders`: that many random ones per subset) of one world for one assignment of values;
    oracle immediately, model lines queued.  `record`: {subset: {member: (kind, value)}} is filled; `reference`: such a
    record of the same values WITHOUT the read-first side quantity, which the members must reproduce."""
    pc = _core()
    members = world.members
    hooks = CLASSES[world.cls][2]
    aux = vals.get("@aux")
    form, hist = vals.get("@form"), vals.get("@hist")
    tag = _side_tag(vals)
    pre = _pre_reads(vals)
    side = "" if not aux else f" [{aux['name']}" + {"read-first": " read first]", "none": " given as None]"}.get(
        aux["mode"], f"={aux['value']} {aux['mode']}]")
    if form:
        side = f" [{'supplied members' if form['scope'] == 'members' else 'all explicit values'} given as {form['name']}]"
    if hist:
        side = {"template": f" [built from a template with a history ({hist['mode']})]",
                "deepcopy": {"fresh": " [deep copy of the never-read object]", "read": " [deep copy of the object after reads]",
                             "isolated": " [original, after a deep copy of it was re-supplied and read]"}.get(hist["mode"], ""),
                "sibling": " [after a second object was built from " + ("the same template" if hist["mode"] == "same-template" else
                                                                         "what this object's copy site made of its template")
                           + f" with other values ({', '.join(sorted(hist.get('other_sup', []))) or 'nothing'} supplied) and read]",
                }[hist["site"]]
    variant = ([aux["name"], aux["mode"]] if aux else []) + ([form["name"], form["scope"], form.get("seed")] if form else []) \
        + ([hist["site"], hist["mode"], hist["seed"]] if hist else [])
    linked = bool(aux) and "." in aux["name"]
    ext_paths = _paths(tables[world.cls], hooks)[0]
    # the interpreter knows the class tables of ONE instance only: a hook function of a subclass on a modelled hook, the
    # read of a quantity outside the tables and a None on a linked object are run on the implementation alone
    use_model0 = ctx.model_available and not (aux and (
        (aux["mode"] == "hook" and aux["name"] in hooks)
        or (aux["mode"] == "read-first" and aux["name"] not in hooks and aux["name"] not in ext_paths)
        or (aux["mode"] == "none" and linked)))
    # a deep copy of an object that has been read is not a fresh object (its cache is copied): implementation only
    use_model0 = use_model0 and not (hist and hist["site"] == "deepcopy" and hist["mode"] == "read")
    use_model0 = use_model0 and not (hist and hist["site"] == "sibling" and hist.get("read_first"))
    all_orders = list(itertools.permutations(members))
    for k in range(len(members) + 1):
        for sup_names in itertools.combinations(members, k):
            if only is not None and list(sup_names) != only[0]:
                continue
            if aux and aux["mode"] == "none" and aux["name"] in sup_names:
                continue                      # a member is either supplied or given as None
            sup = {m: vals[m] for m in sup_names}
            twin, keep_t = world.build(sup, vals)
            use_model = use_model0
            if linked and aux["mode"] == "read-first":
                # the externals' presence (cached on the linked object or not) is measured AFTER the first read; the
                # interpreter can follow when that read touched nothing on the instance under test itself
                _CALLS["obj"], _CALLS["funcs"], _CALLS["n"] = twin, set(funcs[world.cls].values()), 0
                _safe(lambda: _getpath(twin, aux["name"]))
                _CALLS["obj"] = None
                use_model = use_model and _CALLS["n"] == 0 and not any(n in hooks for n in twin.__cache__)
            pre_set = [h for h in hooks if _given(twin, h)]
            none_set = [h for h in hooks if twin.has_set(h) and not _given(twin, h)]
            known = set(pre_set) | world.known(twin, aux)
            expect = _closure(known, world.rules)
            ext = env = None
            if use_model:
                ext, env = _measure_ext(pc, world.cls, tables[world.cls], twin, funcs[world.cls])
                for h in pre_set:
                    v = _number(twin, h)              # (a callable stands for the number it returns)
                    if v is not None:
                        env[h] = v
            calls = [(h, twin.__dict__["_c16_forms"][h][0]) for h in pre_set
                     if callable(twin.__dict__[h]) and h in twin.__dict__.get("_c16_forms", {})]
            if only is not None:
                orders = [tuple(o) for o in only[1]]
            elif n_orders is not None and n_orders < len(all_orders):
                orders = ctx.rng.sample(all_orders, n_orders)
            else:
                orders = all_orders
            per_member = {m: [] for m in members}
            first_got = None
            for order in orders:
                obj, keep, reads_all, cache, active = _run_real(world, sup_names, order, vals, funcs[world.cls])
                reads = reads_all[len(pre):]
                got = {m: v for (m, k_, v, dt, msg, nc) in reads if k_ == "V"}
                derived = [m for m in got if m not in sup_names]
                ctx.case([world.name, list(sup_names), list(order)] + variant,
                         nontrivial=bool(derived) and len(sup_names) < len(members))
                ctx.count("group:" + world.group)
                ctx.count(f"supplied:{len(sup_names)}/{len(members)}")
                if aux:
                    ctx.count("side:" + aux["mode"])
                if form:
                    ctx.count("form:" + form["name"] + "/" + form["scope"])
                if hist:
                    ctx.count("history:" + hist["site"] + "/" + hist["mode"])
                rp = _case_replay(world, sup_names, order, vals)
                for (m, k_, v, dt, msg, nc) in reads:
                    per_member[m].append((order, k_, v))
                    if k_ == "E":
                        ctx.count("fail:" + v)
                        if v != "attr":
                            ctx.violation(f"{world.group}:wrong-error{tag}", f"{world.name}{side}: reading {m} with "
                                          f"{sorted(sup_names) or 'nothing'} supplied raises {msg} instead of AttributeError", rp)
                        if dt > SLOW and min(r2[3] for r2 in _run_real(world, sup_names, order, vals, funcs[world.cls])[2]
                                             if r2[0] == m) > SLOW:      # confirmed on a second fresh object (machine load)
                            ctx.violation(f"{world.group}:slow-failure{tag}", f"{world.name}{side}: failing read of {m} took {dt:.2f}s", rp)
                        if m in expect and v == "attr":
                            ctx.violation(f"{world.group}:underivable{tag}", f"{world.name}{side}: {m} follows from "
                                          f"{sorted(known)} but reading it (order {list(order)}) raises {msg}", rp)
                    else:
                        if m in sup_names and v != vals[m]:
                            ctx.violation(f"{world.group}:supplied-changed{tag}", f"{world.name}{side}: supplied {m}={vals[m]} reads {v}", rp)
                        if m not in expect:
                            ctx.violation(f"{world.group}:invented{tag}", f"{world.name}{side}: {m} reads {v} although only "
                                          f"{sorted(known)} is known", rp)
                try:
                    rels = list(world.relations(obj, got))
                except Exception as e:  # noqa - only what the implementation raises is an observation
                    from ..core import _raised_in_impl
                    if not _raised_in_impl(e):
                        raise
                    # the relations are evaluated with the quantities AS THE OBJECT REPORTS THEM (working radius, usable width,
                    # usable cross-section, the roll's velocities): on an object whose members could be read they must be readable
                    ctx.violation(f"{world.group}:relation-unreadable{tag}", f"{world.name}{side}: with "
                                  f"{sorted(sup_names) or 'nothing'} supplied (order {list(order)}) the members read {got}, but a "
                                  f"quantity their defining relation refers to cannot be read: {type(e).__name__}: {str(e)[:160]}", rp)
                    rels = []
                for (rel, lhs, rhs) in rels:
                    if not _close(lhs, rhs):
                        ctx.violation(f"{world.group}:inconsistent{tag}", f"{world.name}{side}: with "
                                      f"{sorted(sup_names) or 'nothing'} supplied (order {list(order)}): {rel} fails: "
                                      f"{lhs} vs {rhs}", rp)
                if active:
                    ctx.violation(f"{world.group}:marks-left{tag}", f"{world.name}{side}: re-entrancy marks left on {active}", rp)
                if first_got is None:
                    first_got = (got, obj, keep, order)
                if use_model:
                    set_names = pre_set
                    env_l, extra, more = dict(env), None, ""
                    tm = keep[-1]
                    if hist and hist["site"] == "template" and hist.get("model") and tm and tm["what"] == "Roll" \
                            and world.cls == "PassRoll":
                        # the template's history runs in the interpreter too (class Roll), the copy site is the generated one
                        text, tenv = _measure_ext(pc, "Roll", tables["Roll"], tm["obj"], funcs["Roll"])
                        tenv.update(tm["initial"])
                        if hist["mode"] != "read":
                            env_l.update({n + "@old": x for n, x in tm["initial"].items()})
                        more = " tmpl=Roll text=%s tset=%s hist=%s tenv=%s" % (
                            ",".join(f"{p}/{s}" for (p, s) in text) or "-", ",".join(tm["initial_names"]) or "-",
                            ",".join(f"{k}:{n}" for (k, n) in tm["ops"]) or "-",
                            ",".join(f"{n}={stub.bits(x)}" for n, x in tenv.items()) or "-")
                        extra = {"treads": [(n, r[0], (float(r[1]) if r[0] == "V" else _kind(r[1]))) for (n, r) in tm["reads"]],
                                 "set": sorted(n for n in obj.__dict__ if not n.startswith("_") and n in hooks)}
                    lines.append("run %s ext=%s set=%s order=%s env=%s fuel=%d none=%s call=%s%s" % (
                        world.cls, ",".join(f"{p}/{s}" for (p, s) in ext) or "-", ",".join(set_names) or "-",
                        ",".join(pre + list(order)), ",".join(f"{n}={stub.bits(x)}" for n, x in env_l.items()) or "-", FUEL,
                        ",".join(none_set) or "-", ",".join(f"{n}:{k}" for (n, k) in calls) or "-", more))
                    pending.append((rp, reads_all, cache, extra))
            # order independence
            for m in members:
                obs = per_member[m]
                if not obs:
                    continue
                o0, k0, v0 = obs[0]
                for (o, k_, v) in obs[1:]:
                    same = (k_ == k0) and (v == v0 if k_ == "E" else _close(v, v0))
                    if not same:
                        ctx.violation(f"{world.group}:order-dependent{tag}", f"{world.name}{side}: with {sorted(sup_names) or 'nothing'} "
                                      f"supplied {m} reads {v0 if k0 == 'V' else 'Error(' + v0 + ')'} in order {list(o0)} but "
                                      f"{v if k_ == 'V' else 'Error(' + v + ')'} in order {list(o)}",
                                      dict(_case_replay(world, sup_names, o, vals), reference_order=list(o0)))
                        break
                if record is not None:
                    record.setdefault(tuple(sup_names), {})[m] = (o0, k0, v0)
                # reading another quantity of the object first does not change what a member reads
                # ... nor does a hook given as None (= not supplied)
                ref = (reference or {}).get(tuple(sup_names), {}).get(m)
                if ref is not None:
                    for (o, k_, v) in obs:
                        if not ((k_ == ref[1]) and (v == ref[2] if k_ == "E" else _close(v, ref[2]))):
                            kind, unless = (
                                ("form-dependent", "the same values are supplied as plain numbers") if form else
                                ("history-dependent", "the object is built from a template that was created with these "
                                                      "explicit values and never touched") if hist and hist["site"] == "template" else
                                ("sibling-dependent", "no second object is built from the same source") if hist and hist["site"] == "sibling" else
                                ("copy-differs", "the object is built directly with these explicit values") if hist else
                                ("none-is-not-absent", f"{aux['name']} is not mentioned at all") if aux["mode"] == "none" else
                                ("order-dependent", f"{aux['name']} has not been read before"))
                            ctx.violation(f"{world.group}:{kind}{tag}",
                                          f"{world.name}{side}: with "
                                          f"{sorted(sup_names) or 'nothing'} supplied {m} reads "
                                          f"{v if k_ == 'V' else 'Error(' + v + ')'} in order {list(o)}, but "
                                          f"{ref[2] if ref[1] == 'V' else 'Error(' + ref[2] + ')'} (order {list(ref[0])}) when "
                                          + unless,
                                          dict(_case_replay(world, sup_names, o, vals), reference_order=list(ref[0]),
                                               reference_without_side_read=True))
                            break
            # round trip: a derived value supplied to a fresh object reproduces the original
            if first_got is not None and only is None:
                got = first_got[0]
                base_known = set(h for h in pre_set if h not in sup_names) | world.known(twin, aux)
                for m in members:
                    if m in sup_names or m not in got:
                        continue
                    # only along documented directions in which `m` is essential: s is derivable from m, not without it
                    back = _closure(base_known | {m}, world.rules) - _closure(base_known, world.rules)
                    vals2 = dict(vals)
                    vals2[m] = got[m]
                    obj2, keep2 = world.build({m: got[m]}, vals2)
                    for s_ in sup_names:
                        if s_ not in back:
                            continue
                        r = _read(obj2, s_)
                        if r[0] == "V" and not _close(r[1], vals[s_]):
                            ctx.violation(f"{world.group}:roundtrip{tag}", f"{world.name}{side}: {m}={got[m]} was derived from "
                                          f"{s_}={vals[s_]}; a fresh object given {m} reads {s_}={r[1]}",
                                          dict(_case_replay(world, sup_names, first_got[3], vals),
                                               roundtrip={"derived": m, "back": s_},
                                               how_roundtrip=f"x = obj.{m} after the reads; obj2, keep2 = w.build({{'{m}': x}}, "
                                                             f"dict(values, {m}=x)); obj2.{s_} must equal values['{s_}']"))
                        ctx.count("roundtrip")
            # ... also when the way back leads over a linked object (pass velocity -> roll of a fresh pass)
            if first_got is not None and world.cross is not None:
                got = first_got[0]
                for (m, back_name, observed, orig) in world.cross(got, sup_names, vals):
                    if not _close(observed, orig):
                        ctx.violation(f"{world.group}:roundtrip{tag}", f"{world.name}{side}: {m}={got[m]} was derived "
                                      f"from {back_name}={orig}; a fresh object given {m} reads {back_name}={observed}",
                                      dict(_case_replay(world, sup_names, first_got[3], vals),
                                           cross_roundtrip={"derived": m, "back": back_name}))
                    ctx.count("roundtrip-linked")
            if len(ctx.samples) < 3 and first_got is not None and sup_names and len(sup_names) < len(members):
                ctx.sample({"world": world.name, "supplied": sup, "read": first_got[0]})


def _compare(ctx, lines, pending):
    out = ctx.lean_model(MODEL, lines)
    if len(out) != len(lines):
        ctx.disagreement(f"model driver answered {len(out)} lines for {len(lines)} scenarios", {"first": lines[:2]})
        return
    mx_steps = mx_depth = 0
    for line, ans, (rp, reads, cache, extra) in zip(lines, out, pending):
        parts = ans.split("|")
        if len(parts) != (5 if extra else 3):
            ctx.disagreement(f"model driver: {ans[:80]}", {"line": line, **rp})
            continue
        mreads = [r for r in parts[0].split(";") if r]
        ok = len(mreads) == len(reads)
        why = ""
        for mr, (m, k_, v, dt, msg, nc) in zip(mreads, reads):
            name, rest = mr.split("=", 1)
            res, steps, depth, calls = rest.rsplit(":", 3)
            if int(calls) != nc and ok:
                ok, why = False, f"{m}: the model invokes {calls} hook functions, the implementation {nc}"
            mx_steps, mx_depth = max(mx_steps, int(steps)), max(mx_depth, int(depth))
            if res.startswith("V"):
                mv = stub.unbits(res[1:])
                if not (k_ == "V" and stub.close(mv, v, rtol=1e-10)):
                    ok, why = False, f"{m}: model {mv}, implementation {v if k_ == 'V' else msg}"
            else:
                if not (k_ == "E" and res == "E" + v.split("(")[0]):
                    ok, why = False, f"{m}: model {res}, implementation {v if k_ == 'V' else msg}"
        mcache = sorted(x for x in parts[1][len("cache="):].split(",") if x)
        if ok and mcache != cache:
            ok, why = False, f"names in __cache__: model {mcache}, implementation {cache}"
        if ok and parts[2] != "active=":
            ok, why = False, f"model leaves marks {parts[2]}"
        if ok and extra:
            # the object was built from a template with a history: the names the model's copy site puts into the copy's
            # `__dict__` and what the history's reads gave on the template
            mset = sorted(x for x in parts[3][len("set="):].split(",") if x)
            if mset != extra["set"]:
                ok, why = False, f"explicit names of the copy: model {mset}, implementation {extra['set']}"
            mt = [r for r in parts[4][len("treads="):].split(";") if r]
            if ok and len(mt) != len(extra["treads"]):
                ok, why = False, f"template history: model {len(mt)} reads, implementation {len(extra['treads'])}"
            for mr, (n, k_, v) in zip(mt, extra["treads"]):
                if not ok:
                    break
                res = mr.split("=", 1)[1].rsplit(":", 3)[0]
                if res.startswith("V"):
                    if not (k_ == "V" and stub.close(stub.unbits(res[1:]), v, rtol=1e-10)):
                        ok, why = False, f"template read {n}: model {stub.unbits(res[1:])}, implementation {v}"
                elif not (k_ == "E" and res == "E" + v):
                    ok, why = False, f"template read {n}: model {res}, implementation {v}"
        if ok:
            ctx.validated()
        else:
            ctx.disagreement(f"{rp['world']} supplied={sorted(rp['supplied'])} order={rp['read_order']}: {why}",
                             {"line": line, "model": ans, **rp})
    ctx.notes["model_max_steps_per_read"] = max(mx_steps, ctx.notes.get("model_max_steps_per_read", 0))
    ctx.notes["model_max_stack_depth"] = max(mx_depth, ctx.notes.get("model_max_stack_depth", 0))


def _linked_instances(ctx):
    """two instances of one class inside the same evaluation: roll A takes its surface velocity from roll B (an explicit
    value may be a callable), and B has to derive it through the very functions that are executing on A.  The
    re-entrancy marks are per (function, instance), so B's evaluation must not be cut short by A's marks."""
    pc = _core()
    for i in range(ctx.budget(6, 60)):
        R, rf = ctx.rng.uniform(0.05, 0.5), _logu(ctx.rng)
        g = _groove(pc)
        gf = g.groove_factor
        wv = rf * (R - gf) * 2 * math.pi
        b = pc.Roll(groove=g, nominal_radius=R, working_velocity=wv)
        a = pc.Roll(groove=_groove(pc), nominal_radius=R, surface_velocity=lambda self: b.surface_velocity)
        order = list(ctx.rng.sample(GROUPS["rollvel"], 3))
        ctx.case(["linked-rolls", order])
        ctx.count("group:rollvel-linked")
        exp = {"rotational_frequency": rf, "surface_velocity": rf * R * 2 * math.pi, "working_velocity": wv}
        rp = {"world": "linked-rolls", "R": R, "working_velocity_of_b": wv, "read_order": order,
              "how": "b = Roll(groove=g, nominal_radius=R, working_velocity=wv); a = Roll(groove=g, nominal_radius=R, "
                     "surface_velocity=lambda self: b.surface_velocity); [getattr(a, m) for m in read_order]"}
        for m in order:
            r = _read(a, m)
            if r[0] != "V" or not _close(r[1], exp[m]):
                ctx.violation("rollvel:linked-instances", f"roll a (surface velocity taken from roll b): {m} reads "
                              f"{r[1] if r[0] == 'V' else r[3]}, expected {exp[m]}", rp)
                break


def _side_variants(ctx, world, vals, seed, plain, tables):
    """the scenarios of one world that carry a side quantity: [(values, orders per subset or None = all, reference)]

    * every float valued quantity of the object that is not a group member (found on the object itself, not listed by
      hand) x {given explicitly, provided by a subclass hook}: value = its default x a random factor in
      [1/1.4, 1/1.08] u [1.08, 1.4] (a zero default is left alone), members re-drawn consistently with it;
    * every such quantity and every other modelled hook of the class read BEFORE the members (values as in the plain run,
      whose results the members must reproduce)."""
    out = []
    cands = _side_candidates(world, vals)
    few = len(world.members) <= 2
    for (name, default) in cands:
        if default == 0.0:
            continue
        f = ctx.rng.uniform(1.08, 1.4)
        value = default * (f if ctx.rng.random() < 0.5 else 1.0 / f)
        for mode in ("explicit", "hook"):
            aux = {"name": name, "value": value, "mode": mode}
            v2 = world.values(random.Random(seed), aux)
            v2["@aux"] = aux
            out.append((v2, None if (few or (mode == "explicit" and ctx.tier != "quick")) else 2, None))
    first = [h for h in CLASSES[world.cls][2] if h not in world.members] + [n for (n, _) in cands]
    # ... and the hooks of the LINKED objects the implementations look at (the roll of a pass, the pass of a roll, the
    # in-profile): what has been read (and cached) THERE before must not change what the members read
    linked = _linked_candidates(world, vals, tables)
    for name in dict.fromkeys(first + linked):
        v2 = dict(vals)
        v2["@aux"] = {"name": name, "value": None, "mode": "read-first"}
        out.append((v2, None if few else 1, plain))
    # a hook given explicitly as None (`Roll(..., working_velocity=None)`, the core's own way of saying "not supplied":
    # `Hook.__get__` skips a None in `__dict__`): every hook of the object (members, other modelled hooks, side quantities)
    # and of the linked objects, one at a time, except the names the core tests for presence (`_presence_tested`)
    skip = _presence_tested()
    bare, keep = world.build({}, vals)
    for name in dict.fromkeys(list(world.members) + first + linked):
        if name.split(".")[-1] in skip:
            continue
        o = _safe(lambda: _owner(bare, name))
        if o[0] != "V" or o[1][0].has_set(o[1][1]):
            continue                          # part of the world's own configuration (the pass roll's neutral point, ...)
        v2 = dict(vals)
        v2["@aux"] = {"name": name, "value": None, "mode": "none"}
        # (a None member shows in few orders only - typically when it is the first one read: all orders)
        out.append((v2, (None if len(world.members) <= 3 else 6) if name in world.members else 1, plain))
    return out



_FORM_CYCLE = []
_HIST_NAMES = {}


def _form_variants(ctx, world, vals, plain):
    """the scenarios of one world in which values are supplied as callables: [(values, orders per subset, reference)].
    Two (thorough tier: three, per repetition) forms per world for the supplied members - the forms are dealt round robin over
    the worlds, so every form is used on several worlds of every run -, one "all explicit values" scenario in one form and
    one with a form of its own for every entry."""
    picked = []
    for _ in range(2 if ctx.tier == "quick" else 3):
        if not _FORM_CYCLE:
            _FORM_CYCLE.extend(ctx.rng.sample(sorted(FORMS), len(FORMS)))
        picked.append(_FORM_CYCLE.pop())
    few = len(world.members) <= 2
    out = []
    for name in picked:
        v2 = dict(vals)
        v2["@form"] = {"name": name, "scope": "members", "seed": 0}
        out.append((v2, None if few else 1, plain))
    for name in (ctx.rng.choice(sorted(FORMS)), "mixed"):
        v2 = dict(vals)
        v2["@form"] = {"name": name, "scope": "all", "seed": ctx.rng.getrandbits(32)}
        out.append((v2, None if few else 1, plain))
    return out


def _history_names(world, vals):
    """per template kind of the world ({what: ([names to read / supply], {name: another value})}) - found by a probe build - and
    the names to read on the object itself before a deep copy"""
    if world.name not in _HIST_NAMES:
        probe = []
        v2 = dict(vals)
        v2["@hist"] = {"site": "template", "probe": probe}
        obj, keep = world.build({m: vals[m] for m in world.members}, v2)
        modelled = ALL_MEMBERS | {h for c in CLASSES.values() for h in c[2]}
        per = {}
        for (what, t, kw) in probe:
            names, alt = [], {}
            for n in _hook_names(t):
                r = _safe(lambda: getattr(t, n))
                if n in modelled or n in kw or _is_float(r):
                    names.append(n)
                    x = vals.get(n) if isinstance(vals.get(n), float) else (float(r[1]) if _is_float(r) else None)
                    if x:
                        alt[n] = x
            per[what] = (names, alt)
        own = [n for n in _hook_names(obj) if n in modelled or _is_float(_safe(lambda: getattr(obj, n)))]
        _HIST_NAMES[world.name] = (per, own)
    return _HIST_NAMES[world.name]


def _history_variants(ctx, world, vals, plain):
    """the scenarios of one world whose object has a HISTORY: built from a template that was read / edited before (every
    template kind the builder uses), or a deep copy"""
    per, own = _history_names(world, vals)
    few = len(world.members) <= 2
    out = []
    for what, (names, alt) in per.items():
        model_names = [n for n in names if n in CLASSES["PassRoll"][2]]
        for (mode, restricted) in (("read-edit", True), ("read-edit", False), ("read", False)):
            use = model_names if (restricted and what == "Roll" and model_names) else names
            if not use:
                continue
            f = ctx.rng.uniform(1.15, 1.6)
            v2 = dict(vals)
            v2["@hist"] = {"site": "template", "seed": ctx.rng.getrandbits(32), "names": use, "mode": mode,
                           "alt": {n: alt[n] * (f if ctx.rng.random() < 0.5 else 1 / f) for n in use if n in alt},
                           "model": use is model_names, "via_solve": ctx.rng.random() < 0.5}
            out.append((v2, None if few else 1, plain))
    probe_obj, keep = world.build({}, vals)
    if _copy_of(probe_obj, keep) is not None and own:
        for mode in ("fresh", "read", "isolated"):
            if not ctx.extended and mode != "read" and ctx.rng.random() < 0.5:
                continue
            v2 = dict(vals)
            v2["@hist"] = {"site": "deepcopy", "seed": ctx.rng.getrandbits(32), "names": own, "mode": mode}
            out.append((v2, None if few else 1, plain))
    return out


def _sibling_variants(ctx, world, vals, plain):
    """the scenarios of one world in which a SECOND object is built from the source of the object under test (see `_SIB`): for
    every world whose builder hands a template to a copy site, the second object built from the same template and from the
    first object's product, supplied with other values (a random non-empty subset of the members, values of another draw)"""
    per, own = _history_names(world, vals)
    if not per:
        return []
    few = len(world.members) <= 2
    out = []
    for mode in ("product", "same-template"):
        other = world.values(random.Random(ctx.rng.getrandbits(48)), None)
        other = {k: v for k, v in other.items() if isinstance(v, float)}
        k = ctx.rng.randint(1, len(world.members))
        v2 = dict(vals)
        v2["@hist"] = {"site": "sibling", "mode": mode, "seed": ctx.rng.getrandbits(32), "other": other,
                       "other_sup": sorted(ctx.rng.sample(list(world.members), k), key=world.members.index),
                       "names": own, "read_first": bool(own) and ctx.rng.random() < 0.3}
        out.append((v2, None if few else 1, plain))
    return out


def _check_copy_sites(ctx, pc):
    """(K for the generated `copy_*`) the explicit names a copy site puts into the fresh object, predicted from the generated
    sources, against the real sites - on a template that carries explicit values, a cached value and a re-supplied one"""
    found = ctx.notes.get("hook_system") or c16_template.lean_text(gen.REPO)[2]

    def predict(srcs, t):
        d = {}
        for s_ in srcs:
            if s_ == "dict":
                d.update({k: "dict" for k in t.__dict__ if not k.startswith("_")})
            elif s_ == "cache":
                d.update({k: "cache" for k in t.__cache__})
            else:
                return None
        return d
    g = _groove(pc)
    t = pc.Roll(groove=g, nominal_radius=0.2, rotational_frequency=1.0)
    for n in ("nominal_diameter", "surface_velocity", "working_velocity", "working_radius"):
        getattr(t, n)
    t.surface_velocity = 3.0
    rp = pc.TwoRollPass(roll=t, gap=2e-3)
    p = pc.Profile.round(radius=0.01, velocity=1.0)
    for n in _hook_names(p):
        _safe(lambda: getattr(p, n))
    u = pc.Transport(duration=1.0)
    ip = pc.Transport.InProfile(u, p)
    for (name, tmpl_obj, cp) in (("copy_PassRoll", t, rp.roll), ("copy_UnitProfile", p, ip)):
        want = predict(found.get(name, ["?"]), tmpl_obj)
        got = sorted(k for k in cp.__dict__ if not k.startswith("_"))
        if want is None:
            continue                                   # reported as a translator gap already
        if sorted(want) != got:
            ctx.disagreement(f"{name}: the generated sources {found[name]} give the explicit names {sorted(want)}, the copy "
                             f"site builds an object with {got}", {"site": name, "template_dict": sorted(
                                 k for k in tmpl_obj.__dict__ if not k.startswith('_')), "template_cache": sorted(tmpl_obj.__cache__)})
        else:
            ctx.validated()


def run(ctx):
    pc = _core()
    tables = getattr(ctx, "tables", None) or _tables()[1]
    funcs = _check_registration(ctx, pc, tables)
    worlds = _worlds()
    reps = ctx.budget(1, 7)
    lines, pending = [], []
    with _watch_recursion():
        for rep in range(reps):
            for w in worlds:
                seed = ctx.rng.getrandbits(48)       # the same draws for the plain scenario and its side-value variants
                vals = w.values(random.Random(seed), None)
                plain = {}
                _scenario(ctx, w, vals, funcs, tables, lines, pending, record=plain)
                # (forms and histories: in every second repetition - thorough tier 6 of 12 - to stay inside the time budget)
                more = (_form_variants(ctx, w, vals, plain) + _history_variants(ctx, w, vals, plain)) if rep % 2 == 0 else []
                more = _sibling_variants(ctx, w, vals, plain) + more
                sides = _side_variants(ctx, w, vals, seed, plain, tables)
                if w.secondary and ctx.tier == "quick" and not ctx.extended:
                    sides = [v for v in sides if ctx.rng.random() < 0.5]
                for (vals2, n_orders, reference) in sides + more:
                    _scenario(ctx, w, vals2, funcs, tables, lines, pending, n_orders=n_orders, reference=reference)
        _linked_instances(ctx)
        _check_copy_sites(ctx, pc)
    if ctx.model_available and lines:
        _compare(ctx, lines, pending)
    # the driver reports the first few distinct keys: put one key per kind of failure first
    prio = ["wrong-error", "linked-instances", "slow-failure", "invented", "supplied-changed", "marks-left", "inconsistent",
            "order-dependent", "roundtrip", "underivable", "sibling-dependent", "history-dependent", "copy-differs", "form-dependent"]
    def rank(v):
        kind = v[0].split(":")[-1].split("/")[0]
        return (prio.index(kind) if kind in prio else 99, v[0])
    ctx.violations.sort(key=rank)


def replay(ctx, data):
    r = data["replay"]
    w = [w for w in _worlds() if w.name == r["world"]][0]
    pc = _core()
    tables = _tables()[1]
    funcs = _check_registration(ctx, pc, tables)
    lines, pending = [], []
    ctx.model_available = False
    sup = sorted(r["supplied"], key=w.members.index)
    vals = r["values"]
    with _watch_recursion():
        if r.get("reference_without_side_read"):
            # the members as they read when the side quantity has not been read before, then with it read first
            plain = {}
            _scenario(ctx, w, _plain_vals(vals), funcs, tables, lines, pending,
                      only=(sup, [r["reference_order"]]), record=plain)
            _scenario(ctx, w, vals, funcs, tables, lines, pending, only=(sup, [r["read_order"]]), reference=plain)
        else:
            orders = [r["read_order"]] + ([r["reference_order"]] if "reference_order" in r else [])
            _scenario(ctx, w, vals, funcs, tables, lines, pending, only=(sup, orders))
        if "roundtrip" in r:
            # the value derived on the replayed object, supplied to a fresh one, must give back the original
            m, s_ = r["roundtrip"]["derived"], r["roundtrip"]["back"]
            ran = _run_real(w, sup, r["read_order"], vals, funcs[w.cls])       # (kept: the object's surroundings stay alive)
            x = _read(ran[0], m)
            if x[0] == "V":
                vals2 = dict(vals)
                vals2[m] = x[1]
                obj2, keep2 = w.build({m: x[1]}, vals2)
                got = _read(obj2, s_)
                if got[0] == "V" and not _close(got[1], vals[s_]):
                    ctx.violation(f"{w.group}:roundtrip{_side_tag(vals)}", f"{w.name}: {m}={x[1]} was derived from "
                                  f"{s_}={vals[s_]}; a fresh object given {m} reads {s_}={got[1]}", r)
    for (k, what, _) in ctx.violations:
        print(f"replayed: {k}: {what}")
