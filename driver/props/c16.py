"""C16 - mutually defined quantities are consistent whichever member is supplied.

Tie: T (every hook implementation registered on a hook of one of the groups is re-translated on every run into
lean/PyrollModel/Gen/C16.lean - guards, formulas, host class, tier, source order - and the theorems of
lean/PyrollProps/C16.lean are kernel-evaluated / proved against these tables) + K (the symbolic hook interpreter
lean/PyrollModel/Mutual.lean is run by the driver lean/Drivers/c16.lean on exactly the cases the real objects are put
through: every subset of supplied members x every read order x scenario; values, AttributeError / other exceptions and
the names left in `__cache__` are compared).  The independent oracle checks the property text on the real objects.
"""
import itertools
import math
import os
import time

from ..translate import gen, pyexpr
from .. import stub

ID = "C16"
LEAN_MODULES = ["PyrollProps.C16"]
MODEL = "c16"
MODEL_MODULES = ["PyrollModel.Gen.C16", "PyrollModel.MutualDriver"]

# --------------------------------------------------------------------------------------------------------------
# (T) what is translated
# --------------------------------------------------------------------------------------------------------------
FILES = [
    ("unit", "unit/hookimpls.py"),
    ("transport", "transport/hookimpls/transport.py"),
    ("pipe", "transport/hookimpls/cooling_pipe.py"),
    ("roll", "roll/hookimpls.py"),
    ("rproll", "roll_pass/hookimpls/roll.py"),
    ("brp", "roll_pass/hookimpls/base_roll_pass.py"),
    ("srp", "roll_pass/hookimpls/symmetric_roll_pass.py"),
    ("trp", "roll_pass/hookimpls/two_roll_pass.py"),
    ("t3rp", "roll_pass/hookimpls/three_roll_pass.py"),
]

U_HOOKS = ["length", "duration", "velocity"]
T_HOOKS = ["target_width", "target_filling_ratio", "target_cross_section_area", "target_cross_section_filling_ratio"]
R_HOOKS = ["nominal_radius", "nominal_diameter", "working_radius", "rotational_frequency", "surface_velocity",
           "working_velocity"]

# model class -> (python class path below pyroll.core, hosts that carry implementations in MRO order (the names used in
# the decorators), hooks whose implementations form the table).  MRO and order are cross-checked against the real
# classes (`__mro__`, `Hook.functions`) by the harness on every run.
CLASSES = {
    "Unit": ("Unit", ["Unit"], U_HOOKS),
    "Transport": ("Transport", ["Transport", "Unit"], U_HOOKS),
    "CoolingPipe": ("CoolingPipe", ["CoolingPipe", "Transport", "Unit"], U_HOOKS + ["inner_radius", "cross_section_area"]),
    "TwoRollPass": ("TwoRollPass", ["TwoRollPass", "SymmetricRollPass", "BaseRollPass", "Unit"],
                    U_HOOKS + ["exit_point"] + T_HOOKS),
    "ThreeRollPass": ("ThreeRollPass", ["ThreeRollPass", "SymmetricRollPass", "BaseRollPass", "Unit"],
                      U_HOOKS + ["exit_point"] + T_HOOKS),
    "Roll": ("Roll", ["Roll"], R_HOOKS),
    "PassRoll": ("TwoRollPass.Roll", ["BaseRollPass.Roll", "Roll"], R_HOOKS + ["neutral_point", "neutral_angle", "exit_angle"]),
}


def _scan():
    """all hook implementations of the anchored files: [(lean_name, rel, HookImpl)] in file / source order"""
    out = []
    for tag, rel in FILES:
        path = os.path.join(gen.REPO, "pyroll", "core", rel)
        for impl in pyexpr.extract_hookimpls(path, module_name=rel):
            out.append((f"{tag}_{impl.fn}", rel, impl))
    return out


def _tables(ctx=None):
    """{model class: [(lean_name, HookImpl)] in registration (= file, source) order}"""
    scanned = _scan()
    tables = {}
    for cname, (_, hosts, hooks) in CLASSES.items():
        tables[cname] = [(n, i) for (n, rel, i) in scanned if i.host in hosts and i.hook in hooks]
    return scanned, tables


def translate(ctx):
    scanned, tables = _tables()
    used = []
    for cname in CLASSES:
        for (n, i) in tables[cname]:
            if n not in [u[0] for u in used]:
                used.append((n, i.module, i.fn))
            if i.wrapper:
                ctx.tie_breaks.append(f"translator: {i.fn} (pyroll/core/{i.module}) is a wrapper on a group hook; "
                                      "the interpreter models plain implementations only")
    # a function name used twice in one file would shadow an implementation in the translator index
    seen = {}
    for (n, rel, i) in scanned:
        if (rel, i.fn) in seen and (n, rel, i.fn) in used:
            ctx.tie_breaks.append(f"translator: two hook implementations named {i.fn} in pyroll/core/{rel}")
        seen[(rel, i.fn)] = True
    extra = []
    for cname, (_, hosts, hooks) in CLASSES.items():
        extra.append(f"def cls_{cname}_mro : List String := [" + ", ".join(pyexpr.lean_str(h) for h in hosts) + "]")
        extra.append(f"def cls_{cname}_impls : List Impl := [" + ", ".join(n for (n, _) in tables[cname]) + "]")
    extra.append("def classes : List (String × List String × List Impl) := [" + ", ".join(
        f"({pyexpr.lean_str(c)}, cls_{c}_mro, cls_{c}_impls)" for c in CLASSES) + "]")
    ctx.found = gen.emit_impl_module(ctx, ID, used, extra_text="\n".join(extra) + "\n")
    ctx.tables = tables


def run(ctx):
    pass
